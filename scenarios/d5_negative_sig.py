import mujoco, warp as wp, mujoco_warp as mjw
wp.config.quiet=True
mjm=mujoco.MjModel.from_xml_string("<mujoco><worldbody><body><joint type='slide'/><geom size='.1'/></body></worldbody></mujoco>")
m=mjw.put_model(mjm); d=mjw.make_data(mjm)
st=wp.zeros((1,64),dtype=float)
for sig in (-1,-5):
    try:
        mjw.get_state(m,d,st,sig); print("get_state accepted",sig)
    except ValueError as e: print("get_state rejected",sig)
    try:
        mjw.set_state(m,d,st,sig); print("set_state accepted",sig)
    except ValueError as e: print("set_state rejected",sig)
