"""bounded exhaustive native search used by props/C28.py when a flood-fill obligation is not proved: runs the REAL
island.flood_fill (host function + kernel of the tree under verification) on every symmetric tree-adjacency matrix with
up to 5 trees (all diagonals) and on every one with 6 trees (diagonal all 0 / all 1), one graph per world, and compares
tree_island / nisland with a union-find reference: trees with an edge get the island of their connected component,
islands numbered in order of their smallest tree, trees without any edge get -1.  exit 1 = a failing graph was found
(printed), 0 = none among those enumerated."""
import itertools
import sys
import types

import numpy as np
import warp as wp

from mujoco_warp._src import island


def graphs(n):
  pairs = [(a, b) for a in range(n) for b in range(a + 1, n)]
  diags = list(itertools.product((0, 1), repeat=n)) if n <= 5 else [(0,) * n, (1,) * n]
  off = np.array(list(itertools.product((0, 1), repeat=len(pairs))), dtype=np.int32).reshape(2 ** len(pairs), len(pairs))
  out = np.zeros((len(diags) * len(off), n, n), dtype=np.int32)
  k = 0
  for dg in diags:
    blk = out[k : k + len(off)]
    for c, (a, b) in enumerate(pairs):
      blk[:, a, b] = off[:, c]
      blk[:, b, a] = off[:, c]
    for a in range(n):
      blk[:, a, a] = dg[a]
    k += len(off)
  return out


def reference(tt):
  n = tt.shape[0]
  lab = [-1] * n
  nis = 0
  for i in range(n):
    if lab[i] != -1 or not tt[i].any():
      continue
    todo = [i]
    while todo:
      v = todo.pop()
      if lab[v] != -1:
        continue
      lab[v] = nis
      todo += [b for b in range(n) if tt[v, b] and lab[b] == -1]
    nis += 1
  return lab, nis


bad = 0
total = 0
for n in range(1, 7):
  g = graphs(n)
  nw = g.shape[0]
  m = types.SimpleNamespace(ntree=n)
  d = types.SimpleNamespace(nworld=nw, tree_island=wp.zeros((nw, n), dtype=int), nisland=wp.zeros(nw, dtype=int))
  island.flood_fill(m, d, wp.array(g, dtype=int))
  lab, nis = d.tree_island.numpy(), d.nisland.numpy()
  for w in range(nw):
    rl, rn = reference(g[w])
    total += 1
    if list(lab[w]) != rl or int(nis[w]) != rn:
      bad += 1
      if bad <= 3:
        print(f"failing input: ntree={n} tree_tree={g[w].tolist()}: tree_island={lab[w].tolist()} nisland={int(nis[w])}, expected {rl} and {rn}")
if bad:
  print(f"{bad} of {total} graphs give wrong islands")
  sys.exit(1)
print(f"ok: {total} graphs (all with up to 5 trees, all off-diagonal patterns with 6), islands equal the connected components")
