import mujoco, warp as wp, mujoco_warp as mjw, numpy as np
wp.config.quiet=True
print(mjw.__file__)
xml="""<mujoco><option gravity="0 0 -9.81"/><worldbody>
<body name="a" pos="0 0 1"><freejoint/><geom size=".1" contype="0" conaffinity="0"/></body>
</worldbody><equality><connect body1="a" body2="world" anchor="0 0 0"/></equality></mujoco>"""
mjm=mujoco.MjModel.from_xml_string(xml)
mjd=mujoco.MjData(mjm); mujoco.mj_forward(mjm,mjd)
def run(njmax):
    m=mjw.put_model(mjm); d=mjw.put_data(mjm,mjd,nconmax=4,njmax=njmax)
    for _ in range(5): mjw.step(m,d)
    return d.qpos.numpy()[0].copy(), int(d.overflow.numpy()[0]), int(d.nefc.numpy()[0])
ref,ov,ne=run(50); print("ample:",ref[:3],ov,ne)
ok=True
for nj in (3,6):
    q,ov,ne=run(nj); same=np.allclose(q,ref,atol=1e-6)
    print("njmax",nj,"overflow",ov,"nefc",ne,"same as ample:",same)
    if ov==0 and not same: ok=False
print("PASS" if ok else "FAIL"); raise SystemExit(0 if ok else 1)
