"""D7 witness: forward() changes the integration-state field Data.history (mj_forward does not)."""
import mujoco, warp as wp, mujoco_warp as mjw, numpy as np
wp.config.quiet = True
xml = """<mujoco><option timestep="0.01"/><worldbody><body><joint name="j" type="slide"/><geom size=".1"/></body></worldbody>
<sensor><jointpos joint="j" delay="0.02" nsample="3"/></sensor></mujoco>"""
mjm = mujoco.MjModel.from_xml_string(xml)
mjd = mujoco.MjData(mjm)
mjd.qpos[0] = 0.3
h0 = mjd.history.copy(); mujoco.mj_forward(mjm, mjd)
print("mujoco: history changed by mj_forward:", not np.array_equal(h0, mjd.history))
m = mjw.put_model(mjm); d = mjw.put_data(mjm, mjd)
a = d.history.numpy().copy(); mjw.forward(m, d); b = d.history.numpy().copy(); mjw.forward(m, d); c = d.history.numpy().copy()
print("mujoco_warp: history changed by forward():", not np.array_equal(a, b), " changed again by a second forward():", not np.array_equal(b, c))
print(a, b, c, sep="\n")
