import mujoco, warp as wp, mujoco_warp as mjw, numpy as np
wp.config.quiet=True
xml="""<mujoco><worldbody><body><joint name="j" type="slide"/><geom size=".1"/></body></worldbody>
<actuator><general joint="j" dyntype="user" actdim="3"/></actuator></mujoco>"""
mjm=mujoco.MjModel.from_xml_string(xml)
assert mjm.na==3 and mjm.nu==1
m=mjw.put_model(mjm); d=mjw.make_data(mjm)
d.act.fill_(5.0); d.act_dot.fill_(7.0)
mjw.reset_data(m,d)
a=d.act.numpy(); ad=d.act_dot.numpy()
print(a, ad)
ok = (a==0).all() and (ad==0).all()
print("PASS" if ok else "FAIL"); raise SystemExit(0 if ok else 1)
