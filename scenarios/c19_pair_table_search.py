"""bounded native search used by props/C19.py when the pair-table rule is not proved: builds small kinematic trees
(jointed and jointless children in both declaration orders, nested welds, random contype/conaffinity masks, an
exclude, an explicit pair, parent filtering on and off), runs the REAL io.put_model of the tree under verification and
compares Model.nxn_pairid[:, 0] for every geom pair with the rule of the statement evaluated directly on the MjModel.
exit 1 = a pair with a wrong entry was found (printed); 0 = none among the models enumerated."""
import itertools
import sys

import mujoco
import numpy as np

import mujoco_warp as mjw


def body(name, joint, inner=""):
  j = '<joint type="hinge" axis="0 0 1"/>' if joint else ""
  return f'<body name="{name}" pos="0.1 0 0">{j}<geom name="{name}_g" size="0.05" mass="1"/>{inner}</body>'


def models():
  rng = np.random.default_rng(7)
  for fp in (True, False):
    for order in itertools.permutations([("c1", True), ("c2", False), ("c3", True)]):
      for deep in (False, True):
        kids = "".join(body(n, j, body(n + "d", False, body(n + "dd", True)) if deep else "") for n, j in order)
        flag = "" if fp else '<option><flag filterparent="disable"/></option>'
        xml = f"""<mujoco>{flag}<worldbody><geom name="floor" type="plane" size="1 1 .1"/>
        <body name="root" pos="0 0 1"><freejoint/><geom name="root_g" size="0.05" mass="1"/>
        <body name="arm" pos="0.1 0 0"><joint type="hinge" axis="0 1 0"/><geom name="arm_g" size="0.05" mass="1"/>{kids}</body></body>
        </worldbody><contact><exclude body1="root" body2="c3"/><pair geom1="root_g" geom2="c1_g"/></contact></mujoco>"""
        mjm = mujoco.MjModel.from_xml_string(xml)
        for trial in range(2):
          if trial:
            mjm.geom_contype[:] = rng.integers(0, 4, mjm.ngeom)
            mjm.geom_conaffinity[:] = rng.integers(0, 4, mjm.ngeom)
          yield mjm, f"filterparent={fp} order={[n for n, _ in order]} deep={deep} masks={'random' if trial else 'default'}"


bad = 0
n = 0
for mjm, what in models():
  m = mjw.put_model(mjm)
  tab = m.nxn_pairid.numpy()[:, 0]
  pairs = m.nxn_geom_pair.numpy()
  fp = not (mjm.opt.disableflags & mujoco.mjtDisableBit.mjDSBL_FILTERPARENT)
  explicit = {(min(a, b), max(a, b)): i for i, (a, b) in enumerate(zip(mjm.pair_geom1, mjm.pair_geom2))}
  for p, (g1, g2) in enumerate(pairs):
    n += 1
    b1, b2 = mjm.geom_bodyid[g1], mjm.geom_bodyid[g2]
    w1, w2 = mjm.body_weldid[b1], mjm.body_weldid[b2]
    pc = fp and w1 != 0 and w2 != 0 and (w1 == mjm.body_weldid[mjm.body_parentid[w2]] or w2 == mjm.body_weldid[mjm.body_parentid[w1]])
    comp = bool((mjm.geom_contype[g1] & mjm.geom_conaffinity[g2]) | (mjm.geom_contype[g2] & mjm.geom_conaffinity[g1]))
    excl = ((b1 << 16) + b2) in set(mjm.exclude_signature.tolist())
    want = explicit.get((g1, g2), -1 if (comp and w1 != w2 and not pc and not excl) else -2)
    if tab[p] != want:
      bad += 1
      if bad <= 3:
        nm = lambda g: mujoco.mj_id2name(mjm, mujoco.mjtObj.mjOBJ_GEOM, g)
        print(f"failing input: {what}: pair ({nm(g1)}, {nm(g2)}) has table entry {tab[p]}, the rule gives {want} (weld bodies {w1}, {w2})")
if bad:
  print(f"{bad} of {n} table entries are wrong")
  sys.exit(1)
print(f"ok: {n} table entries agree with the rule")
