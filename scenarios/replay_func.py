"""Native replay of a counter-model of a FUNCTION contract: runs the real @wp.func from the tree under verification
(PYTHONPATH) inside a one-thread Warp kernel on the inputs of the counter-model and evaluates the violated contract
clause on the computed result in float arithmetic.

usage: replay_func.py <json-file>   with {"module", "func", "params": [[name, type, values]...], "ret": [type...],
                                           "requires": [...], "clause": text, "extra": {name: value}}
exit 1: every `requires` clause holds on the inputs (within tolerance) and the clause evaluates to FALSE on the real
        function's result -> reproduced;  0: the clause holds;  2: inputs do not satisfy the preconditions numerically /
        not executable."""
import ast
import importlib
import json
import sys

import numpy as np
import warp as wp

TOL = 1e-4

spec = json.load(open(sys.argv[1]))
mod = importlib.import_module("mujoco_warp._src." + spec["module"])
fn = getattr(mod, spec["func"])

WT = {"float": float, "int": int, "bool": bool, "vec3": wp.vec3, "quat": wp.quat, "mat33": wp.mat33, "vec2": wp.vec2, "vec4": wp.vec4}
NC = {"float": 1, "int": 1, "bool": 1, "vec3": 3, "quat": 4, "mat33": 9, "vec2": 2, "vec4": 4}


def lit(t, vals):
  if t == "float":
    return repr(float(vals[0]))
  if t == "int":
    return repr(int(vals[0]))
  if t == "bool":
    return "True" if vals[0] else "False"
  return f"wp.{t}(" + ", ".join(repr(float(v)) for v in vals) + ")"


args = ", ".join(lit(t, v) for _, t, v in spec["params"])
rets = spec["ret"]
nout = sum(NC[t] for t in rets)
lines = ["import warp as wp", f"from mujoco_warp._src.{spec['module']} import {spec['func']} as F", "@wp.kernel", "def K(out: wp.array(dtype=float)):"]
if len(rets) == 1:
  lines.append(f"  r0 = F({args})")
else:
  lines.append("  " + ", ".join(f"r{i}" for i in range(len(rets))) + f" = F({args})")
k = 0
for i, t in enumerate(rets):
  if NC[t] == 1:
    lines.append(f"  out[{k}] = float(r{i})")
    k += 1
  elif t == "mat33":
    for a in range(3):
      for b in range(3):
        lines.append(f"  out[{k}] = r{i}[{a}, {b}]")
        k += 1
  else:
    for a in range(NC[t]):
      lines.append(f"  out[{k}] = r{i}[{a}]")
      k += 1
import os
import tempfile

d = tempfile.mkdtemp(prefix="wpv_replay_")
src = os.path.join(d, "wpv_replay_kernel.py")
open(src, "w").write("\n".join(lines) + "\n")
sys.path.insert(0, d)
try:
  km = importlib.import_module("wpv_replay_kernel")
  out = wp.zeros(nout, dtype=float)
  wp.launch(km.K, dim=1, inputs=[out])
  res = out.numpy().astype(float)
except Exception as e:
  print("not executable:", str(e)[:300])
  sys.exit(2)
finally:
  import shutil

  shutil.rmtree(d, ignore_errors=True)


class M(np.ndarray):
  pass


def shape(t, vals):
  if NC[t] == 1:
    return float(vals[0]) if t != "bool" else bool(vals[0])
  a = np.array(vals, dtype=float)
  return a.reshape(3, 3) if t == "mat33" else a


env = {n: shape(t, v) for n, t, v in spec["params"]}
k = 0
rv = []
for t in rets:
  rv.append(shape(t, list(res[k : k + NC[t]])))
  k += NC[t]
env["result"] = rv[0] if len(rv) == 1 else tuple(rv)
env.update(spec.get("extra") or {})


class _WP:
  @staticmethod
  def length(v):
    return float(np.sqrt(np.sum(np.asarray(v, dtype=float) ** 2)))

  @staticmethod
  def dot(a, b):
    return float(np.dot(np.asarray(a, float), np.asarray(b, float)))

  @staticmethod
  def clamp(x, lo, hi):
    return min(max(x, lo), hi)


def approx(a, b):
  return abs(a - b) <= TOL * (1.0 + abs(a) + abs(b))


class T(ast.NodeTransformer):
  """exact comparisons of the real-arithmetic contract become tolerant float comparisons"""

  def visit_Compare(self, n):
    self.generic_visit(n)
    if len(n.ops) != 1:
      return n
    op, l, r = n.ops[0], n.left, n.comparators[0]
    f = {ast.Eq: "_eq", ast.NotEq: "_ne", ast.LtE: "_le", ast.GtE: "_ge", ast.Lt: "_lt", ast.Gt: "_gt"}.get(type(op))
    if f is None:
      return n
    return ast.copy_location(ast.Call(func=ast.Name(id=f, ctx=ast.Load()), args=[l, r], keywords=[]), n)


env.update(
  _eq=lambda a, b: approx(float(a), float(b)),
  _ne=lambda a, b: not approx(float(a), float(b)),
  _le=lambda a, b: float(a) <= float(b) + TOL * (1 + abs(float(a)) + abs(float(b))),
  _ge=lambda a, b: float(a) >= float(b) - TOL * (1 + abs(float(a)) + abs(float(b))),
  _lt=lambda a, b: float(a) < float(b) + TOL * (1 + abs(float(a)) + abs(float(b))),
  _gt=lambda a, b: float(a) > float(b) - TOL * (1 + abs(float(a)) + abs(float(b))),
  implies=lambda a, b: (not a) or b,
  iff=lambda a, b: bool(a) == bool(b),
  ite=lambda c, a, b: a if c else b,
  wp=_WP,
  abs=abs,
  min=min,
  max=max,
  float=float,
  int=int,
)


def ev(text):
  tree = T().visit(ast.parse(text.strip(), mode="eval"))
  ast.fix_missing_locations(tree)
  return bool(eval(compile(tree, "<contract>", "eval"), {"__builtins__": {}}, env))


try:
  for r in spec.get("requires", []):
    if not ev(r):
      print("counter-model inputs do not satisfy the precondition in float arithmetic:", r[:120])
      sys.exit(2)
  ok = ev(spec["clause"])
except Exception as e:
  print("clause not evaluable natively:", type(e).__name__, str(e)[:200])
  sys.exit(2)
print("inputs:", {n: v for n, _, v in spec["params"]})
print("real function result:", [np.round(np.asarray(x, dtype=float), 6).tolist() for x in rv])
print("clause:", spec["clause"][:200])
print("holds on the real code" if ok else "VIOLATED on the real code")
sys.exit(0 if ok else 1)
