"""Native replay of a verifier counter-model against the real mujoco_warp API (run with /venv/bin/python).

The verifier's counter-model fixes what matters for the failed obligation (which sizes are zero / non-zero,
na > nu, the state signature, masked or not); this script synthesises a MuJoCo model of that shape (sizes
clamped to small numbers, since the obligation is size-generic), drives the real public API and checks the
property's own statement with an independent oracle (mujoco.mj_getState, mujoco.mj_resetData/make_data):

  state  (C15)  get_state == mujoco.mj_getState; set_state -> get_state round trip; masks; rejected signatures
  reset  (C13)  reset_data restores the selected worlds to a fresh Data and leaves the others alone
  key    (C14)  reset_data_keyframe loads the keyframe / rejects bad keys

exit 0: the real code satisfies the property on this input | 1: it does not (the failing cells are printed) | 2: input could
not be synthesised.  The findings listed in /verif/known_findings.json (history buffers, reported contacts after a
partial reset) are deliberately not part of this oracle: it replays *new* violations.
"""

import argparse
import sys

import mujoco
import numpy as np
import warp as wp

import mujoco_warp as mjw

try:
  wp.config.log_level = wp.LOG_WARNING
except Exception:
  wp.config.quiet = True


def clamp(v, cap=8):
  v = int(v)
  return 0 if v <= 0 else min(v, cap)


SIZE_KEYS = ("nq", "nu", "na", "nmocap", "nuserdata", "neq", "nkey")


def compress(a):
  """counter-models carry arbitrary sizes (nq = 62907 ...): keep zero / non-zero and every order relation between
  the sizes, with the smallest numbers that do (rank among the distinct positive values)"""
  vals = sorted({max(0, int(getattr(a, k))) for k in SIZE_KEYS} - {0})
  rank = {v: i + 1 for i, v in enumerate(vals)}
  for k in SIZE_KEYS:
    setattr(a, k, rank.get(max(0, int(getattr(a, k))), 0))
  if a.nq == 0:
    # a model without joints cannot carry actuators or equalities: one joint, every other non-zero size one larger
    for k in SIZE_KEYS:
      if getattr(a, k) > 0:
        setattr(a, k, getattr(a, k) + 1)
    a.nq = 1


def build_xml(a):
  nj = max(1, clamp(a.nq))
  nmocap, nud, neq, nkey = clamp(a.nmocap), clamp(a.nuserdata, 5), clamp(a.neq), clamp(a.nkey)
  nu, na = clamp(a.nu), clamp(a.na, 6)
  bodies = "".join(f'<body mocap="true" pos="{i} 0 1" quat="1 0 {i + 1} 0"><geom size="0.1" contype="0" conaffinity="0"/></body>' for i in range(nmocap))
  for i in range(nj):
    bodies += f'<body pos="{i} 1 1"><joint name="j{i}" type="slide" axis="0 0 1" damping="1"/><geom size="0.1" mass="1" contype="0" conaffinity="0"/></body>'
  acts = ""
  if na > 0 and nu == 0:
    nu = 1
  stateful = []
  if na > nu:
    # more activations than actuators: one user-dynamics actuator with several activation variables
    stateful.append(f'<general joint="j0" dyntype="user" actdim="{na - (nu - 1)}"/>')
    stateful += ['<general joint="j0" dyntype="filter" dynprm="0.1"/>'] * (nu - 1)
    nstateless = 0
  else:
    stateful += ['<general joint="j0" dyntype="filter" dynprm="0.1"/>'] * na
    nstateless = nu - na
  delay = ' delay="0.03" nsample="4"' if a.nhistory > 0 else ""
  acts = "".join(f'<motor joint="j{i % nj}"{delay if i == 0 else ""}/>' for i in range(nstateless)) + "".join(stateful)
  if a.nhistory > 0 and nstateless == 0:
    sens = '<sensor><jointpos joint="j0" delay="0.02" nsample="3"/></sensor>'
  else:
    sens = ""
  eqs = "".join(f'<joint joint1="j{i % nj}" polycoef="0.{i + 1} 0 0 0 0" active="{"true" if i % 2 else "false"}"/>' for i in range(neq))
  keys = ""
  if nkey:
    mjm0 = mujoco.MjModel.from_xml_string(f"<mujoco><size nuserdata='{nud}'/><worldbody>{bodies}</worldbody><actuator>{acts}</actuator>{sens}<equality>{eqs}</equality></mujoco>")
    r = np.random.RandomState(7)
    for k in range(nkey):
      f = lambda n: " ".join(f"{x:.3f}" for x in r.uniform(-0.5, 0.5, n))
      attrs = f'qpos="{f(mjm0.nq)}" qvel="{f(mjm0.nv)}" time="{k + 1}.5"'
      if mjm0.na:
        attrs += f' act="{f(mjm0.na)}"'
      if mjm0.nu:
        attrs += f' ctrl="{f(mjm0.nu)}"'
      if mjm0.nmocap:
        attrs += f' mpos="{f(3 * mjm0.nmocap)}" mquat="{" ".join(["0 1 0 0"] * mjm0.nmocap)}"'
      keys += f"<key {attrs}/>"
  return f"""<mujoco><option timestep="0.01"/><size nuserdata="{nud}"/><worldbody>{bodies}</worldbody>
<actuator>{acts}</actuator>{sens}<equality>{eqs}</equality><keyframe>{keys}</keyframe></mujoco>"""


STATE_FIELDS = ["time", "qpos", "qvel", "act", "history", "qacc_warmstart", "ctrl", "qfrc_applied", "xfrc_applied", "eq_active", "mocap_pos", "mocap_quat", "userdata"]


def randomise(d, rng, fields=STATE_FIELDS + ["act_dot", "qacc"]):
  """give every listed Data field distinct random content (per world)"""
  for f in fields:
    arr = getattr(d, f)
    x = arr.numpy()
    if x.size == 0:
      continue
    if x.dtype == bool:
      y = rng.rand(*x.shape) < 0.5
    else:
      y = rng.uniform(0.1, 0.9, x.shape).astype(x.dtype)
    wp.copy(arr, wp.array(y, dtype=arr.dtype, shape=arr.shape))


def to_mjdata(mjm, d, w):
  mjd = mujoco.MjData(mjm)
  mjd.time = float(d.time.numpy()[w])
  for f in ["qpos", "qvel", "act", "history", "qacc_warmstart", "ctrl", "qfrc_applied", "xfrc_applied", "eq_active", "mocap_pos", "mocap_quat", "userdata"]:
    x = getattr(d, f).numpy()[w]
    if x.size:
      getattr(mjd, f)[...] = x.reshape(getattr(mjd, f).shape)
  return mjd


def cmd_state(a, mjm, m, fails):
  nworld = 3
  rng = np.random.RandomState(a.seed)
  nstate = int(mjw.State.NSTATE) if hasattr(mjw, "State") else 14
  sigs = [a.sig]
  full = (1 << nstate) - 1
  if 0 <= a.sig < (1 << nstate) and a.sig != full:
    sigs.append(full)
  for sig in sigs:
    d = mjw.make_data(mjm, nworld=nworld)
    randomise(d, rng)
    if sig < 0 or sig >= (1 << nstate):
      for name, fn in (("get_state", mjw.get_state), ("set_state", mjw.set_state)):
        try:
          fn(m, d, wp.zeros((nworld, 64), dtype=float), sig)
          fails.append(f"{name} accepted the invalid signature {sig}")
        except ValueError:
          pass
      continue
    size = mujoco.mj_stateSize(mjm, sig)
    masks = [None] + ([np.array([True, False, True])] if a.masked else [])
    for mask in masks:
      active = None if mask is None else wp.array(mask, dtype=bool)
      out = wp.array(np.full((nworld, size + 2), -7.0, dtype=np.float32))
      mjw.get_state(m, d, out, sig, active)
      got = out.numpy()
      for w in range(nworld):
        if mask is not None and not mask[w]:
          if not (got[w] == -7.0).all():
            fails.append(f"get_state sig={sig}: inactive world {w} was written")
          continue
        want = np.zeros(size)
        mujoco.mj_getState(mjm, to_mjdata(mjm, d, w), want, sig)
        bad = np.nonzero(np.abs(got[w, :size] - want) > 1e-6)[0]
        if bad.size:
          fails.append(f"get_state sig={sig} world {w}: differs from mujoco.mj_getState at columns {bad[:8].tolist()} (got {got[w, bad[:4]].tolist()} want {want[bad[:4]].tolist()})")
        if not (got[w, size:] == -7.0).all():
          fails.append(f"get_state sig={sig} world {w}: wrote beyond mj_stateSize={size}")
      # round trip and set_state frame
      x = rng.uniform(0.1, 0.9, (nworld, size)).astype(np.float32)
      ref = mujoco.MjData(mjm)
      # eq_active cells must be 0/1 for a lossless round trip: locate them with MuJoCo itself
      if sig & int(mujoco.mjtState.mjSTATE_EQ_ACTIVE) and mjm.neq:
        lo = mujoco.mj_stateSize(mjm, sig & (int(mujoco.mjtState.mjSTATE_EQ_ACTIVE) - 1))
        x[:, lo : lo + mjm.neq] = (x[:, lo : lo + mjm.neq] > 0.5).astype(np.float32)
      before = {f: getattr(d, f).numpy().copy() for f in STATE_FIELDS}
      mjw.set_state(m, d, wp.array(x), sig, active)
      back = wp.zeros((nworld, size), dtype=float)
      mjw.get_state(m, d, back, sig, None)
      y = back.numpy()
      for w in range(nworld):
        if mask is not None and not mask[w]:
          for f in STATE_FIELDS:
            if not np.array_equal(before[f][w], getattr(d, f).numpy()[w]):
              fails.append(f"set_state sig={sig}: inactive world {w} field {f} was modified")
          continue
        bad = np.nonzero(np.abs(y[w] - x[w]) > 1e-6)[0]
        if bad.size:
          fails.append(f"set_state -> get_state sig={sig} world {w}: not the input at columns {bad[:8].tolist()}")
        mjd = mujoco.MjData(mjm)
        mujoco.mj_setState(mjm, mjd, x[w].astype(np.float64), sig)
        for f in ["qpos", "qvel", "act", "ctrl", "mocap_pos", "mocap_quat", "userdata", "qacc_warmstart", "qfrc_applied", "xfrc_applied"]:
          bit = getattr(mujoco.mjtState, "mjSTATE_" + {"qacc_warmstart": "WARMSTART"}.get(f, f.upper()))
          if sig & int(bit):
            if not np.allclose(getattr(d, f).numpy()[w].reshape(-1), getattr(mjd, f).reshape(-1), atol=1e-6):
              fails.append(f"set_state sig={sig} world {w}: Data.{f} differs from mujoco.mj_setState")
          elif not np.array_equal(before[f][w], getattr(d, f).numpy()[w]):
            fails.append(f"set_state sig={sig} world {w}: Data.{f} modified although its bit is clear")
      del ref


RESET_FIELDS = ["time", "qpos", "qvel", "act", "act_dot", "ctrl", "qacc", "qacc_warmstart", "qfrc_applied", "xfrc_applied", "eq_active", "mocap_pos", "mocap_quat", "userdata"]


def snap(d, fields):
  return {f: getattr(d, f).numpy().copy() for f in fields}


def cmd_reset(a, mjm, m, fails):
  nworld = 3
  rng = np.random.RandomState(a.seed)
  fresh = snap(mjw.make_data(mjm, nworld=nworld), RESET_FIELDS)
  cases = [("none", None, [True] * nworld)]
  if a.masked:
    cases.append(("bool", wp.array(np.array([False, True, False]), dtype=bool), [False, True, False]))
    cases.append(("int", wp.array(np.array([3, 0, -1]), dtype=int), [True, False, True]))
  for name, reset, sel in cases:
    d = mjw.make_data(mjm, nworld=nworld)
    for _ in range(3):
      mjw.step(m, d)
    randomise(d, rng, RESET_FIELDS)
    before = snap(d, RESET_FIELDS)
    mjw.reset_data(m, d, reset)
    after = snap(d, RESET_FIELDS)
    for w in range(nworld):
      for f in RESET_FIELDS:
        want = fresh[f][w] if sel[w] else before[f][w]
        if not np.array_equal(after[f][w], want):
          fails.append(f"reset_data[{name}] world {w} ({'selected' if sel[w] else 'not selected'}): Data.{f} = {after[f][w].reshape(-1)[:6].tolist()} want {want.reshape(-1)[:6].tolist()}")


def cmd_key(a, mjm, m, fails):
  nworld = 3
  rng = np.random.RandomState(a.seed)
  if mjm.nkey == 0:
    d = mjw.make_data(mjm, nworld=nworld)
    try:
      mjw.reset_data_keyframe(m, d, 0)
      fails.append("reset_data_keyframe accepted key 0 on a model without keyframes")
    except ValueError:
      pass
    return
  fields = ["time", "qpos", "qvel", "act", "ctrl", "mocap_pos", "mocap_quat"]
  for bad in (-1, mjm.nkey):
    d = mjw.make_data(mjm, nworld=nworld)
    try:
      mjw.reset_data_keyframe(m, d, bad)
      fails.append(f"reset_data_keyframe accepted the scalar key {bad} (nkey={mjm.nkey})")
    except ValueError:
      pass
  keys = [[k] * nworld for k in range(mjm.nkey)] + [[0, -1, mjm.nkey]]
  for ks in keys:
    for as_array in (False, True):
      if not as_array and len(set(ks)) > 1:
        continue
      d = mjw.make_data(mjm, nworld=nworld)
      for _ in range(2):
        mjw.step(m, d)
      randomise(d, rng, fields + ["act_dot", "qacc", "qacc_warmstart", "userdata"])
      before = snap(d, fields)
      mjw.reset_data_keyframe(m, d, wp.array(np.array(ks), dtype=int) if as_array else ks[0])
      after = snap(d, fields)
      for w in range(nworld):
        k = ks[w]
        if not (0 <= k < mjm.nkey):
          for f in fields:
            if not np.array_equal(after[f][w], before[f][w]):
              fails.append(f"reset_data_keyframe key={ks} world {w}: out-of-range key, but Data.{f} was modified")
          continue
        mjd = mujoco.MjData(mjm)
        mujoco.mj_resetDataKeyframe(mjm, mjd, k)
        for f in fields:
          want = np.asarray(getattr(mjd, f), dtype=np.float64).reshape(-1)
          got = np.asarray(after[f][w], dtype=np.float64).reshape(-1)
          if not np.allclose(got, want, atol=1e-6):
            fails.append(f"reset_data_keyframe key={k} world {w} ({'array' if as_array else 'scalar'}): Data.{f} = {got[:6].tolist()} want {want[:6].tolist()} (mujoco.mj_resetDataKeyframe)")


def main():
  ap = argparse.ArgumentParser()
  ap.add_argument("what", choices=["state", "reset", "key"])
  for k in ("nq", "nv", "nu", "na", "nmocap", "nuserdata", "neq", "nhistory", "nkey", "nbody"):
    ap.add_argument("--" + k, type=int, default=2)
  ap.add_argument("--sig", type=int, default=(1 << 13) - 1)
  ap.add_argument("--masked", type=int, default=1)
  ap.add_argument("--seed", type=int, default=0)
  a = ap.parse_args()
  compress(a)
  try:
    xml = build_xml(a)
    mjm = mujoco.MjModel.from_xml_string(xml)
    m = mjw.put_model(mjm)
  except Exception as e:
    print("could not synthesise a model of the requested shape:", repr(e)[:500])
    return 2
  print(f"model: nq={mjm.nq} nv={mjm.nv} nu={mjm.nu} na={mjm.na} nmocap={mjm.nmocap} nuserdata={mjm.nuserdata} neq={mjm.neq} nhistory={mjm.nhistory} nkey={mjm.nkey}; sig={a.sig} masked={a.masked}")
  fails = []
  {"state": cmd_state, "reset": cmd_reset, "key": cmd_key}[a.what](a, mjm, m, fails)
  for f in fails[:20]:
    print("FAIL:", f)
  print("REPRODUCED: the real code violates the property on this input" if fails else "PASS: the real code satisfies the property on this input")
  return 1 if fails else 0


if __name__ == "__main__":
  sys.exit(main())
