"""bounded native audit used by props/C11.py: MODEL_WF.branches -- every entry of Model.body_branches is a complete
root-to-leaf chain (first body hangs off the world, each next body is a child of the previous one), so a branch task
of the kinematics / com-velocity / com-acceleration kernels only ever reads parent cells it wrote itself. Checked on
synthetic trees of different shapes (the race-freedom of those kernels in C11 ASSUMES it)."""
import sys

import mujoco
import numpy as np

import mujoco_warp as mjw


def chain(n, prefix, leaves=0):
  s = ""
  for i in range(n):
    s += f'<body name="{prefix}{i}" pos="0 0 .1"><joint type="hinge"/><geom size=".02"/>'
  for l in range(leaves):
    s += f'<body name="{prefix}leaf{l}" pos=".1 {0.05 * l} 0"><joint type="hinge"/><geom size=".02"/></body>'
  s += "</body>" * n
  return s


MODELS = {
  "chain": f"<mujoco><worldbody>{chain(4, 'a')}</worldbody></mujoco>",
  "bushy": f"<mujoco><worldbody>{chain(5, 'a', leaves=6)}<body pos='1 0 0'><freejoint/><geom size='.05'/><body pos='0 0 .1'><joint/><geom size='.02'/></body></body></worldbody></mujoco>",
  "forest": f"<mujoco><worldbody>{chain(2, 'a', leaves=2)}{chain(3, 'b', leaves=3)}{chain(1, 'c')}</worldbody></mujoco>",
}
bad = []
for name, xml in MODELS.items():
  mjm = mujoco.MjModel.from_xml_string(xml)
  m = mjw.put_model(mjm)
  br = np.asarray(m.body_branches.numpy() if hasattr(m.body_branches, "numpy") else m.body_branches)
  st = np.asarray(m.body_branch_start.numpy() if hasattr(m.body_branch_start, "numpy") else m.body_branch_start)
  parent = mjm.body_parentid
  covered = set()
  for k in range(len(st) - 1):
    seg = br[st[k] : st[k + 1]]
    if len(seg) == 0:
      bad.append(f"{name}: empty branch {k}")
      continue
    if parent[seg[0]] != 0:
      bad.append(f"{name}: branch {k} starts at body {seg[0]} whose parent {parent[seg[0]]} is not the world (another task's cell)")
    for a, b in zip(seg[:-1], seg[1:]):
      if parent[b] != a:
        bad.append(f"{name}: branch {k}: body {b} follows {a} but its parent is {parent[b]}")
    covered.update(int(x) for x in seg)
  if covered != set(range(1, mjm.nbody)):
    bad.append(f"{name}: branches do not cover all bodies: missing {sorted(set(range(1, mjm.nbody)) - covered)}")
if bad:
  print("MODEL_WF.branches VIOLATED:")
  for b in bad[:10]:
    print("  " + b)
  sys.exit(1)
print("ok: every branch is a complete root-to-leaf chain on", list(MODELS))
