"""D6 witness: the primitive-narrowphase dispatch list is process-global and only grows.
After a model with NATIVECCD disabled (box-box handled by the primitive path) has run, a later
default model has its box-box pairs handled by BOTH the convex and the primitive kernel."""
import subprocess, sys, json
CODE = r'''
import sys, json, mujoco, warp as wp, numpy as np
wp.config.quiet = True
import mujoco_warp as mjw
XML = """<mujoco><option>{flag}</option><worldbody><geom type="plane" size="5 5 .1"/>
<body pos="0 0 .1"><freejoint/><geom type="box" size=".1 .1 .1"/></body>
<body pos="0 0 .295"><freejoint/><geom type="box" size=".1 .1 .1"/></body></worldbody></mujoco>"""
def run(flag):
  mjm = mujoco.MjModel.from_xml_string(XML.format(flag=flag))
  mjd = mujoco.MjData(mjm); mujoco.mj_forward(mjm, mjd)
  m = mjw.put_model(mjm); d = mjw.put_data(mjm, mjd, nconmax=64, njmax=256)
  for _ in range(3): mjw.step(m, d)
  return int(d.nacon.numpy()[0]), d.qpos.numpy()[0].tolist()
out = []
for flag in sys.argv[1:]:
  out.append(run(flag))
print(json.dumps(out[-1]))
'''
def proc(*flags):
  r = subprocess.run([sys.executable, "-c", CODE, *flags], capture_output=True, text=True)
  return json.loads(r.stdout.strip().splitlines()[-1])
alone = proc("")
after = proc('<flag nativeccd="disable"/>', "")
print("default model alone:           nacon =", alone[0])
print("after a NATIVECCD-disabled run: nacon =", after[0])
ok = alone == after
print("PASS" if ok else "FAIL")
sys.exit(0 if ok else 1)
