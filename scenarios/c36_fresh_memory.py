"""bounded native probe used by props/C36.py: the result of forward() on a FRESH Data must not depend on what freed device
memory contains (i.e. on what ran earlier in the process). Before every trial, arrays of NaN of many sizes are allocated and
freed, so that warp's allocator hands their blocks to the next make_data / solver context; a value that was never written then
shows up as NaN or garbage. usage: c36_fresh_memory.py <sparse|dense> <sleep 0|1>; exit 1 = some trial gave a wrong qacc."""
import sys

import mujoco
import numpy as np
import warp as wp

import mujoco_warp as mjw

jac = sys.argv[1]
sleep = sys.argv[2] == "1"
xml = f"""<mujoco><option jacobian="{jac}" gravity="0 0 -9.81"/><worldbody>
""" + "".join(f'<body pos="{i} 0 1"><freejoint/><geom size=".1"/></body>' for i in range(4)) + "</worldbody></mujoco>"
mjm = mujoco.MjModel.from_xml_string(xml)
if sleep:
  mjm.opt.enableflags |= int(mujoco.mjtEnableBit.mjENBL_SLEEP)
m = mjw.put_model(mjm)
bad = []
for rep in range(8):
  junk = [wp.array(np.full(n, np.nan, dtype=np.float32)) for n in (16, 24, 64, 96, 144, 256, 576, 1024, 4096, 24 * 24, 16 * 16, 32 * 32) for _ in range(6)]
  del junk
  d = mjw.make_data(mjm, nworld=1)
  mjw.forward(m, d)
  q = d.qacc.numpy()[0]
  ok = bool(np.isfinite(q).all() and np.allclose(q.reshape(4, 6)[:, 2], -9.81, atol=1e-4) and np.allclose(np.delete(q.reshape(4, 6), 2, axis=1), 0.0, atol=1e-4))
  if not ok:
    bad.append((rep, np.round(q[:6], 4).tolist()))
if bad:
  print(f"forward() on a fresh Data gave a wrong qacc in {len(bad)} of 8 trials (free fall expected: [0,0,-9.81,0,0,0] per body); first: trial {bad[0][0]} -> {bad[0][1]}")
  sys.exit(1)
print("ok: 8 trials, qacc is free fall every time")
