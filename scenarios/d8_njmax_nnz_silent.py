import mujoco, warp as wp, mujoco_warp as mjw, numpy as np
wp.config.quiet=True
print(mjw.__file__)
xml="""<mujoco><option jacobian="sparse"/><worldbody><geom type="plane" size="5 5 .1"/>
<body pos="0 0 .09"><freejoint/><geom size=".1"/></body>
<body pos=".5 0 .09"><freejoint/><geom size=".1"/></body>
<body pos="1 0 .09"><freejoint/><geom size=".1"/></body>
</worldbody></mujoco>"""
mjm=mujoco.MjModel.from_xml_string(xml)
mjd=mujoco.MjData(mjm); mujoco.mj_forward(mjm,mjd)
NNZ=int(mjw.OverflowType.NJMAX_NNZ) if hasattr(mjw,"OverflowType") else 2
def run(nnz):
    m=mjw.put_model(mjm); d=mjw.make_data(mjm,nconmax=16,njmax=64,njmax_nnz=nnz)
    for _ in range(3): mjw.step(m,d)
    return d.qvel.numpy()[0].copy(), int(d.overflow.numpy()[0])
ref,ov=run(4000); print("ample overflow",ov)
ok = ov==0
for nnz in (1,10,30,60,71):
    q,ov=run(nnz); same=np.allclose(q,ref,atol=1e-5)
    print("njmax_nnz",nnz,"overflow",ov,"same as ample",same)
    if not same and not (ov & 2): ok=False
print("PASS" if ok else "FAIL"); raise SystemExit(0 if ok else 1)
