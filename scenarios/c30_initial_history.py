"""bounded native check used by props/C30.py: make_data's history buffer is MuJoCo's initial buffer, and stays equal over a few steps"""
import sys

import mujoco
import numpy as np

import mujoco_warp as mjw

xml = """<mujoco><worldbody><body><joint name="j" type="hinge"/><geom size=".1"/></body></worldbody>
<actuator><motor joint="j" delay="0.03" nsample="4"/></actuator><sensor><jointpos joint="j" delay="0.02" nsample="3"/></sensor></mujoco>"""
mjm = mujoco.MjModel.from_xml_string(xml)
mjd = mujoco.MjData(mjm)
d = mjw.make_data(mjm, nworld=2)
h = d.history.numpy()
if not (np.allclose(h[0], mjd.history) and np.allclose(h[1], mjd.history)):
  print("make_data history differs from MuJoCo's initial buffer:", h[0], mjd.history)
  sys.exit(1)
m = mjw.put_model(mjm)
for i in range(5):
  mjd.ctrl[0] = 0.1 * (i + 1)
  c = d.ctrl.numpy()
  c[:] = 0.1 * (i + 1)
  d.ctrl.assign(c)
  mjw.step(m, d)
  mujoco.mj_step(mjm, mjd)
err = float(np.abs(d.history.numpy()[0] - mjd.history).max())
if err > 1e-5:
  print("history diverges from MuJoCo after 5 steps:", err)
  sys.exit(1)
print("ok", err)
