"""SMT back ends: z3 python API first, then /usr/bin/z3 (4.8.12), z3-new, cvc5 on `unknown`.

One query per obligation. Verdicts: 'unsat' (discharged), 'sat' (counter-model),
'unknown' (undecided; never mapped to a violation).
"""

from __future__ import annotations

import os
import subprocess
import tempfile
import time

import z3


def _model_to_dict(m, limit=400):
  out = {}
  for d in m.decls():
    if len(out) >= limit:
      break
    try:
      if d.arity() == 0:
        out[d.name()] = str(m[d])
      else:
        out[d.name()] = str(m[d])[:400]
    except Exception:
      pass
  return out


def check(assumptions, goal, timeout_ms=10000, seed=0, want_model=True, backends=("z3api", "z3old", "cvc5")):
  """returns dict(status, backend, time_s, model?)"""
  t0 = time.time()
  s = z3.Solver()
  s.set("timeout", int(timeout_ms))
  s.set("random_seed", int(seed) % (2**31))
  for a in assumptions:
    s.add(a)
  s.add(z3.Not(goal))
  r = s.check()
  dt = time.time() - t0
  if r == z3.unsat:
    return {"status": "unsat", "backend": "z3-5.1(api)", "time_s": dt}
  if r == z3.sat:
    res = {"status": "sat", "backend": "z3-5.1(api)", "time_s": dt}
    if want_model:
      res["model"] = _model_to_dict(s.model())
      res["_model_obj"] = s.model()
    return res
  # unknown: try the other back ends on the SMT-LIB text
  smt2 = s.to_smt2()
  reason = s.reason_unknown()
  for be in backends:
    if be == "z3api":
      continue
    rr = run_external(be, smt2, timeout_ms)
    if rr["status"] in ("unsat", "sat"):
      rr["time_s"] = time.time() - t0
      rr["first_unknown"] = reason
      return rr
  return {"status": "unknown", "backend": "all", "time_s": time.time() - t0, "reason": reason}


def run_external(be, smt2, timeout_ms):
  with tempfile.NamedTemporaryFile("w", suffix=".smt2", delete=False, dir=os.environ.get("WPV_SCRATCH", None)) as f:
    f.write(smt2)
    path = f.name
  try:
    t = max(1, int(timeout_ms / 1000))
    if be == "z3old":
      cmd = ["/usr/bin/z3", f"-T:{t}", path]
    elif be == "z3new":
      cmd = ["z3-new", f"-T:{t}", path]
    elif be == "cvc5":
      cmd = ["/usr/bin/cvc5", f"--tlimit={t * 1000}", "--nl-ext-tplanes", path]
    else:
      return {"status": "unknown"}
    try:
      p = subprocess.run(cmd, capture_output=True, text=True, timeout=t + 5)
    except subprocess.TimeoutExpired:
      return {"status": "unknown", "backend": be}
    out = p.stdout.strip().splitlines()
    first = out[0].strip() if out else ""
    if first in ("unsat", "sat"):
      return {"status": first, "backend": be}
    return {"status": "unknown", "backend": be}
  finally:
    try:
      os.unlink(path)
    except OSError:
      pass
