"""SMT back ends: z3 python API first, then /usr/bin/z3 (4.8.12), z3-new, cvc5 on `unknown`.

One query per obligation. Verdicts: 'unsat' (discharged), 'sat' (counter-model),
'unknown' (undecided; never mapped to a violation).
"""

from __future__ import annotations

import os
import subprocess
import tempfile
import time

import z3


def _model_to_dict(m, limit=400):
  out = {}
  for d in m.decls():
    if len(out) >= limit:
      break
    try:
      if d.arity() == 0:
        out[d.name()] = str(m[d])
      else:
        out[d.name()] = str(m[d])[:400]
    except Exception:
      pass
  return out


def _symbols(t, cache):
  """names of uninterpreted constants and functions occurring in t"""
  k = t.get_id()
  if k in cache:
    return cache[k]
  out = set()
  stack = [t]
  seen = set()
  while stack:
    x = stack.pop()
    i = x.get_id()
    if i in seen:
      continue
    seen.add(i)
    if z3.is_app(x):
      if x.decl().kind() == z3.Z3_OP_UNINTERPRETED:
        out.add(x.decl().name())
      stack.extend(x.children())
    elif z3.is_quantifier(x):
      stack.append(x.body())
  cache[k] = out
  return out


def _flatten(a):
  if z3.is_and(a):
    out = []
    for c in a.children():
      out.extend(_flatten(c))
    return out
  if z3.is_implies(a) and z3.is_true(a.arg(0)):
    return _flatten(a.arg(1))
  if z3.is_not(a) and z3.is_or(a.arg(0)):
    out = []
    for c in a.arg(0).children():
      out.extend(_flatten(z3.Not(c)))
    return out
  if z3.is_not(a) and z3.is_not(a.arg(0)):
    return _flatten(a.arg(0).arg(0))
  return [a]


def _mentions_real(t, cache):
  k = t.get_id()
  if k in cache:
    return cache[k]
  r = False
  stack = [t]
  seen = set()
  while stack:
    x = stack.pop()
    i = x.get_id()
    if i in seen:
      continue
    seen.add(i)
    if z3.is_real(x):
      r = True
      break
    if z3.is_app(x):
      stack.extend(x.children())
    elif z3.is_quantifier(x):
      stack.append(x.body())
  cache[k] = r
  return r


_NLMUL = z3.Function("nl_mul", z3.IntSort(), z3.IntSort(), z3.IntSort())


def abstract_nonlinear(terms):
  """replace every product of two non-constant integer terms by an uninterpreted function.
  Weakens the theory (any model of * is a model of nl_mul), hence sound for validity."""
  cache = {}

  def rec(t):
    k = t.get_id()
    if k in cache:
      return cache[k]
    if z3.is_quantifier(t) or not z3.is_app(t):
      cache[k] = t
      return t
    ch = [rec(c) for c in t.children()]
    r = t
    if z3.is_mul(t) and t.sort() == z3.IntSort():
      sym = [c for c in ch if not z3.is_int_value(c)]
      if len(sym) >= 2:
        const = [c for c in ch if z3.is_int_value(c)]
        acc = sym[0]
        for c in sym[1:]:
          acc = _NLMUL(acc, c) if acc.get_id() <= c.get_id() else _NLMUL(c, acc)
        r = acc
        for c in const:
          r = c * r
        cache[k] = r
        return r
    if ch and any(a.get_id() != b.get_id() for a, b in zip(ch, t.children())):
      try:
        r = t.decl()(*ch)
      except Exception:
        r = t
    cache[k] = r
    return r

  return [rec(t) for t in terms]


def _skolemize_goal(goal, ctr):
  """push the negation inward conceptually: universally quantified variables of the GOAL
  become fresh constants (to refute `not goal` one instance suffices)"""
  if z3.is_quantifier(goal) and goal.is_forall():
    n = goal.num_vars()
    consts = [z3.Const(f"sk!{ctr[0] + i}!{goal.var_name(i)}", goal.var_sort(i)) for i in range(n)]
    ctr[0] += n
    body = z3.substitute_vars(goal.body(), *reversed(consts))
    return _skolemize_goal(body, ctr)
  if z3.is_and(goal):
    return z3.And(*[_skolemize_goal(c, ctr) for c in goal.children()])
  if z3.is_implies(goal):
    a, b = goal.children()
    return z3.Implies(a, _skolemize_goal(b, ctr))
  if z3.is_or(goal):
    # Or(not A, forall..) pattern produced by simplification
    ch = goal.children()
    if sum(1 for c in ch if z3.is_quantifier(c)) <= 1:
      return z3.Or(*[_skolemize_goal(c, ctr) if (z3.is_quantifier(c) and c.is_forall()) else c for c in ch])
  return goal


def _fresh_consts(q, ctr):
  n = q.num_vars()
  consts = [z3.Const(f"sk!{ctr[0] + i}!{q.var_name(i)}", q.var_sort(i)) for i in range(n)]
  ctr[0] += n
  return consts


def _index_terms(t, out, seen, depth_limit=4):
  """ground Int-sorted arguments of uninterpreted functions (candidate instantiation terms)"""
  stack = [(t, 0)]
  while stack:
    x, bound = stack.pop()
    k = (x.get_id(), bound)
    if k in seen:
      continue
    seen.add(k)
    if z3.is_quantifier(x):
      stack.append((x.body(), bound + x.num_vars()))
      continue
    if not z3.is_app(x):
      continue
    if x.decl().kind() == z3.Z3_OP_UNINTERPRETED and x.num_args() > 0:
      for a in x.children():
        if a.sort() == z3.IntSort() and _is_ground(a):
          out[a.get_id()] = a
          # an index that is a conditional: both alternatives are index terms too
          alts = [a]
          while alts:
            y = alts.pop()
            if z3.is_app(y) and y.decl().kind() == z3.Z3_OP_ITE:
              for b in y.children()[1:]:
                out[b.get_id()] = b
                alts.append(b)
    for c in x.children():
      stack.append((c, bound))


def _is_ground(t):
  stack = [t]
  seen = set()
  while stack:
    x = stack.pop()
    if x.get_id() in seen:
      continue
    seen.add(x.get_id())
    if z3.is_var(x) or z3.is_quantifier(x):
      return False
    if z3.is_app(x):
      stack.extend(x.children())
  return True


def instantiate_and_check(assumptions, goal, timeout_ms=10000, rounds=2, max_inst=4000, seed=0, small_first=False):
  """Refute (assumptions and not goal) with the universally quantified hypotheses replaced by
  their instances at the ground index terms of the problem (goal-directed instantiation).
  Instances are consequences of the hypotheses, so `unsat` here is a proof; anything else
  decides nothing."""
  ctr = [0]
  # goal of the form (H -> G) with a quantified antecedent (an invariant that is itself an
  # implication from a universally quantified premise): prove G from assumptions + H -- the same sequent
  assumptions = list(assumptions)
  while True:
    if z3.is_quantifier(goal) and goal.is_forall():
      goal = _skolemize_goal(goal, ctr) if not z3.is_implies(goal.body()) else z3.substitute_vars(goal.body(), *reversed(_fresh_consts(goal, ctr)))
      continue
    if z3.is_implies(goal) and _has_quantifier(goal.children()[0]):
      assumptions.append(goal.children()[0])
      goal = goal.children()[1]
      continue
    break
  g = _skolemize_goal(goal, ctr)
  ground, quants = [], []
  for a in assumptions:
    for c in _flatten(a):
      if z3.is_quantifier(c) and c.is_forall():
        quants.append(c)
      elif z3.is_implies(c) and z3.is_quantifier(c.children()[1]) and c.children()[1].is_forall():
        quants.append(c)  # guard -> forall
      elif z3.is_implies(c) and z3.is_quantifier(c.children()[0]) and c.children()[0].is_forall() and not _has_quantifier(c.children()[1]):
        # (forall s. B(s)) -> C  is  exists s. (B(s) -> C): the witness becomes a fresh constant
        q0 = c.children()[0]
        ground.append(z3.Implies(z3.substitute_vars(q0.body(), *reversed(_fresh_consts(q0, ctr))), c.children()[1]))
      else:
        ground.append(c)
  if small_first:
    # one-variable hypotheses first, so that the instance budget is not used up by the pairs of a
    # two-variable hypothesis before the others are instantiated at all
    quants.sort(key=lambda q: (q.children()[1] if z3.is_implies(q) else q).num_vars())
  insts = []
  cands = {}
  seen = set()
  for t in ground + [g]:
    _index_terms(t, cands, seen)
  done = set()
  for _ in range(rounds):
    terms = list(cands.values())
    new = []
    for q in quants:
      guard = None
      qq = q
      if z3.is_implies(q):
        guard, qq = q.children()
      n = qq.num_vars()
      if n > 2:
        continue
      import itertools

      for tup in itertools.product(terms, repeat=n):
        key = (q.get_id(),) + tuple(t.get_id() for t in tup)
        if key in done:
          continue
        done.add(key)
        inst = z3.substitute_vars(qq.body(), *reversed(tup))
        if guard is not None:
          inst = z3.Implies(guard, inst)
        new.append(inst)
        if len(insts) + len(new) > max_inst:
          break
      if len(insts) + len(new) > max_inst:
        break
    insts.extend(new)
    for t in new:
      _index_terms(t, cands, seen)
  s = z3.Solver()
  s.set("timeout", int(timeout_ms))
  s.set("random_seed", int(seed) % (2**31))
  for a in ground + insts:
    if not _has_quantifier(a):
      s.add(a)
  if _has_quantifier(g):
    return {"status": "unknown", "reason": "goal keeps quantifiers after skolemisation"}
  s.add(z3.Not(g))
  t0 = time.time()
  r = s.check()
  return {"status": "unsat" if r == z3.unsat else "unknown", "backend": f"z3-5.1(api) ({len(insts)} goal-directed instances of quantified hypotheses)", "time_s": time.time() - t0}


def _has_quantifier(t):
  stack = [t]
  seen = set()
  while stack:
    x = stack.pop()
    if x.get_id() in seen:
      continue
    seen.add(x.get_id())
    if z3.is_quantifier(x):
      return True
    if z3.is_app(x):
      stack.extend(x.children())
  return False


_SIMP_CACHE = {}


def abstract_except(terms, keep_names, min_size=24):
  """Replace every maximal subterm that mentions none of the symbols in keep_names (and is
  not a plain constant/numeral) by a fresh constant of the same sort, consistently across all
  `terms`. This generalises the formulas (the subterm becomes an arbitrary value), so a proof
  of the abstracted goal is a proof of the original. Used for relational obligations in
  which only a few symbols (capacities, allocated slots) differ between the two copies."""
  # bring all formulas to z3's normal form first: path conditions were simplified when they were
  # built, allocation sizes were not, and the abstraction below matches subterms structurally
  def simp(t):
    k = t.get_id()
    if k not in _SIMP_CACHE:
      _SIMP_CACHE[k] = (t, z3.simplify(t, som=False, flat=True, arith_lhs=False))  # keep t alive: ids are reused otherwise
    return _SIMP_CACHE[k][1]

  terms = [simp(t) if isinstance(t, z3.ExprRef) else t for t in terms]
  cache_sym = {}
  fresh = {}
  sizes = {}

  def size(t):
    k = t.get_id()
    if k not in sizes:
      n = 1
      if z3.is_app(t):
        for c in t.children():
          n += size(c)
          if n > 10 * min_size:
            break
      sizes[k] = n
    return sizes[k]

  def mentions(t):
    return bool(_symbols(t, cache_sym) & keep_names)

  cache = {}

  def rec(t):
    k = t.get_id()
    if k in cache:
      return cache[k]
    if z3.is_quantifier(t) or not z3.is_app(t):
      cache[k] = t
      return t
    if not mentions(t) and size(t) < min_size:
      cache[k] = t  # small independent subterm: keep it (arithmetic facts such as k < n stay usable)
      return t
    if not mentions(t):
      if t.num_args() == 0:
        r = t  # constant or numeral
      else:
        if k not in fresh:
          fresh[k] = z3.Const(f"opaque!{len(fresh)}", t.sort())
        r = fresh[k]
      cache[k] = r
      return r
    ch = [rec(c) for c in t.children()]
    r = t
    if any(a.get_id() != b.get_id() for a, b in zip(ch, t.children())):
      try:
        r = t.decl()(*ch)
      except Exception:
        r = t
    cache[k] = r
    return r

  return [rec(t) for t in terms]


def integer_projection(assumptions, state=None):
  """Weaken the hypotheses to their integer / boolean structure: every atom (comparison, equality, boolean
  application) that mentions a Real-sorted term becomes a fresh unconstrained boolean (the same atom always the same
  boolean), and every Int-sorted term computed from reals (int(x)) a fresh integer. Floating-point path conditions
  thus stay in place as opaque switches, so the integer guards combined with them (`if f <= 0.0: return` followed by
  `if efcid >= njmax: return`) keep their meaning. A generalisation of the hypotheses: sound for validity; used for
  index obligations, whose index terms are integers."""
  if state is None:
    state = {}
  rc = state.setdefault("rc", {})
  memo = state.setdefault("memo", {})
  # (terms whose ids are memoised are kept alive by the caller's assumption lists for the lifetime of `state`)

  def ab(t):
    k = t.get_id()
    if k in memo:
      return memo[k]
    if not _mentions_real(t, rc):
      memo[k] = t
      return t
    r = None
    if z3.is_quantifier(t):
      r = z3.Bool(f"ratom!q{k}")
    elif z3.is_bool(t):
      if z3.is_and(t) or z3.is_or(t) or z3.is_not(t) or z3.is_implies(t) or (z3.is_app(t) and t.decl().kind() in (z3.Z3_OP_ITE, z3.Z3_OP_XOR, z3.Z3_OP_IFF)) or (z3.is_eq(t) and z3.is_bool(t.arg(0))):
        ch = [ab(c) for c in t.children()]
        r = t.decl()(*ch)
      else:
        r = z3.Bool(f"ratom!{k}")
    elif z3.is_int(t):
      if z3.is_app(t) and t.decl().kind() == z3.Z3_OP_ITE:
        r = z3.If(ab(t.arg(0)), ab(t.arg(1)), ab(t.arg(2)))
      elif z3.is_app(t) and t.decl().kind() in (z3.Z3_OP_ADD, z3.Z3_OP_SUB, z3.Z3_OP_MUL, z3.Z3_OP_UMINUS, z3.Z3_OP_IDIV, z3.Z3_OP_MOD):
        r = t.decl()(*[ab(c) for c in t.children()])
      else:
        r = z3.Int(f"rint!{k}")
    else:
      r = t  # a Real term outside any atom cannot occur at hypothesis level
    memo[k] = r
    return r

  out = []
  for a in assumptions:
    for c in _flatten(a):
      try:
        c2 = ab(c)
      except z3.Z3Exception:
        continue
      if z3.is_bool(c2) and not (z3.is_const(c2) and c2.decl().name().startswith("ratom!")):
        out.append(c2)
  return out


def cone_of_influence(assumptions, goal):
  """keep only the assumption conjuncts that (transitively) share a symbol with the goal.
  Sound for validity (fewer hypotheses). A counter-model of the reduced query extends to the
  full one because the dropped conjuncts share no symbol with it (their joint
  satisfiability is what the per-contract vacuity canary checks)."""
  cache = {}
  conj = []
  for a in assumptions:
    conj.extend(_flatten(a))
  syms = [(_symbols(c, cache), c) for c in conj]
  live = set(_symbols(goal, cache))
  keep = [False] * len(syms)
  changed = True
  while changed:
    changed = False
    for i, (ss, c) in enumerate(syms):
      if not keep[i] and (ss & live or not ss):
        keep[i] = True
        if not ss <= live:
          live |= ss
          changed = True
  return [c for (ss, c), k in zip(syms, keep) if k]


def local_cone(assumptions, goal):
  """A finer relevance filter than cone_of_influence: connectivity is followed only through GENERATED symbols
  (fresh results of calls / normalisations / loop havoc -- names with '!' or '@' -- and applied functions such as
  sqrt or arrays), not through the function's plain parameters, which nearly every fact mentions. Kept: facts
  about parameters only, and facts whose generated symbols are all connected to the goal. A proof from this
  subset of the hypotheses is a proof; a counter-model of it decides nothing (the caller then uses the full cone)."""
  cache = {}
  conj = []
  for a in assumptions:
    conj.extend(_flatten(a))

  def gen(t):
    out = set()
    stack = [t]
    seen = set()
    while stack:
      x = stack.pop()
      if x.get_id() in seen:
        continue
      seen.add(x.get_id())
      if z3.is_app(x):
        d = x.decl()
        if d.kind() == z3.Z3_OP_UNINTERPRETED:
          n = d.name()
          if x.num_args() > 0:
            out.add(f"{n}#{x.get_id()}")  # one particular application (sqrt of this term, this array cell)
          elif "!" in n or "@" in n:
            out.add(n)
        stack.extend(x.children())
      elif z3.is_quantifier(x):
        stack.append(x.body())
    return out

  gs = [(gen(c), c) for c in conj]
  live = set(gen(goal))
  keep = [not g for g, _ in gs]
  changed = True
  while changed:
    changed = False
    for i, (g, c) in enumerate(gs):
      if not keep[i] and g & live:
        keep[i] = True
        if not g <= live:
          live |= g
        changed = True
  return [c for (g, c), k in zip(gs, keep) if k]


def eliminate_defined(assumptions, goal, rounds=6):
  """Hypotheses `c == t` (or `t == c`) where c is a GENERATED constant (a fresh call result / normalisation
  component, name with '!') that does not occur in t are used as definitions: c is replaced by t everywhere and the
  equation dropped (z3's solve-eqs, done here so that it also happens in front of the nonlinear core).
  Equivalence-preserving for validity; parameters are never eliminated, so counter-models keep their inputs."""
  A = list(assumptions)
  cache = {}
  for _ in range(rounds):
    sub = None
    for i, a in enumerate(A):
      if z3.is_eq(a) and a.num_args() == 2:
        for c, t in ((a.arg(0), a.arg(1)), (a.arg(1), a.arg(0))):
          if z3.is_const(c) and c.decl().kind() == z3.Z3_OP_UNINTERPRETED and "!" in c.decl().name() and c.decl().name() not in _symbols(t, cache):
            sub = (i, c, t)
            break
      if sub:
        break
    if not sub:
      break
    i, c, t = sub
    A = [z3.substitute(x, (c, t)) for j, x in enumerate(A) if j != i]
    goal = z3.substitute(goal, (c, t))
  return A, goal


PORTFOLIO = [(0, {}), (1, {"arith.solver": 2}), (7, {}), (3, {"arith.solver": 2})]


def _solve_once(hyps, goal, timeout_ms, seed=0, cfg=None, want_model=True, fresh=True):
  """one solver run in a FRESH z3 context (translated copy): term numbering, and with it the nonlinear solver's
  variable order and run time, depend on the query alone and not on what this process built before (measured: the
  same obligation took 0.8 s in a fresh process and timed out twice at 30 s after a long model search had run in
  the same context)"""
  s = z3.Solver()
  for a in hyps:
    s.add(a)
  s.add(z3.Not(goal))
  sc = s.translate(z3.Context()) if fresh else s  # integer index/guard queries are not history-sensitive: no copy
  sc.set("timeout", int(timeout_ms))
  sc.set("random_seed", int(seed) % (2**31))
  for k, v in (cfg or {}).items():
    sc.set(k, v)
  r = sc.check()
  if r == z3.unsat:
    return {"status": "unsat"}
  if r == z3.sat:
    res = {"status": "sat"}
    if want_model:
      m = sc.model()
      res["model"] = _model_to_dict(m)
      try:
        res["_model_obj"] = m.translate(z3.main_ctx()) if fresh else m
      except Exception:
        res["_model_obj"] = None
    return res
  return {"status": "unknown", "reason": sc.reason_unknown()}


def portfolio_check(queries, timeout_ms, seed=0, want_model=True):
  """queries: list of (hyps, goal, tag, sat_counts). Every query is an equivalent or WEAKER-hypotheses form of the same
  obligation (so `unsat` from any of them is a proof; `sat` is only accepted from those marked sat_counts, which are
  equivalent to the full obligation). Each (query, config) pair runs in its own fresh z3 context and thread; the first
  decisive answer wins and the others are interrupted. Nonlinear real queries have heavy-tailed run times (the same
  obligation: 0.1 s or > 60 s depending on seed, arithmetic core, term numbering and on whether definitions were
  eliminated); restarts over such variations are the standard remedy."""
  import queue
  import threading

  members = []
  for hyps, goal, tag, sat_ok in queries:
    base = z3.Solver()
    for a in hyps:
      base.add(a)
    base.add(z3.Not(goal))
    for sd, cfg in PORTFOLIO:
      ctx = z3.Context()
      sc = base.translate(ctx)  # sequentially, in this thread: translation reads the caller's context
      sc.set("timeout", int(timeout_ms))
      sc.set("random_seed", (int(seed) + sd) % (2**31))
      for k, v in cfg.items():
        sc.set(k, v)
      members.append((ctx, sc, f"{tag} seed+{sd}" + ("" if not cfg else "," + ",".join(f"{k}={v}" for k, v in cfg.items())), sat_ok))
  q = queue.Queue()

  def work(i):
    ctx, sc, _, sat_ok = members[i]
    try:
      r = sc.check()
      res = {"status": "unsat" if r == z3.unsat else ("sat" if r == z3.sat else "unknown")}
      if r == z3.sat and not sat_ok:
        res = {"status": "unknown", "reason": "counter-model of a weaker-hypotheses variant (inconclusive)"}
      elif r == z3.sat and want_model:
        try:
          res["_m"] = sc.model()
          res["model"] = _model_to_dict(res["_m"])
        except Exception:
          res["model"] = {}
      if r == z3.unknown:
        res["reason"] = sc.reason_unknown()
    except Exception as e:  # interrupted
      res = {"status": "unknown", "reason": str(e)[:100]}
    q.put((i, res))

  t0 = time.time()
  ths = [threading.Thread(target=work, args=(i,), daemon=True) for i in range(len(members))]
  for t in ths:
    t.start()
  winner = None
  reason = None
  for _ in range(len(members)):
    try:
      i, res = q.get(timeout=timeout_ms / 1000.0 + 10)
    except queue.Empty:
      break
    if res["status"] in ("sat", "unsat"):
      winner = (i, res)
      break
    reason = reason or res.get("reason")
  for ctx, sc, _, _ in members:
    try:
      ctx.interrupt()
    except Exception:
      pass
  for t in ths:
    t.join(timeout=5)
  if winner is None:
    return {"status": "unknown", "backend": "z3-5.1(api) portfolio", "time_s": time.time() - t0, "reason": reason}
  i, res = winner
  if res.get("_m") is not None:
    # the model object, for native replay (translated here, in the caller's thread, after the workers have stopped)
    try:
      res["_model_obj"] = res.pop("_m").translate(z3.main_ctx())
    except Exception:
      res.pop("_m", None)
  res["backend"] = f"z3-5.1(api) portfolio [{members[i][2]}]"
  res["time_s"] = time.time() - t0
  return res


def propagate_literals(assumptions, goal, rounds=3):
  """Hypotheses that are literals (an atom p, or Not(p)) are substituted as true / false into the other
  hypotheses and the goal, which are then simplified (if-then-else terms on a decided condition collapse to one
  arm). Under the hypothesis p this is an equivalence, so verdicts are unchanged; it only spares the solver
  the case split. The literals themselves are kept."""
  A = [a for a in assumptions]
  for _ in range(rounds):
    pairs = []
    lits = set()
    for a in A:
      if not z3.is_bool(a) or z3.is_quantifier(a):
        continue
      if z3.is_not(a):
        p, v = a.arg(0), z3.BoolVal(False)
      else:
        p, v = a, z3.BoolVal(True)
      if z3.is_true(p) or z3.is_false(p) or z3.is_and(p) or z3.is_or(p) or z3.is_implies(p) or z3.is_quantifier(p):
        continue
      if z3.is_app(p) and p.decl().kind() in (z3.Z3_OP_LE, z3.Z3_OP_LT, z3.Z3_OP_GE, z3.Z3_OP_GT, z3.Z3_OP_UNINTERPRETED):
        pairs.append((p, v))
        lits.add(a.get_id())
        k = p.decl().kind()
        if k in (z3.Z3_OP_LE, z3.Z3_OP_LT, z3.Z3_OP_GE, z3.Z3_OP_GT) and p.num_args() == 2:
          # the same comparison written the other way round, and its complement
          x, y = p.arg(0), p.arg(1)
          nv = z3.BoolVal(not z3.is_true(v))
          same, comp = {
            z3.Z3_OP_LE: ([y >= x], [x > y, y < x]),
            z3.Z3_OP_GE: ([y <= x], [x < y, y > x]),
            z3.Z3_OP_LT: ([y > x], [x >= y, y <= x]),
            z3.Z3_OP_GT: ([y < x], [x <= y, y >= x]),
          }[k]
          pairs.extend((q, v) for q in same)
          pairs.extend((q, nv) for q in comp)
    if not pairs:
      break
    changed = False
    out = []
    for a in A:
      if a.get_id() in lits:
        out.append(a)
        continue
      b = z3.substitute(a, *pairs)
      if not b.eq(a):
        b = z3.simplify(b)
        changed = True
      out.append(b)
    g2 = z3.substitute(goal, *pairs)
    if not g2.eq(goal):
      goal = z3.simplify(g2)
      changed = True
    A = out
    if not changed:
      break
  return A, goal


def check(assumptions, goal, timeout_ms=10000, seed=0, want_model=True, backends=("z3api", "z3old", "cvc5"), cone=True, sat_first=False):
  """returns dict(status, backend, time_s, model?). Every `sat` / `unsat` answer is final.

  Preprocessing (validity-preserving): literal hypotheses are propagated into if-then-else conditions; two VARIANTS of
  the query are kept, with and without elimination of generated constants defined by an equation (each helps on some
  nonlinear queries and hurts on others); for each variant the cone of influence, and the *local cone* (connectivity
  through generated symbols only: a proof from fewer hypotheses is a proof, a counter-model there is ignored).
  Phase 1: one short run (fresh context) per variant and cone. Phase 2: all of them concurrently, several seeds /
  arithmetic cores each (portfolio_check). Phase 3: /usr/bin/z3 4.8.12 and cvc5 on the SMT-LIB text with three times
  the budget. sat_first (vacuity canaries: a model is expected) starts with a short API attempt and z3 4.8."""
  t0 = time.time()
  queries = []  # (hyps, goal, tag, sat_counts)
  if cone:
    A, g = list(assumptions), goal
    try:
      flat = []
      for a in A:
        flat.extend(_flatten(a))
      A, g = propagate_literals(flat, g)
      flat = []
      for a in A:
        flat.extend(_flatten(a))
      A = flat
    except z3.Z3Exception:
      A, g = list(assumptions), goal
    variants = [(A, g, "")]
    # the variants below only pay off on real (nonlinear) arithmetic; index / guard obligations over the integers are
    # decided by the plain cone of influence in milliseconds
    rc = {}
    real = _mentions_real(g, rc) or any(_mentions_real(a, rc) for a in A)
    if not sat_first and real:
      try:
        A2, g2 = eliminate_defined(A, g, rounds=40)
        if len(A2) != len(A):
          variants.append((A2, g2, "definitions eliminated, "))
      except z3.Z3Exception:
        pass
    for Av, gv, vt in variants:
      full = cone_of_influence(Av, gv)
      if not sat_first and real:
        loc = local_cone(full, gv)
        if len(loc) < len(full):
          queries.append((loc, gv, f"{vt}{len(loc)} of {len(full)} hypotheses: those connected to the goal through generated symbols", False))
      queries.append((full, gv, f"{vt}cone of influence", True))
    assumptions, goal = [q for q in queries if q[3]][0][:2]
  else:
    queries.append((list(assumptions), goal, "all hypotheses", True))
  reason = None
  api = "z3api" in backends
  rc = {}
  real = _mentions_real(goal, rc) or any(_mentions_real(a, rc) for a in assumptions)
  if api and sat_first:
    r = _solve_once(assumptions, goal, min(timeout_ms, 2000), seed, None, want_model, fresh=real)
    if r["status"] in ("sat", "unsat"):
      r.update(backend="z3-5.1(api)", time_s=time.time() - t0)
      return r
    s = z3.Solver()
    for a in assumptions:
      s.add(a)
    s.add(z3.Not(goal))
    rr = run_external("z3old", s.to_smt2(), max(3 * timeout_ms, 30000))
    if rr["status"] in ("unsat", "sat"):
      rr["time_s"] = time.time() - t0
      return rr
  if api:
    # phase 1: short single runs
    for hyps, gq, tag, sat_ok in queries:
      r = _solve_once(hyps, gq, min(timeout_ms, 3000), seed, None, want_model and sat_ok, fresh=real)
      if r["status"] == "unsat" or (r["status"] == "sat" and sat_ok):
        r.update(backend=f"z3-5.1(api) [{tag}]", time_s=time.time() - t0)
        return r
      if r["status"] == "unknown":
        reason = reason or r.get("reason")
    if tuple(backends) == ("z3api",):
      return {"status": "unknown", "backend": "z3-5.1(api)", "time_s": time.time() - t0, "reason": reason}
    # phase 2: everything concurrently
    rr = portfolio_check(queries, timeout_ms, seed=seed, want_model=want_model)
    if rr["status"] in ("unsat", "sat"):
      rr["time_s"] = time.time() - t0
      return rr
    reason = reason or rr.get("reason")
  # phase 3: the other back ends on the SMT-LIB text of the full query
  s = z3.Solver()
  for a in assumptions:
    s.add(a)
  s.add(z3.Not(goal))
  smt2 = s.to_smt2()
  for be in backends:
    if be == "z3api":
      continue
    rr = run_external(be, smt2, max(3 * timeout_ms, 30000))
    if rr["status"] in ("unsat", "sat"):
      rr["time_s"] = time.time() - t0
      rr["first_unknown"] = reason
      return rr
  return {"status": "unknown", "backend": "all", "time_s": time.time() - t0, "reason": reason}


SMALL_TACTICS = (("simplify", "solve-eqs", "smt"), ("simplify", "solve-eqs", "qfnra-nlsat"), None)


def check_small(assumptions, goal, timeout_ms=5000):
  """small hand-structured queries (a few hypotheses that are statements of earlier obligations): the untouched query
  under a few tactic pipelines, each in a fresh context. Equation solving first matters: `x == t and not phi(x)` is
  refuted by substitution, which the nonlinear core alone may not find. Only `unsat` (a proof) is reported."""
  t0 = time.time()
  for names in SMALL_TACTICS:
    ctx = z3.Context()
    if names is None:
      sol = z3.Solver(ctx=ctx)
    else:
      sol = z3.Then(*[z3.Tactic(n, ctx) for n in names], ctx=ctx).solver()
    sol.set("timeout", int(timeout_ms))
    for a in assumptions:
      sol.add(a.translate(ctx))
    sol.add(z3.Not(goal).translate(ctx))
    try:
      r = sol.check()
    except z3.Z3Exception:
      continue
    if r == z3.unsat:
      return {"status": "unsat", "backend": "z3-5.1(api) [raw query, " + ("default" if names is None else "+".join(names)) + "]", "time_s": time.time() - t0}
  return {"status": "unknown", "time_s": time.time() - t0}


def check_quantified(assumptions, goal, timeout_ms=20000, seed=0, want_model=True):
  """obligations of wpv/hoare.py: quantified invariants over z3 arrays. z3 (E-matching + MBQI) first, then the two
  external solvers on the SMT-LIB text. `unsat` is a proof; `sat` is a model of the hypotheses and the negated goal."""
  t0 = time.time()
  r = _solve_once(list(assumptions), goal, timeout_ms, seed, None, want_model, fresh=True)
  if r["status"] in ("sat", "unsat"):
    r.update(backend="z3-5.1(api) [quantified]", time_s=time.time() - t0)
    return r
  reason = r.get("reason")
  s = z3.Solver()
  for a in assumptions:
    s.add(a)
  s.add(z3.Not(goal))
  smt2 = s.to_smt2()
  for be in ("z3old", "cvc5"):
    rr = run_external(be, smt2, timeout_ms)
    if rr["status"] == "unsat":
      rr["time_s"] = time.time() - t0
      return rr
  return {"status": "unknown", "backend": "z3-5.1(api), z3-4.8.12, cvc5", "time_s": time.time() - t0, "reason": reason}


def run_external(be, smt2, timeout_ms):
  with tempfile.NamedTemporaryFile("w", suffix=".smt2", delete=False, dir=os.environ.get("WPV_SCRATCH", None)) as f:
    f.write(smt2)
    path = f.name
  try:
    t = max(1, int(timeout_ms / 1000))
    if be == "z3old":
      cmd = ["/usr/bin/z3", f"-T:{t}", path]
    elif be == "z3new":
      cmd = ["z3-new", f"-T:{t}", path]
    elif be == "cvc5":
      cmd = ["/usr/bin/cvc5", f"--tlimit={t * 1000}", "--nl-ext-tplanes", path]
    else:
      return {"status": "unknown"}
    try:
      p = subprocess.run(cmd, capture_output=True, text=True, timeout=t + 5)
    except subprocess.TimeoutExpired:
      return {"status": "unknown", "backend": be}
    out = p.stdout.strip().splitlines()
    first = out[0].strip() if out else ""
    if first in ("unsat", "sat"):
      return {"status": first, "backend": be}
    return {"status": "unknown", "backend": be}
  finally:
    try:
      os.unlink(path)
    except OSError:
      pass
