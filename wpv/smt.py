"""SMT back ends: z3 python API first, then /usr/bin/z3 (4.8.12), z3-new, cvc5 on `unknown`.

One query per obligation. Verdicts: 'unsat' (discharged), 'sat' (counter-model),
'unknown' (undecided; never mapped to a violation).
"""

from __future__ import annotations

import os
import subprocess
import tempfile
import time

import z3


def _model_to_dict(m, limit=400):
  out = {}
  for d in m.decls():
    if len(out) >= limit:
      break
    try:
      if d.arity() == 0:
        out[d.name()] = str(m[d])
      else:
        out[d.name()] = str(m[d])[:400]
    except Exception:
      pass
  return out


def _symbols(t, cache):
  """names of uninterpreted constants and functions occurring in t"""
  k = t.get_id()
  if k in cache:
    return cache[k]
  out = set()
  stack = [t]
  seen = set()
  while stack:
    x = stack.pop()
    i = x.get_id()
    if i in seen:
      continue
    seen.add(i)
    if z3.is_app(x):
      if x.decl().kind() == z3.Z3_OP_UNINTERPRETED:
        out.add(x.decl().name())
      stack.extend(x.children())
    elif z3.is_quantifier(x):
      stack.append(x.body())
  cache[k] = out
  return out


def _flatten(a):
  if z3.is_and(a):
    out = []
    for c in a.children():
      out.extend(_flatten(c))
    return out
  return [a]


def _mentions_real(t, cache):
  k = t.get_id()
  if k in cache:
    return cache[k]
  r = False
  stack = [t]
  seen = set()
  while stack:
    x = stack.pop()
    i = x.get_id()
    if i in seen:
      continue
    seen.add(i)
    if z3.is_real(x):
      r = True
      break
    if z3.is_app(x):
      stack.extend(x.children())
    elif z3.is_quantifier(x):
      stack.append(x.body())
  cache[k] = r
  return r


_NLMUL = z3.Function("nl_mul", z3.IntSort(), z3.IntSort(), z3.IntSort())


def abstract_nonlinear(terms):
  """replace every product of two non-constant integer terms by an uninterpreted function.
  Weakens the theory (any model of * is a model of nl_mul), hence sound for validity."""
  cache = {}

  def rec(t):
    k = t.get_id()
    if k in cache:
      return cache[k]
    if z3.is_quantifier(t) or not z3.is_app(t):
      cache[k] = t
      return t
    ch = [rec(c) for c in t.children()]
    r = t
    if z3.is_mul(t) and t.sort() == z3.IntSort():
      sym = [c for c in ch if not z3.is_int_value(c)]
      if len(sym) >= 2:
        const = [c for c in ch if z3.is_int_value(c)]
        acc = sym[0]
        for c in sym[1:]:
          acc = _NLMUL(acc, c) if acc.get_id() <= c.get_id() else _NLMUL(c, acc)
        r = acc
        for c in const:
          r = c * r
        cache[k] = r
        return r
    if ch and any(a.get_id() != b.get_id() for a, b in zip(ch, t.children())):
      try:
        r = t.decl()(*ch)
      except Exception:
        r = t
    cache[k] = r
    return r

  return [rec(t) for t in terms]


def _skolemize_goal(goal, ctr):
  """push the negation inward conceptually: universally quantified variables of the GOAL
  become fresh constants (to refute `not goal` one instance suffices)"""
  if z3.is_quantifier(goal) and goal.is_forall():
    n = goal.num_vars()
    consts = [z3.Const(f"sk!{ctr[0] + i}!{goal.var_name(i)}", goal.var_sort(i)) for i in range(n)]
    ctr[0] += n
    body = z3.substitute_vars(goal.body(), *reversed(consts))
    return _skolemize_goal(body, ctr)
  if z3.is_and(goal):
    return z3.And(*[_skolemize_goal(c, ctr) for c in goal.children()])
  if z3.is_implies(goal):
    a, b = goal.children()
    return z3.Implies(a, _skolemize_goal(b, ctr))
  if z3.is_or(goal):
    # Or(not A, forall..) pattern produced by simplification
    ch = goal.children()
    if sum(1 for c in ch if z3.is_quantifier(c)) <= 1:
      return z3.Or(*[_skolemize_goal(c, ctr) if (z3.is_quantifier(c) and c.is_forall()) else c for c in ch])
  return goal


def _fresh_consts(q, ctr):
  n = q.num_vars()
  consts = [z3.Const(f"sk!{ctr[0] + i}!{q.var_name(i)}", q.var_sort(i)) for i in range(n)]
  ctr[0] += n
  return consts


def _index_terms(t, out, seen, depth_limit=4):
  """ground Int-sorted arguments of uninterpreted functions (candidate instantiation terms)"""
  stack = [(t, 0)]
  while stack:
    x, bound = stack.pop()
    k = (x.get_id(), bound)
    if k in seen:
      continue
    seen.add(k)
    if z3.is_quantifier(x):
      stack.append((x.body(), bound + x.num_vars()))
      continue
    if not z3.is_app(x):
      continue
    if x.decl().kind() == z3.Z3_OP_UNINTERPRETED and x.num_args() > 0:
      for a in x.children():
        if a.sort() == z3.IntSort() and _is_ground(a):
          out[a.get_id()] = a
          # an index that is a conditional: both alternatives are index terms too
          alts = [a]
          while alts:
            y = alts.pop()
            if z3.is_app(y) and y.decl().kind() == z3.Z3_OP_ITE:
              for b in y.children()[1:]:
                out[b.get_id()] = b
                alts.append(b)
    for c in x.children():
      stack.append((c, bound))


def _is_ground(t):
  stack = [t]
  seen = set()
  while stack:
    x = stack.pop()
    if x.get_id() in seen:
      continue
    seen.add(x.get_id())
    if z3.is_var(x) or z3.is_quantifier(x):
      return False
    if z3.is_app(x):
      stack.extend(x.children())
  return True


def instantiate_and_check(assumptions, goal, timeout_ms=10000, rounds=2, max_inst=4000, seed=0, small_first=False):
  """Refute (assumptions and not goal) with the universally quantified hypotheses replaced by
  their instances at the ground index terms of the problem (goal-directed instantiation).
  Instances are consequences of the hypotheses, so `unsat` here is a proof; anything else
  decides nothing."""
  ctr = [0]
  # goal of the form (H -> G) with a quantified antecedent (an invariant that is itself an
  # implication from a universally quantified premise): prove G from assumptions + H -- the same sequent
  assumptions = list(assumptions)
  while True:
    if z3.is_quantifier(goal) and goal.is_forall():
      goal = _skolemize_goal(goal, ctr) if not z3.is_implies(goal.body()) else z3.substitute_vars(goal.body(), *reversed(_fresh_consts(goal, ctr)))
      continue
    if z3.is_implies(goal) and _has_quantifier(goal.children()[0]):
      assumptions.append(goal.children()[0])
      goal = goal.children()[1]
      continue
    break
  g = _skolemize_goal(goal, ctr)
  ground, quants = [], []
  for a in assumptions:
    for c in _flatten(a):
      if z3.is_quantifier(c) and c.is_forall():
        quants.append(c)
      elif z3.is_implies(c) and z3.is_quantifier(c.children()[1]) and c.children()[1].is_forall():
        quants.append(c)  # guard -> forall
      elif z3.is_implies(c) and z3.is_quantifier(c.children()[0]) and c.children()[0].is_forall() and not _has_quantifier(c.children()[1]):
        # (forall s. B(s)) -> C  is  exists s. (B(s) -> C): the witness becomes a fresh constant
        q0 = c.children()[0]
        ground.append(z3.Implies(z3.substitute_vars(q0.body(), *reversed(_fresh_consts(q0, ctr))), c.children()[1]))
      else:
        ground.append(c)
  if small_first:
    # one-variable hypotheses first, so that the instance budget is not used up by the pairs of a
    # two-variable hypothesis before the others are instantiated at all
    quants.sort(key=lambda q: (q.children()[1] if z3.is_implies(q) else q).num_vars())
  insts = []
  cands = {}
  seen = set()
  for t in ground + [g]:
    _index_terms(t, cands, seen)
  done = set()
  for _ in range(rounds):
    terms = list(cands.values())
    new = []
    for q in quants:
      guard = None
      qq = q
      if z3.is_implies(q):
        guard, qq = q.children()
      n = qq.num_vars()
      if n > 2:
        continue
      import itertools

      for tup in itertools.product(terms, repeat=n):
        key = (q.get_id(),) + tuple(t.get_id() for t in tup)
        if key in done:
          continue
        done.add(key)
        inst = z3.substitute_vars(qq.body(), *reversed(tup))
        if guard is not None:
          inst = z3.Implies(guard, inst)
        new.append(inst)
        if len(insts) + len(new) > max_inst:
          break
      if len(insts) + len(new) > max_inst:
        break
    insts.extend(new)
    for t in new:
      _index_terms(t, cands, seen)
  s = z3.Solver()
  s.set("timeout", int(timeout_ms))
  s.set("random_seed", int(seed) % (2**31))
  for a in ground + insts:
    if not _has_quantifier(a):
      s.add(a)
  if _has_quantifier(g):
    return {"status": "unknown", "reason": "goal keeps quantifiers after skolemisation"}
  s.add(z3.Not(g))
  t0 = time.time()
  r = s.check()
  return {"status": "unsat" if r == z3.unsat else "unknown", "backend": f"z3-5.1(api) ({len(insts)} goal-directed instances of quantified hypotheses)", "time_s": time.time() - t0}


def _has_quantifier(t):
  stack = [t]
  seen = set()
  while stack:
    x = stack.pop()
    if x.get_id() in seen:
      continue
    seen.add(x.get_id())
    if z3.is_quantifier(x):
      return True
    if z3.is_app(x):
      stack.extend(x.children())
  return False


_SIMP_CACHE = {}


def abstract_except(terms, keep_names, min_size=24):
  """Replace every maximal subterm that mentions none of the symbols in keep_names (and is
  not a plain constant/numeral) by a fresh constant of the same sort, consistently across all
  `terms`. This generalises the formulas (the subterm becomes an arbitrary value), so a proof
  of the abstracted goal is a proof of the original. Used for relational obligations in
  which only a few symbols (capacities, allocated slots) differ between the two copies."""
  # bring all formulas to z3's normal form first: path conditions were simplified when they were
  # built, allocation sizes were not, and the abstraction below matches subterms structurally
  def simp(t):
    k = t.get_id()
    if k not in _SIMP_CACHE:
      _SIMP_CACHE[k] = (t, z3.simplify(t, som=False, flat=True, arith_lhs=False))  # keep t alive: ids are reused otherwise
    return _SIMP_CACHE[k][1]

  terms = [simp(t) if isinstance(t, z3.ExprRef) else t for t in terms]
  cache_sym = {}
  fresh = {}
  sizes = {}

  def size(t):
    k = t.get_id()
    if k not in sizes:
      n = 1
      if z3.is_app(t):
        for c in t.children():
          n += size(c)
          if n > 10 * min_size:
            break
      sizes[k] = n
    return sizes[k]

  def mentions(t):
    return bool(_symbols(t, cache_sym) & keep_names)

  cache = {}

  def rec(t):
    k = t.get_id()
    if k in cache:
      return cache[k]
    if z3.is_quantifier(t) or not z3.is_app(t):
      cache[k] = t
      return t
    if not mentions(t) and size(t) < min_size:
      cache[k] = t  # small independent subterm: keep it (arithmetic facts such as k < n stay usable)
      return t
    if not mentions(t):
      if t.num_args() == 0:
        r = t  # constant or numeral
      else:
        if k not in fresh:
          fresh[k] = z3.Const(f"opaque!{len(fresh)}", t.sort())
        r = fresh[k]
      cache[k] = r
      return r
    ch = [rec(c) for c in t.children()]
    r = t
    if any(a.get_id() != b.get_id() for a, b in zip(ch, t.children())):
      try:
        r = t.decl()(*ch)
      except Exception:
        r = t
    cache[k] = r
    return r

  return [rec(t) for t in terms]


def integer_projection(assumptions):
  """drop every hypothesis conjunct that mentions a Real-sorted term (floating-point path
  conditions). Weakening hypotheses is sound for validity; used for index obligations, whose
  index terms are integers."""
  cache = {}
  out = []
  for a in assumptions:
    for c in _flatten(a):
      if not _mentions_real(c, cache):
        out.append(c)
  return out


def cone_of_influence(assumptions, goal):
  """keep only the assumption conjuncts that (transitively) share a symbol with the goal.
  Sound for validity (fewer hypotheses). A counter-model of the reduced query extends to the
  full one because the dropped conjuncts share no symbol with it (their joint
  satisfiability is what the per-contract vacuity canary checks)."""
  cache = {}
  conj = []
  for a in assumptions:
    conj.extend(_flatten(a))
  syms = [(_symbols(c, cache), c) for c in conj]
  live = set(_symbols(goal, cache))
  keep = [False] * len(syms)
  changed = True
  while changed:
    changed = False
    for i, (ss, c) in enumerate(syms):
      if not keep[i] and (ss & live or not ss):
        keep[i] = True
        if not ss <= live:
          live |= ss
          changed = True
  return [c for (ss, c), k in zip(syms, keep) if k]


def check(assumptions, goal, timeout_ms=10000, seed=0, want_model=True, backends=("z3api", "z3old", "cvc5"), cone=True, sat_first=False):
  """returns dict(status, backend, time_s, model?)

  Portfolio, in this order, each answer `sat`/`unsat` being final: z3 5.1 (API) with its default arithmetic solver, the
  same with the simplex-based one (arith.solver=2: decides in milliseconds some div/mod-heavy integer queries on which
  the default needs 2-9 s depending on the seed, and vice versa), then /usr/bin/z3 4.8.12 and cvc5 on the SMT-LIB text
  with three times the budget (they are only reached after two time-outs, and a generous budget there is what keeps a
  verdict from flipping to `unknown` when all cores are busy). sat_first (vacuity canaries: a model is expected)
  starts with a short API attempt followed by z3 4.8."""
  t0 = time.time()
  if cone:
    assumptions = cone_of_influence(assumptions, goal)
  configs = [("z3-5.1(api)", {}, timeout_ms), ("z3-5.1(api, arith.solver=2)", {"arith.solver": 2}, timeout_ms)]
  if sat_first:
    # model search is heavy-tailed in the API (0.05 s .. > 6 s on the same query, by seed) while z3 4.8 answers the
    # same queries in under a second: short API attempt, then z3 4.8 with a generous budget, then the full portfolio
    configs = [("z3-5.1(api)", {}, min(timeout_ms, 2000)), ("z3old", None, max(3 * timeout_ms, 30000))] + configs
  if "z3api" not in backends:
    configs = []
  s = None
  reason = None
  for name, cfg, tmo in configs:
    if cfg is None:
      rr = run_external(name, s.to_smt2(), tmo)
      if rr["status"] in ("unsat", "sat"):
        rr["time_s"] = time.time() - t0
        return rr
      continue
    s = z3.Solver()
    s.set("timeout", int(tmo))
    s.set("random_seed", int(seed) % (2**31))
    for k, v in cfg.items():
      s.set(k, v)
    for a in assumptions:
      s.add(a)
    s.add(z3.Not(goal))
    r = s.check()
    dt = time.time() - t0
    if r == z3.unsat:
      return {"status": "unsat", "backend": name, "time_s": dt}
    if r == z3.sat:
      res = {"status": "sat", "backend": name, "time_s": dt}
      if want_model:
        res["model"] = _model_to_dict(s.model())
        res["_model_obj"] = s.model()
      return res
    if reason is None:
      reason = s.reason_unknown()
    if tuple(backends) == ("z3api",):
      break  # callers that ask for the API only use it as one cheap attempt among several
  if s is None:
    s = z3.Solver()
    for a in assumptions:
      s.add(a)
    s.add(z3.Not(goal))
  # unknown: try the other back ends on the SMT-LIB text
  smt2 = s.to_smt2()
  for be in backends:
    if be == "z3api":
      continue
    rr = run_external(be, smt2, max(3 * timeout_ms, 30000))
    if rr["status"] in ("unsat", "sat"):
      rr["time_s"] = time.time() - t0
      rr["first_unknown"] = reason
      return rr
  return {"status": "unknown", "backend": "all", "time_s": time.time() - t0, "reason": reason}


def run_external(be, smt2, timeout_ms):
  with tempfile.NamedTemporaryFile("w", suffix=".smt2", delete=False, dir=os.environ.get("WPV_SCRATCH", None)) as f:
    f.write(smt2)
    path = f.name
  try:
    t = max(1, int(timeout_ms / 1000))
    if be == "z3old":
      cmd = ["/usr/bin/z3", f"-T:{t}", path]
    elif be == "z3new":
      cmd = ["z3-new", f"-T:{t}", path]
    elif be == "cvc5":
      cmd = ["/usr/bin/cvc5", f"--tlimit={t * 1000}", "--nl-ext-tplanes", path]
    else:
      return {"status": "unknown"}
    try:
      p = subprocess.run(cmd, capture_output=True, text=True, timeout=t + 5)
    except subprocess.TimeoutExpired:
      return {"status": "unknown", "backend": be}
    out = p.stdout.strip().splitlines()
    first = out[0].strip() if out else ""
    if first in ("unsat", "sat"):
      return {"status": first, "backend": be}
    return {"status": "unknown", "backend": be}
  finally:
    try:
      os.unlink(path)
    except OSError:
      pass
