"""Model well-formedness axioms (MODEL_WF): facts about Model index tables that come from the
MuJoCo compiler / put_model. ASSUMED here, AUDITED natively (tools/audit_modelwf.py) on the
repo's XML models; every use is listed in the evidence. Ghost inverse functions let store
summaries through index tables (e.g. mocap ids) stay closed-form."""

from __future__ import annotations

import z3

from .sym import Ghost, lift

USED = []


def _fn(ex, root, field):
  """uninterpreted function backing Model array `m.field` (forces its creation)"""
  ref = ex.host_attr(root, field)
  return ref, (lambda *idx: ex.st.arrs0[ref.aid](tuple(idx)))


def mocap(ex, m="m"):
  """body_mocapid is a bijection between mocap bodies and [0, nmocap)"""
  root = ex.roots[m]
  _, f = _fn(ex, root, "body_mocapid")
  nbody = ex.host_attr(root, "nbody")
  nmocap = ex.host_attr(root, "nmocap")
  g = z3.Function("mocap_bodyid", z3.IntSort(), z3.IntSort())
  b, i = z3.Ints("b!wf i!wf")
  fb = f(b)
  ex.assume(z3.ForAll([b], z3.Implies(z3.And(0 <= b, b < nbody, fb >= 0), z3.And(fb < nmocap, g(fb) == b)), patterns=[fb]))
  gi = g(i)
  ex.assume(z3.ForAll([i], z3.Implies(z3.And(0 <= i, i < nmocap), z3.And(0 <= gi, gi < nbody, f(gi) == i)), patterns=[gi]))
  ex.inverses = getattr(ex, "inverses", {})
  ex.inverses["m.body_mocapid"] = g
  USED.append("MODEL_WF.mocap: body_mocapid restricted to mocap bodies is a bijection onto [0,nmocap) (ghost inverse mocap_bodyid)")
  return Ghost("mocap_bodyid", lambda x: g(lift(x)))


def sizes_nonneg(ex, names, m="m"):
  root = ex.roots[m]
  for n in names:
    ex.assume(ex.host_attr(root, n) >= 0)


def nv_le_nq(ex, m="m"):
  root = ex.roots[m]
  ex.assume(ex.host_attr(root, "nv") <= ex.host_attr(root, "nq"))
  USED.append("MODEL_WF.nv_le_nq: nv <= nq (every joint type has at least as many position as velocity coordinates)")
