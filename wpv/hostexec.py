"""Host-side symbolic execution: straight-line python orchestration (m/d objects,
wp.launch, raise, nested kernel definitions, a few warp allocation helpers).

A kernel launch is a *parallel loop* over the launch grid: the real kernel body is
executed once for symbolic thread ids, its stores are lifted to a closed-form launch-level
state by solving store indices for the thread ids (wpv.loops.summarise_stores with
parallel=True: stores of distinct threads must provably not overlap; reads of cells that
other threads write make the array havoc). Aliasing is whatever the launch site passes.
"""

from __future__ import annotations

import ast
import enum
from dataclasses import dataclass, field

import z3

from . import extract, loops
from .sym import (
  SOME, ArrRef, Exec, Frame, FuncRef, ModRef, Opaque, RowView, StructVal, TArr, TScalar, TStruct, TVec, TypeCtor, Unsupported, Vec,
  T_BOOL, T_FLOAT, T_INT, is_conc, ite, kind_of, lift, simp_bool, tobool, vec_type_by_name, zand, zb, znot, zor,
)  # fmt: skip

DATACLASS_OF = {"Model": "Model", "Data": "Data", "Option": "Option", "Statistic": "Statistic", "Contact": "Contact", "Constraint": "Constraint"}


@dataclass
class HostObj:
  path: str
  cls: str
  fields: dict = field(default_factory=dict)
  overrides: dict = field(default_factory=dict)


@dataclass
class LaunchRec:
  kernel: str
  lineno: int
  guard: object
  dim: tuple
  binding: dict  # formal -> actual value
  writes: list  # array names written
  reads: list
  notes: list


class HostExec(Exec):
  def __init__(self):
    super().__init__()
    self.host_mode = True
    self.launches = []
    self.roots = {}  # 'm' -> HostObj
    self.size_syms = {}
    self.launch_ctr = 0
    self.raised = False
    self.host_notes = []
    self.inline_host = True
    self.skip_calls = set()  # host function keys treated as opaque (frame only)

  # ---------------------------------------------------------------- model/data objects
  def root(self, name, cls):
    if name not in self.roots:
      self.roots[name] = HostObj(name, cls)
    return self.roots[name]

  def size(self, dimname):
    """symbol for a spec dimension name ('nworld' -> d.nworld, 'nq' -> m.nq)"""
    if isinstance(dimname, int):
      return dimname
    if dimname in self.size_syms:
      return self.size_syms[dimname]
    dspec = extract.dataclass_specs("Data")
    mspec = extract.dataclass_specs("Model")
    if dimname == "*":
      s = self.fresh("batch", "int")
      self.assume(s >= 1)
      return s
    if dimname in dspec and dspec[dimname][0] == "scalar":
      s = z3.Int(f"d.{dimname}")
    elif dimname in mspec and mspec[dimname][0] == "scalar":
      s = z3.Int(f"m.{dimname}")
    else:
      s = z3.Int(f"dim.{dimname}")
    self.assume(s >= 0)
    self.size_syms[dimname] = s
    return s

  def host_attr(self, obj: HostObj, attr):
    if attr in obj.fields:
      return obj.fields[attr]
    specs = extract.dataclass_specs(obj.cls)
    if attr not in specs:
      raise Unsupported(f"{obj.cls} has no field {attr}")
    sp = specs[attr]
    path = f"{obj.path}.{attr}"
    if sp[0] == "array":
      dims, dt = sp[1], sp[2]
      elem = self._dtype(dt)
      ref = self.new_array(path, len(dims), elem)
      for i, dn in enumerate(dims):
        sh = self.shape_sym(ref, i)
        if dn == "*":
          self.assume(sh >= 1)
        else:
          self.assume(sh == self.size(dn))
      v = ref
    elif sp[0] == "scalar":
      if sp[1] == "int":
        if obj.path == "d" or obj.path == "m":
          v = self.size(attr) if attr.startswith("n") else z3.Int(path)
        else:
          v = z3.Int(path)
      elif sp[1] == "float":
        v = z3.Real(path)
      else:
        v = z3.Bool(path)
    else:
      tn = sp[1].split(".")[-1]
      if tn in DATACLASS_OF:
        v = HostObj(path, tn)
      elif tn in ("int", "float", "bool"):
        v = {"int": z3.Int(path), "float": z3.Real(path), "bool": z3.Bool(path)}[tn]
      else:
        v = Opaque(f"hostfield:{path}:{sp[1]}")
    obj.fields[attr] = v
    return v

  def _dtype(self, s):
    s = s.strip()
    if s in ("int", "wp.int32", "wp.int64", "wp.uint32"):
      return T_INT
    if s in ("float", "wp.float32"):
      return T_FLOAT
    if s in ("bool", "wp.bool"):
      return T_BOOL
    vt = vec_type_by_name(s.split(".")[-1])
    if vt is None:
      raise Unsupported(f"dtype {s}")
    return vt

  def getattr_value(self, base, attr, fr, e=None):
    if isinstance(base, HostObj):
      return self.host_attr(base, attr)
    if isinstance(base, ArrRef):
      if attr == "dtype":
        return Opaque("dtype:" + (base.elem.kind if isinstance(base.elem, TScalar) else "vec"))
      if attr in ("zero_", "fill_", "numpy", "assign"):
        return Opaque(f"arrmethod:{attr}:{base.aid}")
    if isinstance(base, ModRef) and base.name == "wp":
      if attr in ("utils", "types"):
        return Opaque("wp." + attr)
    if isinstance(base, Opaque) and base.what in ("wp.utils", "wp.types"):
      return Opaque(base.what + "." + attr)
    return super().getattr_value(base, attr, fr, e)

  # ---------------------------------------------------------------- statements
  def s_FunctionDef(self, s, fr):
    info = fr.info.nested.get(s.name) if fr.info is not None else None
    if info is None:
      raise Unsupported(f"nested def {s.name}")
    fr.env[s.name] = FuncRef(info, closure={}, defframe=fr)  # python closure: late binding to the defining frame

  def s_Raise(self, s, fr):
    act = self.guard_now(fr)
    self.raises.append((act, s.lineno, ast.unparse(s.exc)[:80] if s.exc else ""))
    fr.env["$ret"] = simp_bool(zor(fr.env.get("$ret", False), self.active(fr)))

  def s_With(self, s, fr):
    self.exec_block(s.body, fr)

  def s_Import(self, s, fr):
    pass

  def s_ImportFrom(self, s, fr):
    pass

  def s_Global(self, s, fr):
    pass

  raises: list = []

  def e_JoinedStr(self, e, fr):
    return Opaque("fstring")

  def e_BoolOp(self, e, fr):
    # python object semantics of `x or default`
    if isinstance(e.op, ast.Or) and len(e.values) == 2:
      a = self.eval(e.values[0], fr)
      if a is None:
        return self.eval(e.values[1], fr)
      if isinstance(a, (ArrRef, HostObj)) or a is SOME:
        return a
      b = self.eval(e.values[1], fr)
      return zor(simp_bool(tobool(a)), simp_bool(tobool(b)))
    return super().e_BoolOp(e, fr)

  def e_Compare(self, e, fr):
    if len(e.ops) == 1 and isinstance(e.ops[0], (ast.Eq, ast.NotEq)):
      a = self.eval(e.left, fr)
      b = self.eval(e.comparators[0], fr)
      if isinstance(a, tuple) and isinstance(b, tuple):
        if len(a) != len(b):
          r = False
        else:
          r = zand(*[self.ar.compare(ast.Eq(), x, y) for x, y in zip(a, b)])
        return r if isinstance(e.ops[0], ast.Eq) else znot(r)
      if isinstance(a, Opaque) or isinstance(b, Opaque) or isinstance(a, TypeCtor) or isinstance(b, TypeCtor):
        r = self._opaque_eq(a, b)
        return r if isinstance(e.ops[0], ast.Eq) else znot(r)
      return self.ar.compare(e.ops[0], a, b) if not (isinstance(a, Vec) or isinstance(b, Vec)) else super().e_Compare(e, fr)
    return super().e_Compare(e, fr)

  def _opaque_eq(self, a, b):
    def key(x):
      if isinstance(x, Opaque) and x.what.startswith("dtype:"):
        return x.what[6:]
      if isinstance(x, TypeCtor) and isinstance(x.t, TScalar):
        return x.t.kind
      if isinstance(x, Opaque) and x.what in ("wp.bool",):
        return "bool"
      return None

    ka, kb = key(a), key(b)
    if ka is not None and kb is not None:
      return ka == kb
    raise Unsupported(f"comparison of opaque values {a} {b}")

  # ---------------------------------------------------------------- calls
  def e_Call(self, e, fr):
    fs = ast.unparse(e.func)
    if fs in ("wp.launch", "wp.launch_tiled"):
      return self.host_launch(e, fr, tiled=fs.endswith("tiled"))
    if fs == "isinstance":
      v = self.eval(e.args[0], fr)
      t = ast.unparse(e.args[1])
      return self.host_isinstance(v, t)
    if fs in ("bool", "int", "float") and len(e.args) == 1:
      v = self.eval(e.args[0], fr)
      if isinstance(v, enum.Enum):
        v = int(v)
      return self.cast(v, fs)
    if fs in ("warnings.warn", "wp.capture_while", "wp.synchronize", "print"):
      return None
    return super().e_Call(e, fr)

  def host_isinstance(self, v, t):
    if "wp.array" in t:
      return isinstance(v, ArrRef)
    if t in ("int", "(int, np.integer)", "np.integer"):
      if is_conc(v):
        return isinstance(v, int) and not isinstance(v, bool)
      if isinstance(v, z3.ExprRef):
        return kind_of(v) == "int"
      return False
    raise Unsupported(f"isinstance(_, {t})")

  def call(self, callee, args, kw, fr, e):
    if isinstance(callee, Opaque):
      w = callee.what
      if w.startswith("arrmethod:"):
        _, meth, aid = w.split(":")
        ref = self.st.meta[int(aid)]
        if meth == "zero_":
          self.fill_array(ref, 0, fr, e.lineno)
          return None
        if meth == "fill_":
          self.fill_array(ref, args[0], fr, e.lineno)
          return None
        raise Unsupported("array method " + meth)
      if w in ("wp.ones", "wp.zeros", "wp.empty", "wp.full", "wp.zeros_like", "wp.empty_like", "wp.clone", "wp.copy", "wp.array"):
        return self.host_alloc(w[3:], args, kw, fr, e)
      if w == "wp.utils.array_cast":
        src, dst = args[0], args[1]
        self.host_notes.append("array_cast modelled as element-wise (x != 0)")
        g = self.guard_now(fr)
        prev = self.st.arrs[dst.aid]
        srcf = self.st.arrs[src.aid]
        k = dst.elem.kind

        def f(idx, prev=prev, srcf=srcf, g=g, k=k):
          v = self.cast(srcf(idx), k)
          return v if g is True else z3.If(g, lift(v, k), prev(idx))

        self.st.arrs[dst.aid] = f
        return None
      if w == "wp.types.type_is_int":
        a = args[0]
        if isinstance(a, Opaque) and a.what.startswith("dtype:"):
          return a.what == "dtype:int"
        raise Unsupported("type_is_int")
    if isinstance(callee, FuncRef) and callee.info.kind == "host":
      if callee.info.key in self.host_contracts:
        # modular call: only the callee's frame contract is used (proved separately)
        g = self.guard_now(fr)
        self.opaque_calls.append((callee.info.key, g))
        for path in self.host_contracts[callee.info.key]["modifies"]:
          ref = self.resolve_path(path)
          prev = self.st.arrs[ref.aid]
          self.havoc_array(ref)
          hv = self.st.arrs[ref.aid]
          if g is not True:
            self.st.arrs[ref.aid] = lambda idx, prev=prev, hv=hv, g=g: z3.If(g, hv(idx), prev(idx))
        return None
      if callee.info.key in self.skip_calls or not self.inline_host:
        self.host_notes.append(f"opaque host call {callee.info.key}")
        self.opaque_calls.append((callee.info.key, self.guard_now(fr)))
        return None
    return super().call(callee, args, kw, fr, e)

  opaque_calls: list = []
  host_contracts: dict = {}

  def resolve_path(self, path):
    parts = path.split(".")
    v = self.roots[parts[0]] if parts[0] in self.roots else self.root(parts[0], {"m": "Model", "d": "Data"}[parts[0]])
    for p in parts[1:]:
      v = self.host_attr(v, p)
    return v

  def written_arrays(self):
    """names of arrays whose state differs (syntactically) from the initial state"""
    return sorted(self.st.meta[aid].name for aid, f in self.st.arrs.items() if f is not self.st.arrs0.get(aid))

  def fill_array(self, ref, val, fr, lineno):
    g = self.guard_now(fr)
    prev = self.st.arrs[ref.aid]
    k = ref.elem.kind
    v = lift(val, k)
    from .sym import Access

    self.st.log.append(Access("fill", ref, (), g, lineno, value=val, op="fill"))
    self.st.arrs[ref.aid] = (lambda idx, v=v: v) if g is True else (lambda idx, prev=prev, v=v, g=g: z3.If(g, v, prev(idx)))

  def host_alloc(self, what, args, kw, fr, e):
    dt = kw.get("dtype")
    if what in ("ones", "zeros", "empty", "full"):
      shape = kw.get("shape", args[0] if args else None)
      if what == "full":
        val = kw.get("value", args[1] if len(args) > 1 else None)
      else:
        val = {"ones": 1, "zeros": 0, "empty": None}[what]
      if dt is None:
        raise Unsupported("allocation without dtype")
      elem = dt.t if isinstance(dt, TypeCtor) else None
      if elem is None:
        raise Unsupported("allocation dtype")
      shp = shape if isinstance(shape, tuple) else (shape,)
      self.launch_ctr += 1
      ref = self.new_array(f"tmp{self.launch_ctr}@{e.lineno}", len(shp), elem)
      for i, s in enumerate(shp):
        self.assume(self.shape_sym(ref, i) == lift(s))
      if val is not None:
        v = lift(self.cast(val, elem.kind), elem.kind)
        self.st.arrs[ref.aid] = lambda idx, v=v: v
        self.st.arrs0[ref.aid] = self.st.arrs[ref.aid]
      return ref
    raise Unsupported("wp." + what)

  # ---------------------------------------------------------------- launches
  def host_launch(self, e, fr, tiled=False):
    args = list(e.args)
    kws = {k.arg: k.value for k in e.keywords}
    kexpr = args[0] if args else kws.get("kernel")
    dim_e = kws.get("dim", args[1] if len(args) > 1 else None)
    in_e = kws.get("inputs", args[2] if len(args) > 2 else None)
    out_e = kws.get("outputs", args[3] if len(args) > 3 else None)
    kval = self.eval(kexpr, fr)
    if not isinstance(kval, FuncRef) or kval.info.kind != "kernel":
      raise Unsupported(f"launch of {ast.unparse(kexpr)[:60]}")
    dim = self.eval(dim_e, fr)
    dims = tuple(dim) if isinstance(dim, (tuple, list)) else (dim,)
    actuals = []
    for le in (in_e, out_e):
      if le is None:
        continue
      v = self.eval(le, fr)
      if not isinstance(v, list):
        raise Unsupported("launch inputs not a list literal")
      actuals.extend(v)
    self.run_kernel_launch(kval, dims, actuals, fr, e.lineno, tiled)
    return None

  def run_kernel_launch(self, kref, dims, actuals, fr, lineno, tiled=False):
    info = kref.info
    node = info.node
    params = [a.arg for a in node.args.args]
    if len(params) != len(actuals):
      self.side.append((f"{fr.info.key}@launch:{info.qualname}#arity", [], z3.BoolVal(False)))
      raise Unsupported(f"launch arity mismatch for {info.key}: {len(actuals)} actuals for {len(params)} formals")
    if tiled:
      dims = tuple(dims) + (z3.Int("block_dim"),)
    self.launch_ctr += 1
    L = self.launch_ctr
    # closure constants of a nested kernel = enclosing host frame's variables (python values only)
    kf = Frame(info, closure=self.closure_for(kref, fr))
    for pn, a in zip(params, actuals):
      if isinstance(a, enum.Enum):
        a = int(a)
      kf.env[pn] = a
    tids = [z3.Int(f"tid{i}@{L}") for i in range(len(dims))]
    rng = zand(*[z3.And(t >= 0, t < lift(d)) for t, d in zip(tids, dims)])
    saved_tids, saved_dims = self.tids, self.dims
    self.tids, self.dims = tids, [lift(d) for d in dims]
    st = self.st
    g_launch = self.guard_now(fr)
    if info.key in getattr(self, "launch_contracts", {}):
      # modular launch: the kernel enters through its thread contract (proved separately at
      # kernel level): requires must hold for every thread of the grid in the current state,
      # the arrays it may modify become arbitrary, and ensures holds for every thread afterwards
      from .contracts import eval_contract_expr

      lc = self.launch_contracts[info.key]
      try:
        kf.env.update(lc.get("ghosts", {}))
        for i, text in enumerate(lc.get("requires", [])):
          goal = tobool(eval_contract_expr(self, kf, text, {}))
          self.side.append((f"{fr.info.key}@launch:{info.qualname}#requires.{i}", [zb(g_launch), zb(rng)], zb(goal)))
        for name in lc.get("modifies", []):
          ref = kf.env[name]
          prev = st.arrs[ref.aid]
          self.havoc_array(ref)
          hv = st.arrs[ref.aid]
          if g_launch is not True:
            st.arrs[ref.aid] = lambda idx, prev=prev, hv=hv, g=g_launch: z3.If(g, hv(idx), prev(idx))
        saved0 = st.arrs0
        for text in lc.get("ensures", []):
          post = tobool(eval_contract_expr(self, kf, text, {}))
          self.assume(z3.ForAll(tids, z3.Implies(z3.And(zb(g_launch), zb(rng)), zb(post))))
      finally:
        self.tids, self.dims = saved_tids, saved_dims
      self.launches.append(LaunchRec(info.key, lineno, g_launch, dims, dict(zip(params, actuals)), list(lc.get("modifies", [])), [], ["modular launch (thread contract)"]))
      return
    outer_bound = list(st.bound)
    env_k0 = dict(kf.env)
    dirty = set()
    n_notes = len(self.notes)
    try:
      for _pass in range(4):
        log_start = len(st.log)
        side_start = len(self.side)
        arrs_before = dict(st.arrs)
        for aid in dirty:
          self.havoc_array(st.meta[aid], f"racy read in launch of {info.qualname}")
        kf.env = dict(env_k0)
        st.bound.extend(tids)
        st.pc.append(g_launch)
        st.pc.append(rng)
        try:
          self.exec_block(node.body, kf)
        finally:
          st.pc.pop()
          st.pc.pop()
          del st.bound[len(outer_bound) :]
        body_log = st.log[log_start:]
        new_dirty = loops.carried_dependences(self, body_log, tids, dirty)
        if new_dirty <= dirty:
          break
        dirty |= new_dirty
        del st.log[log_start:]
        del self.side[side_start:]
        st.arrs = arrs_before
      else:
        raise Unsupported("launch dependence analysis did not stabilise")
    finally:
      self.tids, self.dims = saved_tids, saved_dims
    loops.summarise_stores(self, body_log, arrs_before, outer_bound, info.key, lineno, parallel=True)
    for aid in dirty:
      self.havoc_array(st.meta[aid], f"read of cells written by other threads in launch of {info.qualname}")
    writes = sorted({a.arr.name for a in body_log if a.kind != "r"})
    reads = sorted({a.arr.name for a in body_log if a.kind == "r"})
    self.launches.append(
      LaunchRec(info.key, lineno, g_launch, dims, dict(zip(params, actuals)), writes, reads, self.notes[n_notes:])
    )

  def make_tids(self, n):
    if not self.tids:
      raise Unsupported("wp.tid() outside a launch")
    if len(self.tids) < n:
      raise Unsupported(f"wp.tid() arity {n} exceeds launch dim {len(self.tids)}")
    return list(self.tids[:n])


def run_host(key, args=None, specialise=None, skip_calls=(), invariants=None):
  """symbolically execute a host function; args: name -> value (HostObj for m/d by default)"""
  info = extract.get_func(key)
  ex = HostExec()
  ex.raises = []
  ex.opaque_calls = []
  ex.skip_calls = set(skip_calls)
  if invariants:
    ex.invariants.update(invariants)
  fr = Frame(info)
  args = dict(args or {})
  for a in info.node.args.args:
    if a.arg in args:
      v = args[a.arg]
      if callable(v) and not isinstance(v, (z3.ExprRef,)):
        v = v(ex)
      fr.env[a.arg] = v
      continue
    ann = ast.unparse(a.annotation) if a.annotation is not None else ""
    tn = ann.split(".")[-1]
    if tn in DATACLASS_OF:
      fr.env[a.arg] = ex.root(a.arg, tn)
    else:
      from .contracts import fresh_value, parse_type

      try:
        fr.env[a.arg] = fresh_value(ex, a.arg, parse_type(a.annotation, info.module))
      except Unsupported:
        raise Unsupported(f"host parameter {a.arg}: {ann} needs an explicit argument")
  defaults = info.node.args.defaults
  ex.exec_block(info.node.body, fr)
  return ex, fr


class HostRun:
  """symbolic execution of a host function + contract helpers over the final Data/Model state"""

  def __init__(self, key, args=None, skip_calls=(), invariants=None, pre=(), setup=None, host_contracts=None, launch_contracts=None):
    from .contracts import Obligation

    self.key = key
    self.info = extract.get_func(key)
    self.ex = HostExec()
    ex = self.ex
    ex.raises = []
    ex.opaque_calls = []
    ex.skip_calls = set(skip_calls)
    ex.host_contracts = dict(host_contracts or {})
    ex.launch_contracts = dict(launch_contracts or {})
    if invariants:
      ex.invariants.update(invariants)
    self.fr = Frame(self.info)
    self.qvars = {}
    args = dict(args or {})
    for a in self.info.node.args.args:
      if a.arg in args:
        v = args[a.arg]
        if callable(v) and not isinstance(v, z3.ExprRef):
          v = v(ex)
        self.fr.env[a.arg] = v
        continue
      ann = ast.unparse(a.annotation) if a.annotation is not None else ""
      tn = ann.split(".")[-1]
      if tn in DATACLASS_OF:
        self.fr.env[a.arg] = ex.root(a.arg, tn)
      else:
        from .contracts import fresh_value, parse_type

        self.fr.env[a.arg] = fresh_value(ex, a.arg, parse_type(a.annotation, self.info.module))
    self.params = dict(self.fr.env)
    if setup:
      setup(self)
    for p in pre:
      self.require(p)
    ex.exec_block(self.info.node.body, self.fr)
    self.final_env = self.fr.env
    self.fr.env = dict(self.params)

  def var(self, name, kind="int"):
    v = self.ex.sym(name, kind)
    self.qvars[name] = v
    return v

  def term(self, text, extra=None):
    from .contracts import eval_contract_expr

    env = dict(self.qvars)
    if extra:
      env.update(extra)
    return eval_contract_expr(self.ex, self.fr, text, env, params=self.params)

  def require(self, t):
    t = self.term(t) if isinstance(t, str) else t
    self.ex.assume(zb(t))

  def raised(self):
    return zor(*[g for g, _, _ in self.ex.raises])

  def obligation(self, oid, goal, extra_assume=(), kind="post", expect="valid", meta=None):
    from .contracts import Obligation

    g = self.term(goal) if isinstance(goal, str) else goal
    ass = list(self.ex.assumes) + [self.term(a) if isinstance(a, str) else a for a in extra_assume]
    m = {"function": self.key, "source_hash": self.info.source_hash}
    for L in self.ex.launches:
      ki = extract.get_func(L.kernel)
      m.setdefault("kernels", {})[L.kernel] = ki.source_hash
    if isinstance(goal, str):
      m["goal"] = goal
    if meta:
      m.update(meta)
    return Obligation(oid, [zb(a) for a in ass if a is not True], zb(g), func=self.key, kind=kind, meta=m, expect=expect)

  def side_obligations(self, prefix=""):
    from .contracts import Obligation

    return [
      Obligation(
        prefix + n,
        (list(self.ex.assumes[: rest[0]]) if rest else list(self.ex.assumes)) + [zb(h) for h in hyp if h is not True],
        zb(goal),
        func=self.key,
        kind="side",
        meta={"function": self.key, "source_hash": self.info.source_hash},
      )
      for n, hyp, goal, *rest in self.ex.side
    ]
