"""Kernel census: every @wp.kernel in /repo (module level, or nested in a factory / public
function), its closure specialisations, and the classification of its formals against the
field specs of types.py (naming convention `X_in/_out` <-> Data.X, `opt_X` <-> Option.X ...).
New or renamed kernels are in scope by default."""

from __future__ import annotations

import ast
import itertools

import z3

from . import extract
from .consts import enum_namespace
from .contracts import Run
from .sym import SOME, Opaque, Unsupported

# closure variables of kernels nested in plain public functions (not annotated factories)
EXTRA_CLOSURES = {
  "reset": [None, SOME],
  "active": [None, SOME],
}

SKIP_MODULES = {"types", "warp_util", "io_jax", "benchmark"}


def all_kernels(modules=None):
  out = []
  for mod in modules or extract.all_module_names():
    if mod in SKIP_MODULES:
      continue
    try:
      mi = extract.load_module(mod)
    except SyntaxError:
      continue
    for q, fi in mi.funcs.items():
      if fi.kind == "kernel":
        out.append(fi)
  return out


def free_names(info):
  """names loaded in the kernel body that are neither parameters nor assigned locally"""
  node = info.node
  params = {a.arg for a in node.args.args}
  assigned = set()
  loaded = set()
  for n in ast.walk(node):
    if isinstance(n, ast.Name):
      if isinstance(n.ctx, ast.Store):
        assigned.add(n.id)
      else:
        loaded.add(n.id)
  return loaded - params - assigned


def closure_vars(info):
  """free names that resolve to parameters/locals of an enclosing host function"""
  out = {}
  p = info.parent
  fn = free_names(info)
  while p is not None:
    pnode = p.node
    pparams = {a.arg: a for a in pnode.args.args}
    plocals = set()
    for n in ast.walk(pnode):
      if isinstance(n, ast.Name) and isinstance(n.ctx, ast.Store):
        plocals.add(n.id)
    for name in fn:
      if name in out:
        continue
      if name in pparams:
        out[name] = ("param", p, pparams[name])
      elif name in plocals and name not in p.nested:
        out[name] = ("local", p, None)
    p = p.parent
  return out


def _domain(kind, p, arg, name):
  ns = enum_namespace()
  if name in EXTRA_CLOSURES:
    return EXTRA_CLOSURES[name]
  if kind == "param" and arg.annotation is not None:
    ann = ast.unparse(arg.annotation)
    if ann == "bool":
      return [False, True]
    if ann == "int":
      return [z3.Int(f"closure.{name}")]
    t = ann.split(".")[-1]
    if hasattr(ns, t) and isinstance(getattr(ns, t), type):
      return list(getattr(ns, t))
    return [Opaque(f"closure:{ann}")]
  if kind == "local":
    # local of the enclosing function (e.g. a bool computed from flags): try both booleans,
    # name-based guess; ints stay symbolic
    if name.startswith(("is_", "has_", "flg_", "use_", "enable", "sleep_", "warn")) or name.endswith(("_enabled", "_sparse")):
      return [False, True]
    return [z3.Int(f"closure.{name}")]
  return [Opaque("closure:?")]


def _factory_param_domains(parent):
  names, doms = [], []
  for a in parent.node.args.args:
    names.append(a.arg)
    doms.append(_domain("param", parent, a, a.arg))
  return names, doms


def _run_factory(parent, params):
  """execute the factory body (host python) with the given parameter values and return the
  variables visible to the kernel it builds (locals derived from parameters, nested funcs)"""
  from .hostexec import HostExec
  from .sym import Frame

  hx = HostExec()
  hx.raises = []
  hx.opaque_calls = []
  fr = Frame(parent)
  fr.env = dict(params)
  hx.exec_block(parent.node.body, fr)
  return {k: v for k, v in fr.env.items() if not k.startswith("$")}


def specialisations(info, limit=64):
  cv = closure_vars(info)
  if not cv:
    return [{}]
  parent = info.parent
  if parent is not None and parent.kind == "host" and parent.parent is None and all(v[1] is parent for v in cv.values()):
    if all(a.annotation is not None for a in parent.node.args.args) and any(v[0] == "local" for v in cv.values()):
      # true factory whose kernel uses locals computed from the parameters: run the factory
      names, doms = _factory_param_domains(parent)
      if not any(isinstance(x, Opaque) for d in doms for x in d):
        out = []
        try:
          for combo in list(itertools.product(*doms))[:limit]:
            params = dict(zip(names, combo))
            env = _run_factory(parent, params)
            cl = {k: env[k] for k in cv if k in env}
            cl["$label"] = ",".join(f"{k}={_lab(v)}" for k, v in sorted(params.items()))
            out.append(cl)
          return out
        except Exception:
          pass
  names = sorted(cv)
  doms = [_domain(cv[n][0], cv[n][1], cv[n][2], n) for n in names]
  combos = list(itertools.product(*doms))
  if len(combos) > limit:
    combos = combos[:limit]
  return [dict(zip(names, c)) for c in combos]


def _lab(v):
  if v is SOME:
    return "set"
  if isinstance(v, z3.ExprRef):
    return "sym"
  if isinstance(v, Opaque):
    return "opaque"
  return str(getattr(v, "name", v))


def spec_label(closure):
  if "$label" in closure:
    return closure["$label"]
  return ",".join(f"{k}={_lab(v)}" for k, v in sorted(closure.items())) or "-"


# --------------------------------------------------------------------------- formals

_SPECS = {}


def _specs():
  if not _SPECS:
    for cls in ("Model", "Data", "Option", "Statistic", "Contact", "Constraint"):
      _SPECS[cls] = extract.dataclass_specs(cls)
  return _SPECS


def classify_formal(name):
  """-> (owner class, field, dims) or None. dims: tuple of spec dims ('nworld', '*', 'nv', 3, ...)"""
  S = _specs()
  stem = name
  for suf in ("_in", "_out"):
    if stem.endswith(suf):
      stem = stem[: -len(suf)]
      break
  cands = []
  if name in S["Model"] and S["Model"][name][0] == "array":
    return ("Model", name, S["Model"][name][1])
  if stem.startswith("opt_") and stem[4:] in S["Option"] and S["Option"][stem[4:]][0] == "array":
    return ("Option", stem[4:], S["Option"][stem[4:]][1])
  if stem.startswith("stat_") and stem[5:] in S["Statistic"] and S["Statistic"][stem[5:]][0] == "array":
    return ("Statistic", stem[5:], S["Statistic"][stem[5:]][1])
  if stem.startswith("contact_") and stem[8:] in S["Contact"]:
    return ("Contact", stem[8:], S["Contact"][stem[8:]][1])
  if stem.startswith("efc_") and stem[4:] in S["Constraint"]:
    return ("Constraint", stem[4:], S["Constraint"][stem[4:]][1])
  if stem in S["Data"] and S["Data"][stem][0] == "array":
    return ("Data", stem, S["Data"][stem][1])
  if stem in S["Model"] and S["Model"][stem][0] == "array":
    return ("Model", stem, S["Model"][stem][1])
  return None


def run_kernel(info, closure, **kw):
  return Run(info.key, closure=closure, **kw)


def kernel_summary(key):
  """per formal of kernel `key`, over all closure specialisations:
  r (read), w (written), acc (accumulated: `+=`, atomic_*), plain (plain store).
  Falls back to a syntactic summary when the kernel is outside the dialect."""
  from .sym import ArrRef

  info = extract.get_func(key)
  formals = [a.arg for a in info.node.args.args]
  out = {f: {"r": False, "w": False, "acc": False, "plain": False} for f in formals}
  note = ""
  try:
    for cl in specialisations(info):
      run = run_kernel(info, {k: v for k, v in cl.items() if k != "$label"}, fast=True)
      ids = {v.aid: n for n, v in run.params.items() if isinstance(v, ArrRef)}
      for a in run.ex.st.log:
        n = ids.get(a.arr.aid)
        if n is None or a.guard is False:
          continue
        if a.kind == "r":
          out[n]["r"] = True
        else:
          out[n]["w"] = True
          if (a.kind == "atomic" and a.op not in ("or", "and", "min", "max", "exch", "cas")) or a.op == "aug":
            out[n]["acc"] = True  # idempotent atomics (or/min/max) are not accumulation
          else:
            out[n]["plain"] = True
            # does the kernel only ever store zero into this array (a zeroing kernel)?
            v = a.value
            from .sym import Vec, is_conc

            def _z(c):
              if is_conc(c):
                return c == 0
              if isinstance(c, z3.ExprRef) and z3.is_int_value(c):
                return c.as_long() == 0
              if isinstance(c, z3.ExprRef) and z3.is_rational_value(c):
                return c.as_fraction() == 0
              return False

            comps = v.comps if isinstance(v, Vec) else [v]
            is_zero = v is not None and not isinstance(v, tuple) and all(_z(c) for c in comps)
            out[n]["nonzero_store"] = out[n].get("nonzero_store", False) or not is_zero
            # is every plain store indexed by bare thread ids (one cell per thread of the grid)?
            pure = bool(a.idx) and all(isinstance(i, z3.ExprRef) and z3.is_const(i) and i.decl().name().startswith("tid") for i in a.idx)
            out[n]["impure_store"] = out[n].get("impure_store", False) or not pure
  except Exception as e:  # Unsupported or translator limitation: syntactic summary
    note = f"syntactic summary ({type(e).__name__}: {str(e)[:80]})"
    out = syntactic_summary(info)
  return {"key": key, "formals": out, "note": note, "hash": info.source_hash}


def syntactic_summary(info):
  """conservative AST summary: subscript stores / aug-assigns / atomics on a formal, loads, and
  formals handed to other functions (treated as read and written unless named *_in)"""
  formals = [a.arg for a in info.node.args.args if a.annotation is not None and "array" in ast.unparse(a.annotation)]
  out = {a.arg: {"r": False, "w": False, "acc": False, "plain": False} for a in info.node.args.args}

  def root(n):
    while isinstance(n, ast.Subscript):
      n = n.value
    return n.id if isinstance(n, ast.Name) else None

  for n in ast.walk(info.node):
    if isinstance(n, ast.Assign):
      for t in n.targets:
        if isinstance(t, ast.Subscript) and root(t) in formals:
          out[root(t)]["w"] = out[root(t)]["plain"] = True
    elif isinstance(n, ast.AugAssign) and isinstance(n.target, ast.Subscript) and root(n.target) in formals:
      r_ = root(n.target)
      out[r_]["w"] = out[r_]["acc"] = out[r_]["r"] = True
    elif isinstance(n, ast.Call):
      f = ast.unparse(n.func)
      if f.startswith("wp.atomic_") and n.args and root(n.args[0]) in formals:
        r_ = root(n.args[0])
        out[r_]["w"] = out[r_]["acc"] = True
      elif f.startswith(("wp.tile_store", "wp.tile_atomic")) and n.args and root(n.args[0]) in formals:
        out[root(n.args[0])]["w"] = out[root(n.args[0])]["plain"] = True
      else:
        for a in n.args:
          r_ = root(a) if isinstance(a, (ast.Name, ast.Subscript)) else None
          if r_ in formals and not f.startswith("wp.atomic_"):
            out[r_]["r"] = True
            if not r_.endswith("_in") and not f.startswith(("wp.tile_load", "wp.")):
              out[r_]["w"] = out[r_]["plain"] = True
    elif isinstance(n, ast.Subscript) and isinstance(n.ctx, ast.Load) and root(n) in formals:
      out[root(n)]["r"] = True
  return out
