"""Kernel census: every @wp.kernel in /repo (module level, or nested in a factory / public
function), its closure specialisations, and the classification of its formals against the
field specs of types.py (naming convention `X_in/_out` <-> Data.X, `opt_X` <-> Option.X ...).
New or renamed kernels are in scope by default."""

from __future__ import annotations

import ast
import itertools

import z3

from . import extract
from .consts import enum_namespace
from .contracts import Run
from .sym import SOME, Opaque, Unsupported

# closure variables of kernels nested in plain public functions (not annotated factories)
EXTRA_CLOSURES = {
  "reset": [None, SOME],
  "active": [None, SOME],
}

SKIP_MODULES = {"types", "warp_util", "io_jax", "benchmark"}


def all_kernels(modules=None):
  out = []
  for mod in modules or extract.all_module_names():
    if mod in SKIP_MODULES:
      continue
    try:
      mi = extract.load_module(mod)
    except SyntaxError:
      continue
    for q, fi in mi.funcs.items():
      if fi.kind == "kernel":
        out.append(fi)
  return out


def free_names(info):
  """names loaded in the kernel body that are neither parameters nor assigned locally"""
  node = info.node
  params = {a.arg for a in node.args.args}
  assigned = set()
  loaded = set()
  for n in ast.walk(node):
    if isinstance(n, ast.Name):
      if isinstance(n.ctx, ast.Store):
        assigned.add(n.id)
      else:
        loaded.add(n.id)
  return loaded - params - assigned


def closure_vars(info):
  """free names that resolve to parameters/locals of an enclosing host function"""
  out = {}
  p = info.parent
  fn = free_names(info)
  while p is not None:
    pnode = p.node
    pparams = {a.arg: a for a in pnode.args.args}
    plocals = set()
    for n in ast.walk(pnode):
      if isinstance(n, ast.Name) and isinstance(n.ctx, ast.Store):
        plocals.add(n.id)
    for name in fn:
      if name in out:
        continue
      if name in pparams:
        out[name] = ("param", p, pparams[name])
      elif name in plocals and name not in p.nested:
        out[name] = ("local", p, None)
    p = p.parent
  return out


def _domain(kind, p, arg, name):
  ns = enum_namespace()
  if name in EXTRA_CLOSURES:
    return EXTRA_CLOSURES[name]
  if kind == "param" and arg.annotation is not None:
    ann = ast.unparse(arg.annotation)
    if ann == "bool":
      return [False, True]
    if ann == "int":
      return [z3.Int(f"closure.{name}")]
    t = ann.split(".")[-1]
    if hasattr(ns, t) and isinstance(getattr(ns, t), type):
      return list(getattr(ns, t))
    return [Opaque(f"closure:{ann}")]
  if kind == "local":
    # local of the enclosing function (e.g. a bool computed from flags): try both booleans,
    # name-based guess; ints stay symbolic
    if name.startswith(("is_", "has_", "flg_", "use_", "enable", "sleep_", "warn")) or name.endswith(("_enabled", "_sparse")):
      return [False, True]
    return [z3.Int(f"closure.{name}")]
  return [Opaque("closure:?")]


def _factory_param_domains(parent):
  names, doms = [], []
  for a in parent.node.args.args:
    names.append(a.arg)
    doms.append(_domain("param", parent, a, a.arg))
  return names, doms


def _run_factory(parent, params):
  """execute the factory body (host python) with the given parameter values and return the
  variables visible to the kernel it builds (locals derived from parameters, nested funcs)"""
  from .hostexec import HostExec
  from .sym import Frame

  hx = HostExec()
  hx.raises = []
  hx.opaque_calls = []
  fr = Frame(parent)
  fr.env = dict(params)
  hx.exec_block(parent.node.body, fr)
  return {k: v for k, v in fr.env.items() if not k.startswith("$")}


def specialisations(info, limit=64):
  cv = closure_vars(info)
  if not cv:
    return [{}]
  parent = info.parent
  if parent is not None and parent.kind == "host" and parent.parent is None and all(v[1] is parent for v in cv.values()):
    if all(a.annotation is not None for a in parent.node.args.args) and any(v[0] == "local" for v in cv.values()):
      # true factory whose kernel uses locals computed from the parameters: run the factory
      names, doms = _factory_param_domains(parent)
      if not any(isinstance(x, Opaque) for d in doms for x in d):
        out = []
        try:
          for combo in list(itertools.product(*doms))[:limit]:
            params = dict(zip(names, combo))
            env = _run_factory(parent, params)
            cl = {k: env[k] for k in cv if k in env}
            cl["$label"] = ",".join(f"{k}={_lab(v)}" for k, v in sorted(params.items()))
            out.append(cl)
          return out
        except Exception:
          pass
  names = sorted(cv)
  doms = [_domain(cv[n][0], cv[n][1], cv[n][2], n) for n in names]
  combos = list(itertools.product(*doms))
  if len(combos) > limit:
    combos = combos[:limit]
  return [dict(zip(names, c)) for c in combos]


def _lab(v):
  if v is SOME:
    return "set"
  if isinstance(v, z3.ExprRef):
    return "sym"
  if isinstance(v, Opaque):
    return "opaque"
  return str(getattr(v, "name", v))


def spec_label(closure):
  if "$label" in closure:
    return closure["$label"]
  return ",".join(f"{k}={_lab(v)}" for k, v in sorted(closure.items())) or "-"


# --------------------------------------------------------------------------- formals

_SPECS = {}


def _specs():
  if not _SPECS:
    for cls in ("Model", "Data", "Option", "Statistic", "Contact", "Constraint"):
      _SPECS[cls] = extract.dataclass_specs(cls)
  return _SPECS


def classify_formal(name):
  """-> (owner class, field, dims) or None. dims: tuple of spec dims ('nworld', '*', 'nv', 3, ...)"""
  S = _specs()
  stem = name
  for suf in ("_in", "_out"):
    if stem.endswith(suf):
      stem = stem[: -len(suf)]
      break
  cands = []
  if name in S["Model"] and S["Model"][name][0] == "array":
    return ("Model", name, S["Model"][name][1])
  if stem.startswith("opt_") and stem[4:] in S["Option"] and S["Option"][stem[4:]][0] == "array":
    return ("Option", stem[4:], S["Option"][stem[4:]][1])
  if stem.startswith("stat_") and stem[5:] in S["Statistic"] and S["Statistic"][stem[5:]][0] == "array":
    return ("Statistic", stem[5:], S["Statistic"][stem[5:]][1])
  if stem.startswith("contact_") and stem[8:] in S["Contact"]:
    return ("Contact", stem[8:], S["Contact"][stem[8:]][1])
  if stem.startswith("efc_") and stem[4:] in S["Constraint"]:
    return ("Constraint", stem[4:], S["Constraint"][stem[4:]][1])
  if stem in S["Data"] and S["Data"][stem][0] == "array":
    return ("Data", stem, S["Data"][stem][1])
  if stem in S["Model"] and S["Model"][stem][0] == "array":
    return ("Model", stem, S["Model"][stem][1])
  return None


def run_kernel(info, closure, **kw):
  return Run(info.key, closure=closure, **kw)
