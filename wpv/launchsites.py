"""Static resolution of every wp.launch / wp.launch_tiled site in /repo: which kernel is
launched (through factories and local aliases), with which closure arguments, launch
dimension and formal -> actual binding. The callee is checked against what the caller
passes, not against its parameter names."""

from __future__ import annotations

import ast
from dataclasses import dataclass, field

from . import extract


@dataclass
class Site:
  host: str  # key of the launching host function
  lineno: int
  kernel: str | None  # key of the kernel, None if unresolved
  closure: dict  # factory parameter -> actual expression (source text)
  dim: str
  binding: dict  # formal -> actual expression (source text)
  tiled: bool = False
  note: str = ""
  n_actuals: int = 0


def _kernel_of_factory(fi):
  """the kernel a factory returns: the nested @wp.kernel named in its return statement"""
  ks = [n for n in fi.nested.values() if n.kind == "kernel"]
  ret = None
  for n in ast.walk(fi.node):
    if isinstance(n, ast.Return) and isinstance(n.value, ast.Name) and n.value.id in fi.nested:
      ret = fi.nested[n.value.id]
  if ret is not None and ret.kind == "kernel":
    return ret
  if len(ks) == 1:
    return ks[0]
  return None


def _resolve_callable(module, host_fi, expr, depth=0):
  """-> list of (kernel FuncInfo, closure dict) candidates for a launch's kernel expression"""
  if depth > 4:
    return []
  if isinstance(expr, ast.Call):
    f = expr.func
    target = None
    if isinstance(f, ast.Name):
      p = host_fi
      while p is not None and target is None:
        if f.id in p.nested:
          target = p.nested[f.id]
        p = p.parent
      if target is None:
        r = extract.resolve_symbol(module, f.id)
        if r and r[0] == "func":
          target = r[1]
    elif isinstance(f, ast.Attribute) and isinstance(f.value, ast.Name):
      r = extract.resolve_symbol(module, f.value.id)
      if r and r[0] == "module":
        r2 = extract.resolve_symbol(r[1], f.attr)
        if r2 and r2[0] == "func":
          target = r2[1]
    if target is None:
      return []
    if target.kind == "kernel":
      return [(target, {})]
    k = _kernel_of_factory(target)
    if k is None:
      return []
    params = [a.arg for a in target.node.args.args]
    closure = {}
    for p, a in zip(params, expr.args):
      closure[p] = ast.unparse(a)
    for kw in expr.keywords:
      closure[kw.arg] = ast.unparse(kw.value)
    return [(k, closure)]
  if isinstance(expr, ast.Name):
    p = host_fi
    while p is not None:
      if expr.id in p.nested and p.nested[expr.id].kind == "kernel":
        return [(p.nested[expr.id], {})]
      p = p.parent
    # local alias: every assignment `name = <expr>` in the host function
    out = []
    p = host_fi
    while p is not None:
      for n in ast.walk(p.node):
        if isinstance(n, ast.Assign) and any(isinstance(t, ast.Name) and t.id == expr.id for t in n.targets):
          out.extend(_resolve_callable(module, p, n.value, depth + 1))
      if out:
        return out
      p = p.parent
    r = extract.resolve_symbol(module, expr.id)
    if r and r[0] == "func" and r[1].kind == "kernel":
      return [(r[1], {})]
    return []
  if isinstance(expr, ast.Attribute) and isinstance(expr.value, ast.Name):
    r = extract.resolve_symbol(module, expr.value.id)
    if r and r[0] == "module":
      r2 = extract.resolve_symbol(r[1], expr.attr)
      if r2 and r2[0] == "func" and r2[1].kind == "kernel":
        return [(r2[1], {})]
    return []
  if isinstance(expr, ast.IfExp):
    return _resolve_callable(module, host_fi, expr.body, depth + 1) + _resolve_callable(module, host_fi, expr.orelse, depth + 1)
  return []


def _list_elts(module, host_fi, e, depth=0):
  if e is None:
    return []
  if isinstance(e, (ast.List, ast.Tuple)):
    return list(e.elts)
  if isinstance(e, ast.BinOp) and isinstance(e.op, ast.Add):
    a = _list_elts(module, host_fi, e.left, depth)
    b = _list_elts(module, host_fi, e.right, depth)
    if a is None or b is None:
      return None
    return a + b
  if isinstance(e, ast.Name) and depth < 3:
    cands = []
    for n in ast.walk(host_fi.node):
      if isinstance(n, ast.Assign) and any(isinstance(t, ast.Name) and t.id == e.id for t in n.targets):
        cands.append(n.value)
    if len(cands) == 1:
      return _list_elts(module, host_fi, cands[0], depth + 1)
  return None


_SITES = None


def all_sites():
  global _SITES
  if _SITES is not None:
    return _SITES
  sites = []
  for mod in extract.all_module_names():
    try:
      mi = extract.load_module(mod)
    except SyntaxError:
      continue
    for q, fi in mi.funcs.items():
      if fi.kind != "host":
        continue
      # only launches lexically in this function (not in nested defs)
      stack = list(fi.node.body)
      while stack:
        n = stack.pop()
        if isinstance(n, (ast.FunctionDef, ast.ClassDef, ast.Lambda)):
          continue
        if isinstance(n, ast.Call) and ast.unparse(n.func) in ("wp.launch", "wp.launch_tiled"):
          sites.extend(_site(mod, fi, n))
        stack.extend(ast.iter_child_nodes(n))
  _SITES = sites
  return sites


def _site(mod, fi, call):
  tiled = ast.unparse(call.func).endswith("tiled")
  args = list(call.args)
  kws = {k.arg: k.value for k in call.keywords}
  kexpr = kws.get("kernel", args[0] if args else None)
  dim_e = kws.get("dim", args[1] if len(args) > 1 else None)
  in_e = kws.get("inputs", args[2] if len(args) > 2 else None)
  out_e = kws.get("outputs", args[3] if len(args) > 3 else None)
  ins = _list_elts(mod, fi, in_e)
  outs = _list_elts(mod, fi, out_e)
  cands = _resolve_callable(mod, fi, kexpr) if kexpr is not None else []
  dim = ast.unparse(dim_e) if dim_e is not None else ""
  if not cands:
    return [Site(fi.key, call.lineno, None, {}, dim, {}, tiled, note=f"kernel expression not resolved: {ast.unparse(kexpr)[:60] if kexpr else '?'}")]
  out = []
  for k, closure in cands:
    note = ""
    binding = {}
    n_act = -1
    if ins is None or outs is None:
      note = "inputs/outputs not a list literal"
    else:
      actuals = [ast.unparse(x) for x in ins + outs]
      n_act = len(actuals)
      formals = [a.arg for a in k.node.args.args]
      if len(formals) != len(actuals):
        note = f"arity mismatch: {len(actuals)} actuals for {len(formals)} formals"
      binding = dict(zip(formals, actuals))
    out.append(Site(fi.key, call.lineno, k.key, closure, dim, binding, tiled, note, n_act))
  return out


_CALLS = {}


def host_callees(key):
  """host functions of /repo called (lexically) from host function `key`, incl. functions
  passed by name as keyword arguments (wp.capture_while(..., while_body=f))"""
  if key in _CALLS:
    return _CALLS[key]
  fi = extract.get_func(key)
  out = []

  def resolve(e):
    if isinstance(e, ast.Name):
      p = fi
      while p is not None:
        if e.id in p.nested:
          return p.nested[e.id]
        p = p.parent
      r = extract.resolve_symbol(fi.module, e.id)
      if r and r[0] == "func":
        return r[1]
    elif isinstance(e, ast.Attribute) and isinstance(e.value, ast.Name):
      r = extract.resolve_symbol(fi.module, e.value.id)
      if r and r[0] == "module":
        r2 = extract.resolve_symbol(r[1], e.attr)
        if r2 and r2[0] == "func":
          return r2[1]
    return None

  stack = list(fi.node.body)
  while stack:
    n = stack.pop()
    if isinstance(n, (ast.FunctionDef, ast.ClassDef, ast.Lambda)):
      continue
    if isinstance(n, ast.Call):
      t = resolve(n.func)
      if t is not None and t.kind == "host" and t.key not in out:
        out.append(t.key)
      for kw in n.keywords:
        t = resolve(kw.value)
        if t is not None and t.kind == "host" and t.key not in out:
          out.append(t.key)
      for a in n.args:
        t = resolve(a) if isinstance(a, (ast.Name, ast.Attribute)) else None
        if t is not None and t.kind == "host" and t.key not in out and not isinstance(n.func, ast.Attribute):
          out.append(t.key)
    stack.extend(ast.iter_child_nodes(n))
  _CALLS[key] = out
  return out


def reachable_hosts(root):
  seen = []
  todo = [root]
  while todo:
    k = todo.pop()
    if k in seen:
      continue
    seen.append(k)
    try:
      todo.extend(host_callees(k))
    except KeyError:
      pass
  return seen


def reachable_sites(root):
  hs = set(reachable_hosts(root))
  return [s for s in all_sites() if s.host in hs]


def _subst_text(expr, env):
  """replace a leading identifier of `expr` that is a host parameter by the caller's actual"""
  import re

  m = re.match(r"^([A-Za-z_][A-Za-z_0-9]*)(.*)$", expr, re.S)
  if not m:
    return expr
  head, rest = m.group(1), m.group(2)
  if head in env and (rest == "" or rest[0] in ".[("):
    return env[head] + rest
  return expr


def bound_sites(root, max_depth=8):
  """launch sites reachable from `root`, with actuals expressed in terms of root's own names:
  parameters of intermediate host functions are substituted by what their callers pass
  (textual, one identifier at the head of the expression). A local alias `x = <expr>` of an
  intermediate function is substituted when it is assigned exactly once."""
  out = []

  def local_aliases(fi):
    cnt = {}
    val = {}
    for n in ast.walk(fi.node):
      if isinstance(n, ast.Assign) and len(n.targets) == 1 and isinstance(n.targets[0], ast.Name):
        cnt[n.targets[0].id] = cnt.get(n.targets[0].id, 0) + 1
        val[n.targets[0].id] = ast.unparse(n.value)
    return {k: v for k, v in val.items() if cnt[k] == 1}

  def visit(key, env, depth, chain):
    if depth > max_depth or key in chain:
      return
    try:
      fi = extract.get_func(key)
    except KeyError:
      return
    env = dict(env)
    for k, v in local_aliases(fi).items():
      if k not in env:
        env[k] = _subst_text(v, env)
    for s in all_sites():
      if s.host == key:
        b = {f: _subst_text(a, env) for f, a in s.binding.items()}
        c = {f: _subst_text(a, env) for f, a in s.closure.items()}
        out.append(Site(s.host, s.lineno, s.kernel, c, _subst_text(s.dim, env), b, s.tiled, " <- ".join(chain + [key]), s.n_actuals))
    stack = list(fi.node.body)
    while stack:
      n = stack.pop()
      if isinstance(n, (ast.FunctionDef, ast.ClassDef, ast.Lambda)):
        continue
      if isinstance(n, ast.Call):
        tgt, via_kw = None, None
        cands = [(n.func, None)] + [(kw.value, kw.arg) for kw in n.keywords if isinstance(kw.value, (ast.Name, ast.Attribute))]
        for e, kwname in cands:
          t = _resolve_host(fi, e)
          if t is not None:
            tgt, via_kw = t, kwname
            break
        if tgt is not None:
          params = [a.arg for a in tgt.node.args.args]
          cenv = {}
          if via_kw is None:
            for p, a in zip(params, n.args):
              cenv[p] = _subst_text(ast.unparse(a), env)
          for kw in n.keywords:
            if kw.arg in params:
              cenv[kw.arg] = _subst_text(ast.unparse(kw.value), env)
          visit(tgt.key, cenv, depth + 1, chain + [key])
      stack.extend(ast.iter_child_nodes(n))

  visit(root, {}, 0, [])
  return out


def _resolve_host(fi, e):
  t = None
  if isinstance(e, ast.Name):
    p = fi
    while p is not None and t is None:
      if e.id in p.nested:
        t = p.nested[e.id]
      p = p.parent
    if t is None:
      r = extract.resolve_symbol(fi.module, e.id)
      if r and r[0] == "func":
        t = r[1]
  elif isinstance(e, ast.Attribute) and isinstance(e.value, ast.Name):
    r = extract.resolve_symbol(fi.module, e.value.id)
    if r and r[0] == "module":
      r2 = extract.resolve_symbol(r[1], e.attr)
      if r2 and r2[0] == "func":
        t = r2[1]
  if t is not None and t.kind == "host":
    return t
  return None


def site_aliases(site):
  """formals of a site that receive textually the same array actual: formal -> first such formal"""
  first = {}
  out = {}
  for f, a in site.binding.items():
    if not a or a[0].isdigit() or a in ("True", "False", "None"):
      continue
    if "." not in a and "[" not in a and not a.isidentifier():
      continue
    if a in first:
      out[f] = first[a]
    else:
      first[a] = f
  return out


def sites_of_kernel(key):
  return [s for s in all_sites() if s.kernel == key]


def closure_shape_facts(key):
  """facts `closure.X == F.shape[k]` that hold at EVERY launch site of kernel `key`:
  the factory argument for X is textually `<A>.shape[k]` and formal F is bound to `<A>`.
  -> list of (closure name, formal, k)"""
  sites = sites_of_kernel(key)
  if not sites:
    return []
  facts = None
  for s in sites:
    cur = set()
    inv = {}
    for f, a in s.binding.items():
      inv.setdefault(a, f)
    for cn, ce in s.closure.items():
      if ".shape[" in ce and ce.endswith("]"):
        base, _, rest = ce.rpartition(".shape[")
        try:
          k = int(rest[:-1])
        except ValueError:
          continue
        if base in inv:
          cur.add((cn, inv[base], k))
    facts = cur if facts is None else (facts & cur)
  return sorted(facts or [])
