"""./check <Cxx> --replay <file>: re-run one failed obligation named by a replay file.

A replay file (written by runner.run_property for every VIOLATION) names the failed obligation, the
group of obligations it was generated in, and carries the verifier's output (back end, counter-model).
Replaying it
  1. regenerates that group's obligations from /repo's *current* source and discharges them again; the
     named obligation must fail again for the violation to count as reproduced at the level of the
     verification condition;
  2. when the file carries a native witness (key replay.native_cmd: a command driving the real
     mujoco_warp API under /venv/bin/python, produced by the property's replay hook or referenced by a
     known finding), runs it and reports its exit status (1 = the real code misbehaves on that input).

exit 0 obligation holds now | 1 obligation fails again | 2 undecided / obligation no longer generated | 3 crash
"""

from __future__ import annotations

import json
import os
import subprocess
import sys
import traceback

HERE = os.path.dirname(os.path.dirname(os.path.abspath(__file__)))


def run_native(cmd, timeout=900):
  """cmd: list, first element may be the literal 'VENV_PYTHON'"""
  cmd = ["/venv/bin/python" if c == "VENV_PYTHON" else c for c in cmd]
  env = dict(os.environ)
  env["PYTHONPATH"] = os.environ.get("WPV_REPO", "/repo")  # the tree the verification conditions came from
  try:
    p = subprocess.run(cmd, cwd=HERE, capture_output=True, text=True, timeout=timeout, env=env)
    return p.returncode, (p.stdout + p.stderr)[-4000:]
  except subprocess.TimeoutExpired:
    return None, "native replay timed out"


def replay_file(pid, path):
  from wpv import runner

  p = path if os.path.isabs(path) else os.path.join(HERE, path)
  try:
    with open(p) as f:
      rf = json.load(f)
  except Exception as e:
    print(f"CHECKER-CRASH cannot read replay file {path}: {e}")
    return 3
  pid = pid or rf.get("property")
  if rf.get("property") and rf["property"] != pid:
    print(f"CHECKER-CRASH replay file is for property {rf['property']}, not {pid}")
    return 3
  oid = rf["failed_obligation"]
  print(f"replay property={pid} obligation={oid}")
  print(f"  goal: {str(rf.get('goal'))[:300]}")
  vo = rf.get("verifier_output") or {}
  print(f"  recorded verifier output: {vo.get('status')} by {vo.get('backend')}; counter-model with {len(vo.get('model') or {})} assignments")
  only = [rf["group"]] if rf.get("group") else None
  try:
    _, results = runner.collect_results(pid, rf.get("tier", "quick"), int(rf.get("seed", 0) or 0), None, only_groups=only)
  except Exception:
    print(f"CHECKER-CRASH property={pid}\n{traceback.format_exc()}")
    return 3
  hits = [r for r in results if r["oid"] == oid]
  rc = 2
  done_native = None
  if not hits:
    gen = [r for r in results if r["status"] in ("crash", "undecided") and r["oid"].endswith(("#generation", "#anchor"))]
    for r in gen:
      print(f"  {r['status']}: {r['oid']}: {str(r.get('reason'))[-400:]}")
    print(f"RESULT obligation={oid} not generated from the current source (contract anchor gone or obligation renamed): undecided")
  else:
    r = hits[0]
    st = r["status"]
    if st == "violated":
      rc = 1
      m = r.get("model") or {}
      print(f"RESULT obligation={oid} fails again on the current source (counter-model by {r.get('backend')}, {len(m)} assignments)")
      for k in sorted(m)[:40]:
        print(f"    {k} = {m[k]}")
      done_native = r.get("replay") if (r.get("replay") or {}).get("native_cmd") else None
    elif st == "discharged":
      rc = 0
      print(f"RESULT obligation={oid} is discharged on the current source ({r.get('backend')}): the violation does not reproduce")
    elif st == "crash":
      rc = 3
      print(f"CHECKER-CRASH obligation={oid} {str(r.get('reason'))[-800:]}")
    else:
      print(f"RESULT obligation={oid} {st}: {r.get('reason')}")
  nat = (rf.get("replay") or {}).get("native_cmd")
  if done_native is not None:
    nat, nrc, out = done_native["native_cmd"], done_native.get("exit"), done_native.get("output", "")
  elif nat:
    nrc, out = run_native(nat)
  if nat:
    print(f"native replay on the real code: {' '.join(nat)} -> exit {nrc} ({'the real code violates the property on this input' if nrc == 1 else 'not reproduced on this input'})")
    for line in str(out).strip().splitlines()[-25:]:
      print("    " + line)
    if nrc == 1 and rc != 3:
      rc = 1
  return rc
