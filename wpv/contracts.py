"""Contract layer: run a function from /repo under symbolic parameters and state
obligations over its pre/post state. Contract expressions are python syntax evaluated by
the same translator as the code (sym.Exec.eval), plus: old(e), implies(a,b), iff(a,b)."""

from __future__ import annotations

import ast
from dataclasses import dataclass, field

import z3

from . import extract
from .sym import (
  SOME, ArrRef, Exec, Frame, FuncRef, ModRef, Opaque, StructVal, TArr, TScalar, TStruct, TVec, TypeCtor, Unsupported, Vec,
  T_BOOL, T_FLOAT, T_INT, is_conc, lift, tobool, vec_type_by_name, zand, zb, znot, zor, simp_bool,
)  # fmt: skip


@dataclass
class Obligation:
  oid: str
  assumptions: list
  goal: object
  func: str = ""
  kind: str = "post"
  meta: dict = field(default_factory=dict)
  expect: str = "valid"  # 'valid' | 'refutable' (vacuity canary: must NOT be provable)


def parse_type(ann, module, ex=None):
  """annotation ast -> TScalar | TVec | TArr | TStruct"""
  s = ast.unparse(ann)
  if s in ("int", "wp.int32", "wp.int64", "wp.uint32", "wp.uint8", "wp.int8", "wp.uint64", "wp.int16"):
    return T_INT
  if s in ("float", "wp.float32", "wp.float64"):
    return T_FLOAT
  if s in ("bool", "wp.bool"):
    return T_BOOL
  if isinstance(ann, ast.Subscript):
    b = ast.unparse(ann.value)
    nd = {"wp.array": 1, "wp.array1d": 1, "wp.array2d": 2, "wp.array3d": 3, "wp.array4d": 4}.get(b)
    if nd is not None:
      return TArr(nd, parse_type(ann.slice, module))
  if isinstance(ann, ast.Call):
    b = ast.unparse(ann.func)
    if b in ("wp.array", "wp.array1d", "wp.array2d", "wp.array3d", "wp.array4d", "array"):
      nd = {"wp.array": 1, "wp.array1d": 1, "wp.array2d": 2, "wp.array3d": 3, "wp.array4d": 4, "array": 1}[b]
      dt = None
      for k in ann.keywords:
        if k.arg == "ndim":
          nd = k.value.value
        if k.arg == "dtype":
          dt = k.value
      if b == "array":
        nd = len(ann.args) - 1
        dt = ann.args[-1]
      if dt is None:
        raise Unsupported(f"array annotation {s}")
      return TArr(nd, parse_type(dt, module))
  name = s.split(".")[-1]
  vt = vec_type_by_name(name)
  if vt is not None:
    return vt
  r = extract.resolve_symbol(module, name) if "." not in s else None
  if s.startswith("types."):
    r = extract.resolve_symbol("types", name)
  if r and r[0] == "class":
    return TStruct(r[2].name, r[1])
  if r and r[0] == "assign":
    return parse_type(r[2], r[1])
  if "." in s and not s.startswith("wp."):
    modalias = s.split(".")[0]
    rr = extract.resolve_symbol(module, modalias)
    if rr and rr[0] == "module":
      r2 = extract.resolve_symbol(rr[1], name)
      if r2 and r2[0] == "class":
        return TStruct(r2[2].name, r2[1])
  raise Unsupported(f"type annotation {s}")


def fresh_struct(ex, base, t: TStruct):
  r = extract.resolve_symbol(t.module, t.name)
  sv = StructVal(t.name)
  for fname, ann in extract.struct_fields(t.module, r[2]).items():
    ft = parse_type(ann, t.module)
    sv.fields[fname] = fresh_value(ex, f"{base}.{fname}", ft)
  return sv


def fresh_value(ex, base, t):
  if isinstance(t, TStruct):
    return fresh_struct(ex, base, t)
  if isinstance(t, TArr):
    ref = ex.new_array(base, t.ndim, t.elem)
    for d in range(t.ndim):
      ex.assume(ex.shape_sym(ref, d) >= 0)
    return ref
  return ex.fresh_of_type(base, t)


class Run:
  """One symbolic execution of a repo function with fresh parameters."""

  def __init__(self, key, closure=None, invariants=None, counters=(), args=None, contracts=None, unroll_limit=40, pre=None, fast=False, setup=None, arg_types=None):
    self.key = key
    self.info = extract.get_func(key)
    self.ex = Exec()
    self.ex.fast = fast
    self.ex.unroll_limit = unroll_limit
    self.ex.counter_arrays = set(counters)
    if invariants:
      for (k, o), v in invariants.items():
        self.ex.invariants[(k, o)] = v
    if contracts:
      self.ex.contracts.update(contracts)
    node = self.info.node
    self.fr = Frame(self.info, closure=closure or {})
    self.params = {}
    args = dict(args or {})
    alias =args.pop("$alias", {}) if isinstance(args, dict) else {}
    for a in node.args.args:
      if a.arg in args:
        v = args[a.arg]
      elif a.arg in alias and alias[a.arg] in self.params:
        v = self.params[alias[a.arg]]  # the launch site passes the same array for both formals
      elif arg_types and a.arg in arg_types:
        v = fresh_value(self.ex, a.arg, arg_types[a.arg])
      else:
        if a.annotation is None:
          raise Unsupported(f"parameter {a.arg} of {key} has no annotation")
        t = parse_type(a.annotation, self.info.module)
        v = fresh_value(self.ex, a.arg, t)
      self.params[a.arg] = v
      self.fr.env[a.arg] = v
    self.requires = []  # named preconditions (z3)
    self.qvars = {}
    # thread ids exist before the body runs, so that preconditions can mention tid0, tid1, ...
    for n in ast.walk(node):
      if isinstance(n, ast.Assign) and isinstance(n.value, ast.Call) and ast.unparse(n.value.func) == "wp.tid":
        tgt = n.targets[0]
        self.ex.make_tids(len(tgt.elts) if isinstance(tgt, ast.Tuple) else 1)
        break
    if setup is not None:
      setup(self)  # ghost functions / axioms that invariants evaluated during execution may need
    if pre:
      for text in pre:
        self.require(text)
    self.ex.exec_block(node.body, self.fr)
    self.result = self.fr.env.get("$retval")
    self.returned = self.fr.env.get("$ret", False)

  # -- building blocks for contracts
  def var(self, name, kind="int"):
    v = self.ex.sym(name, kind)
    self.qvars[name] = v
    return v

  def require(self, text_or_term):
    t = self.term(text_or_term) if isinstance(text_or_term, str) else text_or_term
    self.requires.append(zb(t))
    self.ex.assume(zb(t))

  def term(self, text, extra=None):
    env = dict(self.qvars)
    if extra:
      env.update(extra)
    return eval_contract_expr(self.ex, self.fr, text, env, params=self.params, result=getattr(self, "result", None))

  def arr_post(self, name):
    ref = self.params[name]
    f = self.ex.st.arrs[ref.aid]
    return lambda *idx: f(tuple(idx))

  def arr_pre(self, name):
    ref = self.params[name]
    f = self.ex.st.arrs0[ref.aid]
    return lambda *idx: f(tuple(idx))

  def assumptions(self):
    return list(self.ex.assumes)

  def obligation(self, oid, goal, extra_assume=(), kind="post", expect="valid", meta=None):
    g = self.term(goal) if isinstance(goal, str) else goal
    ass = self.assumptions() + [self.term(a) if isinstance(a, str) else a for a in extra_assume]
    m = {"function": self.key, "source_hash": self.info.source_hash}
    if isinstance(goal, str):
      m["goal"] = goal
    if meta:
      m.update(meta)
    return Obligation(oid, [zb(a) for a in ass if a is not True], zb(g), func=self.key, kind=kind, meta=m, expect=expect)

  def side_obligations(self, prefix=""):
    out = []
    for name, hyp, goal, *rest in self.ex.side:
      # background facts known when the obligation arose (not facts assumed later, e.g. about the
      # state after the loop)
      base = list(self.ex.assumes[: rest[0]]) if rest else self.assumptions()
      out.append(
        Obligation(prefix + name, base + [zb(h) for h in hyp if h is not True], zb(goal), func=self.key, kind="loop-invariant", meta={"function": self.key, "source_hash": self.info.source_hash})
      )
    return out


def eval_contract_expr(ex, fr, text, extra_env, params=None, result=None):
  tree = ast.parse(text.strip(), mode="eval").body
  env = {k: v for k, v in fr.env.items() if not k.startswith("$")}
  for i, t in enumerate(ex.tids):
    env[f"tid{i}"] = t
    env[f"dim{i}"] = ex.dims[i]
  if params:
    env.update(params)
  env.update(getattr(ex, "ghosts", {}))
  env.update(extra_env)
  if result is not None:
    env["result"] = result
  cfr = Frame(fr.info, closure=fr.closure)
  cfr.env = env
  n = len(ex.st.log)
  saved_mode = ex.contract_mode
  saved_pc = ex.st.pc
  ex.contract_mode = True
  ex.st.pc = []
  try:
    return ex.eval(tree, cfr)
  finally:
    ex.contract_mode = saved_mode
    ex.st.pc = saved_pc
    del ex.st.log[n:]


class FuncContract:
  """Modular call: at a call of `key` the caller proves `requires` (a side obligation under its own
  path condition) and may assume `ensures` about a FRESH result -- the callee's body is not looked at.
  The same requires/ensures texts are proved against the callee's body by `verify()` (so a change
  inside the callee is noticed exactly when it breaks the callee's own contract).
  Texts are python expressions over the callee's parameter names and `result`."""

  def __init__(self, key, requires=(), ensures=(), defs=None, ret=None, ghosts=None, witness=None):
    self.key = key
    # ghosts: existentially quantified result variables of the ensures clauses (name -> kind). The caller gets a
    # fresh symbol per call; verify() proves the clauses for the WITNESS terms given in `witness` (texts over the
    # callee's parameters and locals at its exit).
    self.ghosts = dict(ghosts or {})
    self.witness = dict(witness or {})
    self.param_types = {}  # generic (Any) parameters: the vector type the contract is stated and verified for
    self.ret = ret  # result type name(s) for functions without a return annotation (checked by verify(): the body must return that shape)
    self.requires = list(requires)
    self.ensures = list(ensures)
    self.info = extract.get_func(key)
    self.defs = defs or {}
    self.uses = 0
    self.call_args = []  # actual argument values, in call order
    self.results = []  # fresh result values handed to callers, in call order (so that a caller's obligations can name them)

  def _bind(self, ex, args, kw):
    node = self.info.node
    params = [a.arg for a in node.args.args]
    vals = dict(zip(params, args))
    vals.update(kw)
    if len(vals) != len(params):
      raise Unsupported(f"arity mismatch calling contract {self.key}")
    return vals

  def _ret_type(self):
    r = self.info.node.returns
    if r is None and self.ret is not None:
      ts = [vec_type_by_name(n) or {"float": T_FLOAT, "int": T_INT, "bool": T_BOOL}[n] for n in (self.ret if isinstance(self.ret, (list, tuple)) else [self.ret])]
      return ts if isinstance(self.ret, (list, tuple)) else ts[0]
    if r is None:
      raise Unsupported(f"contracted function {self.key} has no return annotation")
    if isinstance(r, ast.Subscript) and ast.unparse(r.value).split(".")[-1] == "Tuple":
      elts = r.slice.elts if isinstance(r.slice, ast.Tuple) else [r.slice]
      return [parse_type(x, self.info.module) for x in elts]
    return parse_type(r, self.info.module)

  def apply(self, ex, args, kw, fr, e):
    vals = self._bind(ex, args, kw)
    self.uses += 1
    n = next(ex.fresh_ctr)
    cfr = Frame(self.info, closure={})
    cfr.env = dict(vals)
    pc = [h for h in ex.st.pc if h is not True] + [ex.active(fr)]
    caller = fr.info.key if fr.info is not None else "?"
    for i, text in enumerate(self.requires):
      g = tobool(eval_contract_expr(ex, cfr, text, {}))
      ex.side.append((f"{caller}@call:{self.key.split(':')[-1]}@{getattr(e, 'lineno', 0)}#requires.{i}", [h for h in pc if h is not True], zb(g), len(ex.assumes)))
    rt = self._ret_type()
    base = f"{self.key.split(':')[-1]}!ret{n}"
    if isinstance(rt, list):
      res = tuple(ex.fresh_of_type(f"{base}.{i}", t) for i, t in enumerate(rt))
    else:
      res = ex.fresh_of_type(base, rt)
    head = zb(zand(*pc)) if pc else True
    genv = {g: ex.fresh(f"{base}.{g}", kind) for g, kind in self.ghosts.items()}
    for text in self.ensures:
      f = tobool(eval_contract_expr(ex, cfr, text, genv, result=res))
      ex.assume(zb(f) if head is True else z3.Implies(head, zb(f)))
    self.results.append(res)
    self.call_args.append(vals)
    return res

  def verify(self, prefix=None, contracts=None, timeout_ms=None, pre=None, lemmas=(), chain=False, cases=None):
    """obligations: the callee's body satisfies its own contract.
    lemmas: algebraic identities (texts over the parameters / result) that are each proved VALID on their own,
    from no hypotheses at all, and then handed to the proofs of the ensures clauses (the nonlinear solver does
    not find e.g. Lagrange's identity by itself)."""
    R = Run(self.key, contracts=contracts or {}, pre=list(self.requires) + list(pre or []), arg_types={k: vec_type_by_name(v) for k, v in self.param_types.items()})
    name = prefix or self.key.split(":")[-1]
    out = [R.obligation(f"{name}#canary", z3.BoolVal(False), expect="refutable", kind="vacuity-canary")]
    for g in self.ghosts:
      R.qvars[g] = R.term(self.witness[g])
    lem = []
    for i, text in enumerate(lemmas):
      t = zb(tobool(R.term(text)))
      lem.append(t)
      out.append(Obligation(f"{name}#lemma.{i}", [], t, func=self.key, kind="lemma", meta={"function": self.key, "source_hash": R.info.source_hash, "goal": "identity (valid without hypotheses): " + text[:160]}))
    proved = []
    for i, text in enumerate(self.ensures):
      m = {"goal": text}
      if timeout_ms:
        m["timeout_ms"] = timeout_ms
      rp = _native_func_replay(self, R, text)
      if rp is not None:
        m["replay"] = rp
      # chain: clause i may use clauses 0..i-1 (each of which is itself an obligation of this run)
      # cases: an exhaustive case split (checked: the disjunction of the cases is itself an obligation); each clause is
      # proved once per case, which lets if-then-else terms on the case condition collapse before the solver runs
      if cases:
        for ci, ctext in enumerate(cases):
          out.append(R.obligation(f"{name}#ensures.{i}[case{ci}]", text, meta=dict(m, case=ctext), kind="contract", extra_assume=[ctext] + lem + (proved if chain else [])))
      else:
        out.append(R.obligation(f"{name}#ensures.{i}", text, meta=m, kind="contract", extra_assume=lem + (proved if chain else [])))
      proved.append(zb(tobool(R.term(text))))
    if cases:
      out.append(R.obligation(f"{name}#cases_exhaustive", z3.Or(*[zb(tobool(R.term(c))) for c in cases]), kind="contract", meta={"goal": "the case split is exhaustive"}))
    out += R.side_obligations(name + "#")
    return out


_SIMPLE = {"float": "float", "int": "int", "bool": "bool", "wp.vec3": "vec3", "wp.vec3f": "vec3", "wp.quat": "quat", "wp.mat33": "mat33", "wp.vec2": "vec2", "wp.vec4": "vec4", "vec3": "vec3", "quat": "quat", "mat33": "mat33"}


def _num(m, t):
  """value of z3 term t in model m as a python float"""
  v = m.eval(t, model_completion=True)
  if z3.is_true(v):
    return 1.0
  if z3.is_false(v):
    return 0.0
  if z3.is_int_value(v):
    return float(v.as_long())
  if z3.is_rational_value(v):
    return float(v.numerator_as_long()) / float(v.denominator_as_long())
  if z3.is_algebraic_value(v):
    a = v.approx(20)
    return float(a.numerator_as_long()) / float(a.denominator_as_long())
  raise ValueError(f"no numeric value for {t}")


def _native_func_replay(contract, R, clause):
  """-> callable(model, obligation) that replays a counter-model of `clause` on the real function (scenarios/
  replay_func.py under the repo's interpreter), or None when the function's signature is outside what that script
  runs (array parameters, ghost results)"""
  import json
  import os

  if contract.ghosts:
    return None
  node = contract.info.node
  ptypes = []
  for a in node.args.args:
    ann = contract.param_types.get(a.arg) or (ast.unparse(a.annotation) if a.annotation is not None else "")
    t = _SIMPLE.get(ann)
    if t is None:
      return None
    ptypes.append((a.arg, t))
  if contract.ret is not None:
    rts = list(contract.ret) if isinstance(contract.ret, (list, tuple)) else [contract.ret]
  elif node.returns is not None:
    r = node.returns
    if isinstance(r, ast.Subscript) and ast.unparse(r.value).split(".")[-1] == "Tuple":
      elts = r.slice.elts if isinstance(r.slice, ast.Tuple) else [r.slice]
      rts = [_SIMPLE.get(ast.unparse(x)) for x in elts]
    else:
      rts = [_SIMPLE.get(ast.unparse(r))]
  else:
    return None
  if any(t is None for t in rts):
    return None
  module, func = contract.key.split(":")
  if "." in func:
    return None
  requires = list(contract.requires)

  def run(model, ob):
    if model is None:
      return {"reproduced": None, "note": "no model object"}
    from . import replay as rp

    params = []
    for name, t in ptypes:
      v = R.params[name]
      comps = v.comps if isinstance(v, Vec) else [v]
      params.append([name, t, [_num(model, lift(c, "float") if t not in ("int", "bool") else lift(c)) for c in comps]])
    here = os.path.dirname(os.path.dirname(os.path.abspath(__file__)))
    os.makedirs(os.path.join(here, "replay"), exist_ok=True)
    safe = "".join(ch if ch.isalnum() or ch in "._-" else "_" for ch in ob.oid)[:100]
    path = os.path.join("replay", f"func_{safe}.input.json")
    with open(os.path.join(here, path), "w") as f:
      json.dump({"module": module, "func": func, "params": params, "ret": rts, "requires": requires, "clause": clause}, f, indent=1)
    cmd = ["VENV_PYTHON", "scenarios/replay_func.py", path]
    rc, out = rp.run_native(cmd)
    return {"native_cmd": cmd, "exit": rc, "reproduced": rc == 1, "output": out[-2500:], "meaning": "exit 1: the real function, run by Warp on the counter-model's inputs, violates the clause; 0: it does not on these inputs; 2: inputs not executable / preconditions not met numerically"}

  return run
