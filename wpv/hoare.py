"""Hoare-style verification-condition generator with full (quantified) loop invariants, for the sequential
integer kernels whose property is about what a LOOP computes (flood fill, prefix scans): DESIGN.md 12.13.

The kernel body is the real FunctionDef node extracted from /repo on every run (wpv.extract). Contracts are sidecar:
a precondition, one invariant per loop (keyed by loop ordinal in source order) and a postcondition, each a python
callable over a view of the symbolic state that builds a z3 formula (quantifiers allowed).

Rule for `while c: B` / `for i in range(lo, hi): B` with invariant I:
  init         path -> I(state)                               at loop entry
  consecution  I(h) and c(h) and path(B) -> I(state after B)  h = entry state with everything B assigns / stores havocked
                                                              (`continue` ends an iteration the same way)
  exit         the code after the loop runs from  h and I(h) and not c(h),  and from every `break` state
Arrays are z3 arrays (nested for several dimensions), so stores are exact; parameters bound to the same device array at
the launch site (`aliases`) share one array. No paths are merged (each `if` forks), every obligation is
  path condition -> formula.
Subset: int / bool scalars, int arrays, + - * // % comparisons and/or/not, min/max, wp.tid(), range loops, while, if,
break, continue, bare return. Anything else raises Unsupported (reported as undecided, never as a violation).
Assumes: device ints are mathematical integers (T1); a loop variable is not read after its loop.
"""

from __future__ import annotations

import ast
import itertools

import z3

from . import extract
from .contracts import Obligation
from .sym import Unsupported

I = z3.IntSort()
_ctr = itertools.count()


def _arr_sort(nd):
  s = I
  for _ in range(nd):
    s = z3.ArraySort(I, s)
  return s


def _sel(a, idx):
  for i in idx:
    a = z3.Select(a, i)
  return a


def _sto(a, idx, v):
  if len(idx) == 1:
    return z3.Store(a, idx[0], v)
  return z3.Store(a, idx[0], _sto(z3.Select(a, idx[0]), idx[1:], v))


class State:
  """scalars: name -> z3 term; arrays: root name -> z3 array term; pc: list of z3 Bool"""

  def __init__(self, env, arrs, pc, root):
    self.env, self.arrs, self.pc, self.root = env, arrs, pc, root

  def copy(self):
    return State(dict(self.env), dict(self.arrs), list(self.pc), self.root)

  # --- view used by contract callables
  def __getitem__(self, name):
    return self.env[name]

  def a(self, name, *idx):
    return _sel(self.arrs[self.root[name]], [z3.IntVal(i) if isinstance(i, int) else i for i in idx])


def _int(x):
  if isinstance(x, bool):
    return z3.IntVal(int(x))
  if isinstance(x, int):
    return z3.IntVal(x)
  if z3.is_bool(x):
    return z3.If(x, 1, 0)
  return x


def _bool(x):
  if isinstance(x, bool):
    return z3.BoolVal(x)
  if isinstance(x, int):
    return z3.BoolVal(x != 0)
  if z3.is_bool(x):
    return x
  return x != 0


class Hoare:
  def __init__(self, key, pre=None, post=None, invariants=None, aliases=(), consts=None, witnesses=None, meta=None):
    self.key = key
    self.info = extract.get_func(key)
    self.pre, self.post = pre, post
    self.invariants = invariants or {}
    self.consts = consts or {}
    self.witnesses = witnesses or {}  # loop ordinal -> callable(S, E) -> constraints pinning a state of the loop body (vacuity canary)
    self._wit = []
    self.meta = meta or {}
    self.pruned = 0
    self.obs = []
    self.loops = [n for n in ast.walk(self.info.node) if isinstance(n, (ast.For, ast.While))]
    self.loops.sort(key=lambda n: (n.lineno, n.col_offset))
    # parameters
    self.nd = {}
    env, arrs, root = {}, {}, {}
    for grp in aliases:
      for n in grp:
        root[n] = grp[0]
    for a in self.info.node.args.args:
      ann = ast.unparse(a.annotation) if a.annotation is not None else ""
      if ann.startswith("wp.array"):
        nd = {"wp.array": 1, "wp.array1d": 1, "wp.array2d": 2, "wp.array3d": 3, "wp.array4d": 4}[ann.split("[")[0]]
        if "int" not in ann.split("[", 1)[1] and "bool" not in ann:
          raise Unsupported(f"hoare: non-integer array {a.arg}: {ann}")
        self.nd[a.arg] = nd
        r = root.setdefault(a.arg, a.arg)
        if r not in arrs:
          arrs[r] = z3.Const(r, _arr_sort(nd))
      elif ann in ("int", "bool", "wp.int32"):
        env[a.arg] = z3.Int(a.arg)
      else:
        raise Unsupported(f"hoare: parameter {a.arg}: {ann}")
    self.init = State(env, arrs, [], root)
    self.ntid = 0

  # ---------------------------------------------------------------- obligations
  def _ob(self, oid, st, goal, kind, lineno=None):
    self.obs.append(Obligation(f"{self.tag}#{oid}", list(st.pc), goal, func=self.key, kind=kind, meta=dict(self.meta, **{"function": self.key, "source_hash": self.info.source_hash, "quantified": True, "line": lineno})))

  def run(self, tag=None):
    self.tag = tag or self.key.split(":")[1]
    st = self.init.copy()
    if self.pre is not None:
      st.pc.append(self.pre(st))
    self.entry = st.copy()
    outs = self.block(self.info.node.body, st)
    n = 0
    for kind, s in outs:
      if kind in ("break", "continue"):
        raise Unsupported("hoare: break/continue outside a loop")
      if self.post is not None:
        self._ob(f"post.exit{n}", s, self.post(s, self.entry), "post")
      n += 1
    self.nexits = n
    return self.obs

  def canary(self, hints=None):
    """the precondition plus the path to the first loop must be satisfiable (vacuity)"""
    return Obligation(f"{self.tag}#canary", list(self.entry.pc), z3.BoolVal(False), func=self.key, kind="canary", expect="refutable", meta={"function": self.key, "quantified": True, "sat_hints": [list(hints)] if hints else []})

  # ---------------------------------------------------------------- expressions
  def ev(self, e, st):
    if isinstance(e, ast.Constant):
      if isinstance(e.value, (bool, int)):
        return e.value
      raise Unsupported(f"hoare: constant {e.value!r}")
    if isinstance(e, ast.Name):
      if e.id in st.env:
        return st.env[e.id]
      if e.id in self.consts:
        return self.consts[e.id]
      raise Unsupported(f"hoare: name {e.id}")
    if isinstance(e, ast.BinOp):
      l, r = _int(self.ev(e.left, st)), _int(self.ev(e.right, st))
      if isinstance(e.op, ast.Add):
        return l + r
      if isinstance(e.op, ast.Sub):
        return l - r
      if isinstance(e.op, ast.Mult):
        return l * r
      raise Unsupported(f"hoare: operator {type(e.op).__name__}")
    if isinstance(e, ast.UnaryOp):
      v = self.ev(e.operand, st)
      if isinstance(e.op, ast.Not):
        return z3.Not(_bool(v))
      if isinstance(e.op, ast.USub):
        return -_int(v)
      raise Unsupported("hoare: unary")
    if isinstance(e, ast.BoolOp):
      vs = [_bool(self.ev(v, st)) for v in e.values]
      return z3.And(*vs) if isinstance(e.op, ast.And) else z3.Or(*vs)
    if isinstance(e, ast.Compare):
      terms = [_int(self.ev(x, st)) for x in [e.left] + e.comparators]
      cs = []
      for op, l, r in zip(e.ops, terms, terms[1:]):
        cs.append({ast.Eq: l == r, ast.NotEq: l != r, ast.Lt: l < r, ast.LtE: l <= r, ast.Gt: l > r, ast.GtE: l >= r}[type(op)])
      return z3.And(*cs) if len(cs) > 1 else cs[0]
    if isinstance(e, ast.Subscript):
      if isinstance(e.value, ast.Name) and e.value.id in self.nd:
        idx = e.slice.elts if isinstance(e.slice, ast.Tuple) else [e.slice]
        if len(idx) != self.nd[e.value.id]:
          raise Unsupported("hoare: partial index")
        return st.a(e.value.id, *[_int(self.ev(i, st)) for i in idx])
      raise Unsupported(f"hoare: subscript {ast.unparse(e)}")
    if isinstance(e, ast.Call):
      f = ast.unparse(e.func)
      if f == "wp.tid":
        return st.env["tid!0"]
      if f in ("int", "wp.int32") and len(e.args) == 1:
        return _int(self.ev(e.args[0], st))
      if f in ("min", "wp.min", "max", "wp.max") and len(e.args) == 2:
        a, b = _int(self.ev(e.args[0], st)), _int(self.ev(e.args[1], st))
        return z3.If(a <= b, a, b) if "min" in f else z3.If(a >= b, a, b)
      raise Unsupported(f"hoare: call {f}")
    raise Unsupported(f"hoare: expression {type(e).__name__}")

  # ---------------------------------------------------------------- statements
  def block(self, stmts, st):
    live = [st]
    done = []
    for s in stmts:
      nxt = []
      for x in live:
        for kind, y in self.stmt(s, x):
          (nxt if kind == "normal" else done).append((kind, y) if kind != "normal" else y)
      live = nxt
      if not live:
        break
    return [("normal", x) for x in live] + done

  def stmt(self, s, st):
    if isinstance(s, ast.Expr):
      if isinstance(s.value, ast.Constant):
        return [("normal", st)]
      raise Unsupported(f"hoare: expression statement {ast.unparse(s)[:40]}")
    if isinstance(s, ast.Pass):
      return [("normal", st)]
    if isinstance(s, (ast.Assign, ast.AnnAssign, ast.AugAssign)):
      if isinstance(s, ast.Assign):
        if len(s.targets) != 1:
          raise Unsupported("hoare: multiple targets")
        tgt, val = s.targets[0], s.value
      elif isinstance(s, ast.AnnAssign):
        tgt, val = s.target, s.value
      else:
        tgt, val = s.target, ast.BinOp(left=s.target, op=s.op, right=s.value)
      st = st.copy()
      if isinstance(tgt, ast.Tuple) and isinstance(val, ast.Call) and ast.unparse(val.func) == "wp.tid":
        for k, t in enumerate(tgt.elts):
          st.env[t.id] = st.env.setdefault(f"tid!{k}", z3.Int(f"tid{k}"))
        return [("normal", st)]
      if isinstance(val, ast.Call) and ast.unparse(val.func) == "wp.tid":
        st.env.setdefault("tid!0", z3.Int("tid0"))
      v = self.ev(val, st)
      if isinstance(tgt, ast.Name):
        st.env[tgt.id] = v if z3.is_bool(v) or isinstance(v, bool) else _int(v)
        return [("normal", st)]
      if isinstance(tgt, ast.Subscript) and isinstance(tgt.value, ast.Name) and tgt.value.id in self.nd:
        idx = tgt.slice.elts if isinstance(tgt.slice, ast.Tuple) else [tgt.slice]
        r = st.root[tgt.value.id]
        st.arrs[r] = _sto(st.arrs[r], [_int(self.ev(i, st)) for i in idx], _int(v))
        return [("normal", st)]
      raise Unsupported(f"hoare: assignment target {ast.unparse(tgt)}")
    if isinstance(s, ast.If):
      c = _bool(self.ev(s.test, st))
      a, b = st.copy(), st.copy()
      a.pc.append(c)
      b.pc.append(z3.Not(c))
      out = []
      if self._feasible(a):
        out += self.block(s.body, a)
      if self._feasible(b):
        out += self.block(s.orelse, b) if s.orelse else [("normal", b)]
      return out
    if isinstance(s, ast.Continue):
      return [("continue", st)]
    if isinstance(s, ast.Break):
      return [("break", st)]
    if isinstance(s, ast.Return):
      if s.value is not None:
        raise Unsupported("hoare: return value")
      return [("return", st)]
    if isinstance(s, (ast.For, ast.While)):
      return self.loop(s, st)
    raise Unsupported(f"hoare: statement {type(s).__name__}")

  def _feasible(self, st):
    """a branch is dropped only when its QUANTIFIER-FREE path facts alone are contradictory (a weaker set than the path
    condition, so `unsat` here means the path cannot be taken)"""
    sol = z3.Solver()
    sol.set("timeout", 2000)
    for c in st.pc:
      for d in c.children() if z3.is_and(c) else [c]:
        if not _has_q(d):
          sol.add(d)
    if sol.check() == z3.unsat:
      self.pruned += 1
      return False
    return True

  def _modified(self, body):
    names, arrs = set(), set()
    for n in itertools.chain.from_iterable(ast.walk(b) for b in body):
      tg = []
      if isinstance(n, ast.Assign):
        tg = n.targets
      elif isinstance(n, (ast.AugAssign, ast.AnnAssign)):
        tg = [n.target]
      elif isinstance(n, ast.For):
        tg = [n.target]
      for t in tg:
        for u in t.elts if isinstance(t, ast.Tuple) else [t]:
          if isinstance(u, ast.Name):
            names.add(u.id)
          elif isinstance(u, ast.Subscript) and isinstance(u.value, ast.Name):
            arrs.add(u.value.id)
    return names, arrs

  def loop(self, s, st):
    k = self.loops.index(s)
    inv = self.invariants.get(k)
    if inv is None:
      raise Unsupported(f"hoare: loop {k} (line {s.lineno}) has no invariant")
    if s.orelse:
      raise Unsupported("hoare: loop else")
    tag = f"loop{k}"
    st = st.copy()
    if isinstance(s, ast.For):
      if not (isinstance(s.iter, ast.Call) and ast.unparse(s.iter.func) == "range" and isinstance(s.target, ast.Name) and 1 <= len(s.iter.args) <= 2):
        raise Unsupported("hoare: for over something other than range(lo, hi)")
      a = [_int(self.ev(x, st)) for x in s.iter.args]
      lo, hi = (z3.IntVal(0), a[0]) if len(a) == 1 else a
      var = s.target.id
      st.env[var] = lo
      rng = lambda x: z3.And(lo <= x[var], z3.Or(x[var] <= hi, x[var] == lo))
      guard = lambda x: x[var] < hi
    else:
      var = None
      rng = lambda x: z3.BoolVal(True)
      guard = lambda x: _bool(self.ev(s.test, x))
    entry = st
    self._ob(f"{tag}.init", st, z3.And(rng(st), inv(st, entry)), "loop-invariant", s.lineno)
    names, arrs = self._modified(s.body)
    if var is not None:
      names.add(var)
    h = st.copy()
    n = next(_ctr)
    for v in names:
      if v in h.env or v == var:
        old = h.env.get(v)
        h.env[v] = z3.Bool(f"{v}!{n}") if (old is not None and z3.is_bool(old)) else z3.Int(f"{v}!{n}")
      # names first assigned inside the body are local to an iteration
    for a_ in {st.root[x] for x in arrs if x in st.root}:
      h.arrs[a_] = z3.Const(f"{a_}!{n}", h.arrs[a_].sort())
    h.pc.append(rng(h))
    h.pc.append(inv(h, entry))
    body = h.copy()
    body.pc.append(guard(h))
    wit = self.witnesses.get(k)
    saved = self._wit
    if wit is not None:
      self._wit = saved + list(wit(body, entry))
      self.obs.append(Obligation(f"{self.tag}#{tag}.body_reachable", list(body.pc), z3.BoolVal(False), func=self.key, kind="canary", expect="refutable", meta={"function": self.key, "quantified": True, "sat_hints": [list(self._wit)], "goal": "vacuity: invariant, loop condition and path condition are satisfiable together"}))
    outs = []
    m = 0
    for kind, y in self.block(s.body, body):
      if kind in ("normal", "continue"):
        y = y.copy()
        if var is not None:
          y.env[var] = y.env[var] + 1
        # locals of the iteration are dropped
        self._ob(f"{tag}.preserved.path{m}", y, z3.And(rng(y), inv(y, entry)), "loop-invariant", s.lineno)
        m += 1
      elif kind == "break":
        outs.append(("normal", self._leave(y, h, var)))
      else:
        outs.append((kind, y))
    self._wit = saved
    ex = h.copy()
    ex.pc.append(z3.Not(guard(h)))
    outs.append(("normal", self._leave(ex, h, var)))
    return outs

  def _leave(self, y, h, var):
    y = y.copy()
    # names born inside the body do not survive the loop (Warp scoping); the loop variable is dropped too
    for v in list(y.env):
      if v not in h.env or v == var:
        del y.env[v]
    return y


def _has_q(t, seen=None):
  seen = set() if seen is None else seen
  if t.get_id() in seen:
    return False
  seen.add(t.get_id())
  if z3.is_quantifier(t):
    return True
  return any(_has_q(c, seen) for c in t.children())


def forall(vs, body, pats=None):
  return z3.ForAll(vs, body, patterns=pats or [])
