"""Loop rules of the wpv executor (DESIGN.md 2.2):

1. constant trip count: unrolled (exact);
2. symbolic trip count: the body is executed ONCE for a symbolic iteration counter k with
   0 <= k < trip. Carried scalars of the form `x += c` (c loop-invariant) are affine in k;
   other carried scalars become uninterpreted functions of k (havoc), optionally constrained
   by sidecar invariants (which generate init/consecution obligations). Stores are turned
   into closed-form (quantifier-free) summaries by solving the store index for k; the side
   conditions (no loop-carried memory dependence, no cross-iteration overwrite in the wrong
   order) are discharged by z3 on the spot, otherwise the array is havocked after the loop.
   All in-body accesses stay in the access log with k universally quantified, which is what
   the safety schemas need.
"""

from __future__ import annotations

import ast

import z3

from .sym import (
  Access, ArrRef, StructVal, Unsupported, Vec, is_conc, ite, kind_of, lift, simp_bool, tobool, zand, znot, zor, zb,
  _copy_env,
)  # fmt: skip


def loop_ordinal(info, node):
  cache = getattr(info, "_loop_ord", None)
  if cache is None:
    cache = {}
    n = 0
    for x in ast.walk(info.node):
      if isinstance(x, (ast.For, ast.While)):
        cache[id(x)] = n
        n += 1
    info._loop_ord = cache
  return cache.get(id(node), -1)


def assigned_names(stmts):
  out = []

  def tgt(t):
    if isinstance(t, ast.Name):
      out.append(t.id)
    elif isinstance(t, (ast.Tuple, ast.List)):
      for e in t.elts:
        tgt(e)
    elif isinstance(t, (ast.Subscript, ast.Attribute)):
      tgt(t.value)

  for s in stmts:
    for n in ast.walk(s):
      if isinstance(n, ast.Assign):
        for t in n.targets:
          tgt(t)
      elif isinstance(n, (ast.AugAssign, ast.AnnAssign)):
        tgt(n.target)
      elif isinstance(n, ast.For):
        tgt(n.target)
  seen = []
  for x in out:
    if x not in seen:
      seen.append(x)
  return seen


def has_node(stmts, types, stop_at_loops=False):
  def rec(n):
    if isinstance(n, types):
      return True
    if stop_at_loops and isinstance(n, (ast.For, ast.While)):
      # break/continue inside an inner loop do not concern us; returns do
      return any(rec2(c) for c in ast.iter_child_nodes(n))
    return any(rec(c) for c in ast.iter_child_nodes(n))

  def rec2(n):
    if isinstance(n, ast.Return) and ast.Return in (types if isinstance(types, tuple) else (types,)):
      return True
    return any(rec2(c) for c in ast.iter_child_nodes(n))

  return any(rec(s) for s in stmts)


def names_in(expr):
  return {n.id for n in ast.walk(expr) if isinstance(n, ast.Name)}


def affine_increments(body, name, assigned):
  """If every assignment to `name` in body is a top-level `name += c` / `name -= c` /
  `name = name + c` with c free of assigned names, return list of (sign, c_expr); else None."""
  incs = []
  for s in body:
    top = None
    if isinstance(s, ast.AugAssign) and isinstance(s.target, ast.Name) and s.target.id == name:
      if isinstance(s.op, ast.Add):
        top = (1, s.value)
      elif isinstance(s.op, ast.Sub):
        top = (-1, s.value)
      else:
        return None
    elif isinstance(s, ast.Assign) and any(isinstance(t, ast.Name) and t.id == name for t in s.targets):
      v = s.value
      if (
        isinstance(v, ast.BinOp)
        and isinstance(v.op, ast.Add)
        and isinstance(v.left, ast.Name)
        and v.left.id == name
        and len(s.targets) == 1
      ):
        top = (1, v.right)
      else:
        return None
    if top is not None:
      if names_in(top[1]) & set(assigned):
        return None
      incs.append(top)
      continue
    # any nested assignment to name disqualifies
    if name in assigned_names([s]):
      return None
  return incs or None


def havoc_value(ex, name, v, k, tag):
  """value of a carried variable at the start of iteration k: uninterpreted function of k"""
  if isinstance(v, Vec):
    return Vec(v.shape, [havoc_value(ex, f"{name}.{i}", c, k, tag) for i, c in enumerate(v.comps)], v.kind, v.tag)
  if isinstance(v, StructVal):
    out = StructVal(v.tname)
    for f, x in v.fields.items():
      out.fields[f] = havoc_value(ex, f"{name}.{f}", x, k, tag)
    return out
  if isinstance(v, tuple):
    return tuple(havoc_value(ex, f"{name}.{i}", c, k, tag) for i, c in enumerate(v))
  if v is None or isinstance(v, ArrRef) or not (is_conc(v) or isinstance(v, z3.ExprRef)):
    return v  # arrays, row views, function references: not data that a loop can change symbolically
  kd = kind_of(v)
  srt = {"int": z3.IntSort(), "float": z3.RealSort(), "bool": z3.BoolSort()}[kd]
  if k is None:
    return ex.fresh(f"{name}@{tag}", kd)
  f = z3.Function(f"{name}@{tag}", z3.IntSort(), srt)
  return f(k)


def subst(v, pairs):
  if isinstance(v, z3.ExprRef):
    return z3.substitute(v, *pairs)
  if isinstance(v, Vec):
    return Vec(v.shape, [subst(c, pairs) for c in v.comps], v.kind, v.tag)
  if isinstance(v, tuple):
    return tuple(subst(c, pairs) for c in v)
  return v


def free_consts(e):
  out = set()
  seen = set()

  def rec(t):
    if t.get_id() in seen:
      return
    seen.add(t.get_id())
    if z3.is_const(t) and t.decl().kind() == z3.Z3_OP_UNINTERPRETED:
      out.add(t.decl().name())
    for c in t.children():
      rec(c)

  if isinstance(e, z3.ExprRef):
    rec(e)
  return out


def quick_valid(ex, goal, extra=(), timeout_ms=1500):
  if goal is True:
    return True
  if goal is False:
    return False
  s = z3.Solver()
  s.set("timeout", timeout_ms)
  for a in ex.assumes:
    s.add(a)
  for a in extra:
    if a is not True:
      s.add(zb(a))
  s.add(z3.Not(goal))
  return s.check() == z3.unsat


def carried_dependences(ex, body_log, counters, skip=()):
  """arrays read at a cell that a DIFFERENT iteration/thread (any counter differs) may write"""
  new_dirty = set()
  pairs = [(k, z3.Int(k.decl().name() + "'")) for k in counters]
  differ = zor(*[a != b for a, b in pairs])
  writes_by_arr = {}
  for w in body_log:
    if w.kind in ("w", "atomic"):
      writes_by_arr.setdefault(w.arr.aid, []).append(w)
  for a in body_log:
    if a.kind != "r" or a.arr.aid in skip or a.arr.aid in new_dirty:
      continue
    for w in writes_by_arr.get(a.arr.aid, ()):
      gw = z3.substitute(zb(w.guard), *pairs)
      iw = [z3.substitute(lift(i), *pairs) for i in w.idx]
      same = zand(*[lift(x) == y for x, y in zip(a.idx, iw)])
      if not quick_valid(ex, z3.Not(z3.And(zb(a.guard), gw, zb(same), zb(differ)))):
        new_dirty.add(a.arr.aid)
        break
  return new_dirty


def _conjuncts(g):
  if not isinstance(g, z3.ExprRef):
    return []
  if z3.is_and(g):
    out = []
    for c in g.children():
      out.extend(_conjuncts(c))
    return out
  return [g]


def solve_witness(idx, elim, fresh_idx, guard=None, inverses=None):
  """for each var in elim find dim d with idx[d] = base + c*var (c concrete != 0, base free of
  elim vars); return {var: witness term over fresh_idx} or None"""
  wit = {}
  used = set()
  elim_names = {v.decl().name() for v in elim}
  for v in elim:
    found = False
    for d, e in enumerate(idx):
      if d in used or not isinstance(e, z3.ExprRef):
        continue
      if v.decl().name() not in free_consts(e):
        continue
      x = fresh_idx[d]
      # index through a model table with a declared ghost inverse: idx = f(arg(v)) -> arg = finv(x)
      if inverses and z3.is_app(e) and e.decl().kind() == z3.Z3_OP_UNINTERPRETED and e.decl().name() in inverses and e.num_args() >= 1:
        inv = inverses[e.decl().name()]
        args = e.children()
        # last argument carries the counter (leading ones are e.g. world-modulo indices)
        lead = args[:-1]
        if not any(free_consts(a) & elim_names for a in lead):
          x = inv(*lead, x)
          e = args[-1]
      e1 = z3.simplify(z3.substitute(e, (v, z3.IntVal(1))) - z3.substitute(e, (v, z3.IntVal(0))))
      if not z3.is_int_value(e1):
        continue
      c = e1.as_long()
      if c == 0:
        continue
      base = z3.simplify(z3.substitute(e, (v, z3.IntVal(0))))
      if free_consts(base) & elim_names:
        continue
      # check affinity: e == base + c*v
      s = z3.Solver()
      s.set("timeout", 1000)
      s.add(e != base + c * v)
      if s.check() != z3.unsat:
        continue
      wit[v] = (x - base) / c if c != 1 else (x - base)
      used.add(d)
      found = True
      break
    if not found and guard is not None:
      # one-point rule: the guard pins the counter (e.g. `if worldid == 0`)
      for c in _conjuncts(guard):
        if z3.is_eq(c):
          a, b = c.children()
          for x, y in ((a, b), (b, a)):
            if x.eq(v) and not (free_consts(y) & elim_names):
              wit[v] = y
              found = True
              break
        if found:
          break
    if not found:
      return None
  return wit


def summarise_stores(ex, body_log, arrs_before, outer_bound, fr_key, lineno, parallel=False):
  """apply closed-form summaries of the stores in body_log on top of arrs_before"""
  st = ex.st
  st.arrs = dict(arrs_before)
  by_arr = {}
  for a in body_log:
    by_arr.setdefault(a.arr.aid, []).append(a)
  outer_names = {b.decl().name() for b in outer_bound}
  for aid, accs in by_arr.items():
    writes = [a for a in accs if a.kind in ("w", "atomic")]
    if not writes:
      continue
    ref = writes[0].arr
    if any(w.op == "tile" for w in writes):
      ex.havoc_array(ref, "tile store (content not modelled)")
      continue
    elim_all = []
    for a in writes:
      for b in a.bound:
        if b.decl().name() not in outer_names and all(not b.eq(x) for x in elim_all):
          elim_all.append(b)
    ok = True
    why = ""
    # side conditions between store statements (w1 precedes w2 in program order)
    par_names = {t.decl().name() for t in (ex.tids if parallel else [])}
    for i, w1 in enumerate(writes):
      for w2 in writes[i:]:
        if len(_full_idx(w1)) != len(_full_idx(w2)):
          ok, why = False, "mixed component/whole stores"
          break
        el = [b for b in elim_all]
        p1 = [(b, z3.Int(b.decl().name() + "'a")) for b in el]
        p2 = [(b, z3.Int(b.decl().name() + "'b")) for b in el]
        n1 = [b.decl().name() for b in w1.bound]
        n2 = [b.decl().name() for b in w2.bound]
        bads = []
        par_idx = [j for j, b in enumerate(el) if b.decl().name() in par_names]
        if par_idx:
          benign = False
          if w1.kind == "atomic" and w2.kind == "atomic" and w1.op == w2.op and w1.op in ("add", "sub", "min", "max", "or", "and"):
            benign = True  # commutative atomics
          elif w1 is w2:
            eln = {b.decl().name() for b in el}
            try:
              vfree = free_consts(lift(w1.value)) if not isinstance(w1.value, (Vec, tuple)) and w1.value is not None else {"?"}
              if not (vfree & eln or "?" in vfree) and all(not (free_consts(lift(x)) & eln) for x in _full_idx(w1)):
                benign = True  # every thread stores the same value into the same cell
            except Unsupported:
              pass
          if not benign:
            bads.append(zor(*[p1[j][1] != p2[j][1] for j in par_idx]))
        seq_idx = [j for j, b in enumerate(el) if b.decl().name() not in par_names and b.decl().name() in n1 and b.decl().name() in n2]
        if seq_idx and w1 is not w2:
          # same thread, w1 executed at a lexicographically later iteration than w2
          eq_par = zand(*[p1[j][1] == p2[j][1] for j in par_idx])
          lex = False
          for pos in range(len(seq_idx) - 1, -1, -1):
            j = seq_idx[pos]
            lex = zor(p1[j][1] > p2[j][1], zand(p1[j][1] == p2[j][1], lex))
          bads.append(zand(eq_par, lex))
        bad = zor(*bads)
        if bad is False:
          continue
        g1 = subst(zb(w1.guard), p1)
        g2 = subst(zb(w2.guard), p2)
        same = zand(*[lift(subst(lift(x), p1)) == lift(subst(lift(y), p2)) for x, y in zip(_full_idx(w1), _full_idx(w2))])
        if not quick_valid(ex, z3.Not(z3.And(zb(g1), zb(g2), zb(same), zb(bad)))):
          ok, why = False, f"stores at lines {w1.lineno}/{w2.lineno} of different iterations/threads may overlap"
          break
      if not ok:
        break
    if ok:
      for w in writes:
        if w.guard is False:
          continue
        fidx = _full_idx(w)
        elim = [b for b in w.bound if b.decl().name() not in outer_names]
        fresh_idx = [z3.Int(f"x!{d}") for d in range(len(fidx))]
        wit = solve_witness([lift(i) for i in fidx], elim, fresh_idx, zb(w.guard), getattr(ex, 'inverses', None))
        if wit is None:
          ok, why = False, "store index not solvable for the loop counter"
          break
        _push_summary(ex, ref, w, fidx, elim, wit, fresh_idx)
    if not ok:
      ex.havoc_array(ref, f"{why} (loop at {fr_key}:{lineno})")


def _full_idx(w):
  vals = []
  if isinstance(w.arr.elem, type(None)):
    return tuple(w.idx)
  return tuple(w.idx) + tuple(w.comp)


def _push_summary(ex, ref, w, fidx, elim, wit, fresh_idx):
  import itertools

  from .sym import TVec

  prev_all = ex.st.arrs[ref.aid]
  ek = ref.elem.kind
  # expand whole-vector stores into component stores
  items = []
  if isinstance(ref.elem, TVec) and not w.comp:
    if not isinstance(w.value, Vec):
      ex.havoc_array(ref, "vector store of non-vector")
      return
    for cidx, c in zip(itertools.product(*[range(s) for s in ref.elem.shape]), w.value.comps):
      items.append((tuple(fidx) + cidx, c))
    fresh_idx = fresh_idx + [None] * len(ref.elem.shape)
  else:
    if isinstance(w.value, Vec):
      ex.havoc_array(ref, "vector value in scalar store")
      return
    items.append((tuple(fidx), w.value))
  for full, val in items:
    prev = ex.st.arrs[ref.aid]

    def f(idx, prev=prev, full=full, val=val, w=w, wit=wit, fresh_idx=fresh_idx, elim=elim):
      # instantiate witnesses at the queried index
      pairs_x = []
      for d, fx in enumerate(fresh_idx):
        if fx is not None:
          pairs_x.append((fx, lift(idx[d], "int")))
      pairs = [(v, z3.substitute(t, *pairs_x) if pairs_x else t) for v, t in wit.items()]
      g = subst(zb(w.guard), pairs) if pairs else zb(w.guard)
      conds = [g]
      for a, b in zip(idx, full):
        b2 = subst(lift(b, "int"), pairs) if pairs else lift(b, "int")
        if is_conc(a) and z3.is_int_value(b2) and a == b2.as_long():
          continue
        conds.append(lift(a, "int") == b2)
      v2 = subst(lift(val, ek), pairs) if pairs else lift(val, ek)
      return z3.If(z3.And(*conds), v2, prev(idx))

    ex.st.arrs[ref.aid] = f


def range_args(ex, s, fr):
  it = s.iter
  if not (isinstance(it, ast.Call) and ast.unparse(it.func) in ("range", "wp.range")):
    raise Unsupported(f"for over {ast.unparse(it)[:40]}")
  a = [ex.eval(x, fr) for x in it.args]
  if len(a) == 1:
    return 0, a[0], 1
  if len(a) == 2:
    return a[0], a[1], 1
  return a[0], a[1], a[2]


def exec_for(ex, s, fr):
  import enum

  start, stop, step = range_args(ex, s, fr)
  start, stop, step = [int(x) if isinstance(x, enum.Enum) else x for x in (start, stop, step)]
  if not isinstance(s.target, ast.Name):
    raise Unsupported("for target")
  var = s.target.id
  env = fr.env
  # isolate break/continue flags of this loop
  act = ex.active(fr)
  saved = {f: env.get(f, False) for f in ("$brk", "$cnt")}
  ex.st.pc.append(act)
  env["$brk"] = False
  env["$cnt"] = False
  try:
    if is_conc(start) and is_conc(stop) and is_conc(step) and len(range(start, stop, step)) <= ex.unroll_limit:
      for v in range(start, stop, step):
        env = fr.env
        env[var] = v
        env["$cnt"] = False
        ex.exec_block(s.body, fr)
        if fr.env.get("$brk") is True or fr.env.get("$ret") is True:
          break
    else:
      if not is_conc(step):
        # grid-stride style loop: a symbolic stride is assumed positive (python/warp reject 0)
        ex.assume(lift(step) >= 1)
      _symbolic_loop(ex, s, fr, var, start, stop, step)
  finally:
    ex.st.pc.pop()
    fr.env["$brk"] = saved["$brk"]
    fr.env["$cnt"] = saved["$cnt"]


def exec_while(ex, s, fr):
  act = ex.active(fr)
  saved = {f: fr.env.get(f, False) for f in ("$brk", "$cnt")}
  ex.st.pc.append(act)
  fr.env["$brk"] = False
  fr.env["$cnt"] = False
  try:
    # `while True:`-style loops and data-dependent loops: symbolic
    _symbolic_loop(ex, s, fr, None, None, None, None)
  finally:
    ex.st.pc.pop()
    fr.env["$brk"] = saved["$brk"]
    fr.env["$cnt"] = saved["$cnt"]


def _eval_inv(ex, fr, text, extra_env=None):
  from . import contracts

  return contracts.eval_contract_expr(ex, fr, text, extra_env or {})


def _symbolic_loop(ex, s, fr, var, start, stop, step):
  st = ex.st
  is_for = var is not None
  info = fr.info
  ordn = loop_ordinal(info, s)
  body = s.body
  assigned = assigned_names(body)
  carried = [n for n in assigned if n in fr.env and n != var]
  escapes = has_node(body, (ast.Break,), stop_at_loops=True) or has_node(body, (ast.Return,))
  has_ret = has_node(body, (ast.Return,))
  has_cont = has_node(body, (ast.Continue,), stop_at_loops=True)
  k = ex.fresh("k", "int")
  tag = f"L{ordn}!{next(ex.fresh_ctr)}"
  env0 = fr.env
  if is_for:
    ivar = lift(start) + k * step if not (is_conc(start) and start == 0 and is_conc(step) and step == 1) else k
    if not is_conc(step):
      rng = z3.And(k >= 0, lift(ivar) < lift(stop))
      trip = None
    elif step > 0:
      rng = z3.And(k >= 0, lift(ivar) < lift(stop))
      trip = z3.If(lift(stop) > lift(start), (lift(stop) - lift(start) + (step - 1)) / step, z3.IntVal(0))
    else:
      rng = z3.And(k >= 0, lift(ivar) > lift(stop))
      trip = z3.If(lift(stop) < lift(start), (lift(start) - lift(stop) + (-step - 1)) / (-step), z3.IntVal(0))
    trip = z3.simplify(trip) if trip is not None else None
  else:
    ivar = None
    rng = k >= 0
    trip = None
  affine = {}
  if is_for and not escapes and not has_cont and trip is not None:
    for n in carried:
      v0 = env0[n]
      if isinstance(v0, (Vec, StructVal, tuple)) or v0 is None:
        continue
      try:
        if kind_of(v0) != "int":
          continue
      except Unsupported:
        continue
      incs = affine_increments(body, n, assigned + [var])
      if incs is None:
        continue
      try:
        delta = 0
        for sign, ce in incs:
          c = ex.eval(ce, fr)
          if kind_of(c) != "int":
            raise Unsupported("non-int increment")
          delta = ex.ar.binop(ast.Add(), delta, c if sign > 0 else ex.ar.binop(ast.Sub(), 0, c))
        affine[n] = delta
      except Unsupported:
        continue
  spec = ex.invariants.get((info.key, ordn), [])
  if isinstance(spec, dict):
    invs = list(spec.get("inv", []))
    hints = list(spec.get("hints", []))
    gov = [fr.env[n] for n in spec.get("arrays", []) if isinstance(fr.env.get(n), ArrRef)]
    if len(gov) != len(spec.get("arrays", [])):
      raise Unsupported(f"invariant of {info.key}#loop{ordn} names arrays that are not in scope")
  else:
    invs = list(spec)
    hints = []
    gov = []
  gov_ids = {r.aid for r in gov}
  arrs_pre = dict(st.arrs)
  n_assumes_head = len(ex.assumes)  # background facts known before the loop (for initiation)
  n_assumes_body = n_assumes_head
  cond_start = True
  dirty = set()
  for _pass in range(4):
    log_start = len(st.log)
    side_start = len(ex.side)
    arrs_before = dict(st.arrs)
    envb = _copy_env(env0)
    for n in carried:
      if n in affine:
        envb[n] = ex.ar.binop(ast.Add(), env0[n], ex.ar.binop(ast.Mult(), affine[n], k))
      else:
        envb[n] = havoc_value(ex, n, env0[n], k, tag)
    if is_for:
      envb[var] = ivar
    envb["$brk"] = False
    envb["$cnt"] = False
    for aid in dirty:
      ex.havoc_array(st.meta[aid])
    for r in gov:
      ex.havoc_array(r)  # classic loop rule: arbitrary state at the loop head, constrained by the invariant
    fr.env = envb
    st.bound.append(k)
    st.pc.append(rng)
    inv_start = []
    try:
      # The invariant at the loop head is an ASSUMPTION about the (fresh) symbols that stand for
      # iteration k, not a path condition: it is recorded as the background fact
      # `reached-the-head(k) -> Inv(k)` so that it does not end up inside every store guard.
      head = zb(zand(*st.pc))
      for text in invs:
        f = tobool(_eval_inv(ex, fr, text, {"_k": k}))
        inv_start.append(f)
        ex.assume(z3.Implies(head, zb(f)))
      # hints: instances of definitions / axioms at the loop index (e.g. one unfolding of a
      # recursive ghost function). Each hint is itself an obligation (it must follow from the
      # hypotheses at the loop head), then it is available to the body and to consecution.
      for hi, text in enumerate(hints):
        f = tobool(_eval_inv(ex, fr, text, {"_k": k}))
        ex.side.append((f"{info.key}#loop{ordn}.hint{hi}", [h for h in list(st.pc) + inv_start if h is not True], zb(f), len(ex.assumes)))
        inv_start.append(f)
        ex.assume(z3.Implies(head, zb(f)))
      if not is_for:
        c = simp_bool(tobool(ex.eval(s.test, fr)))
        cond_start = c
        st.pc.append(c)
      try:
        ex.exec_block(body, fr)
      finally:
        if not is_for:
          st.pc.pop()
    finally:
      st.pc.pop()
      st.bound.pop()
    env_end = fr.env
    n_assumes_body = len(ex.assumes)  # + axioms instantiated while executing the body (sqrt, bit-or, ...)
    body_log = st.log[log_start:]
    # loop-carried memory dependences
    if getattr(ex, "fast", False):
      # index/guard schemas only: no solver calls; every array that is both read and written
      # in the body is treated as carrying a dependence (havocked for the body pass)
      wr = {a.arr.aid for a in body_log if a.kind != "r"}
      new_dirty = {a.arr.aid for a in body_log if a.kind == "r" and a.arr.aid in wr} - gov_ids
    else:
      new_dirty = carried_dependences(ex, body_log, [k], dirty | gov_ids) - gov_ids
    if new_dirty <= dirty:
      break
    dirty |= new_dirty
    # discard this pass
    del st.log[log_start:]
    del ex.side[side_start:]
    st.arrs = arrs_before
    fr.env = env0
  else:
    raise Unsupported("loop dependence analysis did not stabilise")

  # record how the thread can leave this loop early (used by the FLOW schema: a thread that serves
  # several worlds in one loop must not stop serving them because of one world's data)
  if getattr(fr.info, "kind", "") == "kernel":
    ex.__dict__.setdefault("loop_exits", []).append((fr.info.key, s.lineno, env_end.get("$ret", False), env_end.get("$brk", False)))

  # invariants: initiation + consecution obligations
  if invs:
    fr.env = env0
    ex.st.pc.append(True)
    arrs_now = st.arrs
    st.arrs = arrs_pre  # initiation is about the state before the first iteration
    try:
      for i, text in enumerate(invs):
        init_env = {"_k": z3.IntVal(0)}
        if is_for:
          saved_v = env0.get(var)
          env0[var] = start
        g = tobool(_eval_inv(ex, fr, text, init_env))
        if is_for:
          if saved_v is None:
            env0.pop(var, None)
          else:
            env0[var] = saved_v
        ex.side.append((f"{info.key}#loop{ordn}.inv{i}.init", list(st.pc), zb(g), n_assumes_head))
    finally:
      ex.st.pc.pop()
      st.arrs = arrs_now
    fr.env = env_end
    nxt = _copy_env(env_end)
    if is_for:
      nxt[var] = lift(ivar) + step
    fr.env = nxt
    cont_ok = znot(zor(env_end.get("$brk", False), env_end.get("$ret", False)))
    hyp = list(st.pc) + [rng] + inv_start + [cond_start]
    for i, text in enumerate(invs):
      g = tobool(_eval_inv(ex, fr, text, {"_k": k + 1}))
      ex.side.append((f"{info.key}#loop{ordn}.inv{i}.step", [h for h in hyp if h is not True] + [zb(cont_ok)], zb(g), n_assumes_body))
    fr.env = env_end

  # state after the loop
  written = {a.arr.aid for a in body_log if a.kind != "r"}
  # the loop is only reached on the paths where the function is still active: elsewhere nothing is forgotten
  entry = ex.guard_now(_with_env(fr, env0)) if not getattr(ex, "fast", False) else None
  saved_env = fr.env
  fr.env = env0
  entry = ex.guard_now(fr) if not getattr(ex, "fast", False) else None
  fr.env = saved_env
  if escapes or getattr(ex, "fast", False):
    st.arrs = dict(arrs_before)
    for aid in written:
      ex.havoc_array(st.meta[aid], "" if getattr(ex, "fast", False) else f"loop with break/return at {info.key}:{s.lineno}", guard=entry)
  else:
    summarise_stores(ex, [a for a in body_log if a.arr.aid not in gov_ids], arrs_before, st.bound, info.key, s.lineno)
    for r in gov:
      ex.havoc_array(r, guard=entry)
    for aid in dirty:
      st.arrs[aid] = arrs_before[aid]
      ex.havoc_array(st.meta[aid], f"loop-carried memory dependence at {info.key}:{s.lineno}", guard=entry)
  env_after = _copy_env(env0)
  kx = ex.fresh("kexit", "int")
  for n in carried:
    if n in affine and trip is not None:
      env_after[n] = ex.ar.binop(ast.Add(), env0[n], ex.ar.binop(ast.Mult(), affine[n], trip))
    else:
      env_after[n] = havoc_value(ex, n, env0[n], None, tag + ".exit")
  # names first defined inside the loop stay visible afterwards in python; give them havoc values
  for n in assigned:
    if n not in env_after and n in env_end and n != var:
      try:
        env_after[n] = havoc_value(ex, n, env_end[n], None, tag + ".exit")
      except Unsupported:
        pass
  if is_for:
    env_after[var] = ex.fresh(var + "@exit", "int")
  if has_ret:
    rflag = ex.fresh("ret@" + tag, "bool")
    prev = env0.get("$ret", False)
    rv = env_end.get("$retval")
    if rv is not None:
      rv2 = subst(rv, [(k, kx)])
      if "$retval" in env0 and prev is not False:
        env_after["$retval"] = ite(prev, env0["$retval"], rv2)
      else:
        env_after["$retval"] = rv2
    env_after["$ret"] = simp_bool(zor(prev, rflag))
  fr.env = env_after
  if invs:
    # invariant holds on exit (at some iteration count kx), plus negated guard for while loops
    ex.st.pc.append(True)
    ex.st.pc.pop()
    for text in invs:
      kk = trip if (is_for and not escapes and trip is not None) else kx
      if is_for:
        saved_v = env_after.get(var)
        env_after[var] = lift(start) + kk * step
      f = tobool(_eval_inv(ex, fr, text, {"_k": kk}))
      if is_for:
        env_after[var] = saved_v
      ex.assume(z3.Implies(zb(zand(*st.pc)), zb(f)))
    ex.assume(kx >= 0)
  if not is_for and not escapes:
    try:
      c = simp_bool(tobool(ex.eval(s.test, fr)))
      ex.assume(z3.Implies(zb(zand(*st.pc)), zb(znot(c))))
    except Unsupported:
      pass


def _with_env(fr, env):
  return fr


def _havoc_env_view(env):
  return env
