"""Mechanical extraction of the functions under contract from /repo's *current* source.

Nothing here is hand-written model code: every run re-parses the working tree with `ast`
and hands the FunctionDef nodes to the symbolic executor. Keys are `module:outer.inner`
qualified names (never line numbers).

Dropped by extraction (exhaustive list): docstrings, comments, `wp.printf`/`wp.print`
calls, decorator keyword arguments, `@event_scope` wrappers.
"""

from __future__ import annotations

import ast
import hashlib
import os
from dataclasses import dataclass, field

REPO = os.environ.get("WPV_REPO", "/repo")
SRC = os.path.join(REPO, "mujoco_warp", "_src")


@dataclass
class FuncInfo:
  key: str  # module:qual.name
  module: str
  qualname: str
  node: ast.FunctionDef
  kind: str  # 'kernel' | 'func' | 'host'
  parent: "FuncInfo | None" = None
  cached_factory: bool = False  # decorated with @cache_kernel
  nested: dict = field(default_factory=dict)  # name -> FuncInfo (direct nested defs)
  overloads: list = field(default_factory=list)  # further @wp.func definitions of the same name

  @property
  def source_hash(self) -> str:
    return hashlib.sha256(ast.dump(self.node).encode()).hexdigest()[:16]

  @property
  def lineno(self) -> int:
    return self.node.lineno


@dataclass
class ModuleInfo:
  name: str
  path: str
  tree: ast.Module
  source: str
  funcs: dict  # qualname -> FuncInfo (all levels)
  imports: dict  # local name -> ('module', modname) | ('symbol', modname, symbol)
  assigns: dict  # module-level NAME -> ast expr (last assignment)
  classes: dict  # name -> ast.ClassDef


_MODULES: dict[str, ModuleInfo] = {}


def _dec_kind(node: ast.FunctionDef) -> tuple[str, bool]:
  kind = "host"
  cached = False
  for d in node.decorator_list:
    s = ast.unparse(d)
    if s.startswith("wp.kernel") or s.startswith("nested_kernel") or s.startswith("kernel("):
      kind = "kernel"
    elif s.startswith("wp.func_native"):
      kind = "native"
    elif s.startswith("wp.func"):
      kind = "func"
    elif s.startswith("cache_kernel") or s.endswith(".cache_kernel"):
      cached = True
  return kind, cached


def load_module(name: str) -> ModuleInfo:
  if name in _MODULES:
    return _MODULES[name]
  path = os.path.join(SRC, name + ".py")
  with open(path) as f:
    source = f.read()
  tree = ast.parse(source)
  funcs: dict[str, FuncInfo] = {}
  imports: dict = {}
  assigns: dict = {}
  classes: dict = {}

  def visit(body, prefix, parent):
    for n in body:
      if isinstance(n, ast.FunctionDef):
        q = prefix + n.name
        kind, cached = _dec_kind(n)
        fi = FuncInfo(key=f"{name}:{q}", module=name, qualname=q, node=n, kind=kind, parent=parent, cached_factory=cached)
        if q in funcs and kind == "func" and funcs[q].kind == "func":
          # Warp overloads @wp.func definitions of the same name by argument types
          funcs[q].overloads.append(fi)
          fi.key = f"{name}:{q}#{len(funcs[q].overloads)}"
        else:
          funcs[q] = fi
        if parent is not None:
          parent.nested[n.name] = fi
        visit_nested(n.body, q + ".", fi)

  def visit_nested(body, prefix, parent):
    for n in body:
      for sub in ast.walk(n) if not isinstance(n, ast.FunctionDef) else [n]:
        if isinstance(sub, ast.FunctionDef):
          q = prefix + sub.name
          if q in funcs:
            continue
          kind, cached = _dec_kind(sub)
          fi = FuncInfo(key=f"{name}:{q}", module=name, qualname=q, node=sub, kind=kind, parent=parent, cached_factory=cached)
          funcs[q] = fi
          parent.nested[sub.name] = fi
          visit_nested(sub.body, q + ".", fi)

  for n in tree.body:
    if isinstance(n, ast.Import):
      for a in n.names:
        imports[a.asname or a.name.split(".")[0]] = ("extmodule", a.name)
    elif isinstance(n, ast.ImportFrom):
      mod = n.module or ""
      for a in n.names:
        local = a.asname or a.name
        if mod == "mujoco_warp._src" or mod == "mujoco_warp":
          imports[local] = ("module", a.name)
        elif mod.startswith("mujoco_warp._src."):
          imports[local] = ("symbol", mod.split(".")[-1], a.name)
        elif n.level >= 1:
          if mod == "":
            imports[local] = ("module", a.name)  # from . import math
          else:
            imports[local] = ("symbol", mod.split(".")[-1], a.name)
        else:
          imports[local] = ("extsymbol", mod, a.name)
    elif isinstance(n, ast.Assign):
      for t in n.targets:
        if isinstance(t, ast.Name):
          assigns[t.id] = n.value
    elif isinstance(n, ast.AnnAssign) and isinstance(n.target, ast.Name) and n.value is not None:
      assigns[n.target.id] = n.value
    elif isinstance(n, ast.ClassDef):
      classes[n.name] = n
  visit(tree.body, "", None)
  mi = ModuleInfo(name=name, path=path, tree=tree, source=source, funcs=funcs, imports=imports, assigns=assigns, classes=classes)
  _MODULES[name] = mi
  return mi


def all_module_names() -> list[str]:
  out = []
  for fn in sorted(os.listdir(SRC)):
    if fn.endswith(".py") and not fn.endswith("_test.py") and fn != "__init__.py":
      out.append(fn[:-3])
  return out


def get_func(key: str) -> FuncInfo:
  mod, q = key.split(":")
  mi = load_module(mod)
  if q not in mi.funcs:
    raise KeyError(f"contract anchor missing: {key}")
  return mi.funcs[q]


def resolve_symbol(module: str, name: str):
  """Resolve a bare name used in `module` to ('func', FuncInfo) | ('module', modname) |
  ('class', modname, ClassDef) | ('assign', modname, expr) | None. Follows `from .x import y`."""
  mi = load_module(module)
  if name in mi.funcs:
    return ("func", mi.funcs[name])
  if name in mi.classes:
    return ("class", module, mi.classes[name])
  if name in mi.assigns:
    return ("assign", module, mi.assigns[name])
  if name in mi.imports:
    imp = mi.imports[name]
    if imp[0] == "module":
      if os.path.exists(os.path.join(SRC, imp[1] + ".py")):
        return ("module", imp[1])
      return ("extmodule", imp[1])
    if imp[0] == "symbol":
      if os.path.exists(os.path.join(SRC, imp[1] + ".py")):
        return resolve_symbol(imp[1], imp[2])
      return None
    if imp[0] == "extmodule":
      return ("extmodule", imp[1])
    if imp[0] == "extsymbol":
      return ("extsymbol", imp[1], imp[2])
  return None


def struct_fields(module: str, cls: ast.ClassDef) -> dict:
  """Annotated fields of a @wp.struct / dataclass class: name -> annotation ast."""
  out = {}
  for n in cls.body:
    if isinstance(n, ast.AnnAssign) and isinstance(n.target, ast.Name):
      out[n.target.id] = n.annotation
  return out


def dataclass_specs(clsname: str) -> dict:
  """types.py field specs: name -> ('array', dims tuple, dtype str) | ('scalar', type) |
  ('struct', typename)."""
  mi = load_module("types")
  cls = mi.classes[clsname]
  out = {}
  for n in cls.body:
    if isinstance(n, ast.AnnAssign) and isinstance(n.target, ast.Name):
      a = n.annotation
      if isinstance(a, ast.Call) and ast.unparse(a.func) == "array":
        dims = []
        for x in a.args[:-1]:
          if isinstance(x, ast.Constant):
            dims.append(x.value)
          else:
            dims.append(ast.unparse(x))
        out[n.target.id] = ("array", tuple(dims), ast.unparse(a.args[-1]))
      else:
        s = ast.unparse(a)
        if s in ("int", "float", "bool"):
          out[n.target.id] = ("scalar", s)
        else:
          out[n.target.id] = ("other", s)
  return out
