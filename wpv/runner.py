"""Check runner: generates the obligations of one property from /repo's current source,
discharges them (16-process pool), replays counter-models, matches known findings, writes
evidence and prints the verdict lines.

exit 0 held | 1 violation (VIOLATION line) | 2 undecided | 3 checker crash / zero obligations
"""

from __future__ import annotations

import fnmatch
import importlib
import json
import multiprocessing as mp
import os
import sys
import time
import traceback

HERE = os.path.dirname(os.path.dirname(os.path.abspath(__file__)))

TRUSTED_BASE = [
  "T1: device int32 modelled as mathematical Int (no wrap-around; sizes < 2^31)",
  "T2: float32 modelled as Real (round-off, NaN, inf, -0 ignored): claims are exact over the reals",
  "T3: wp.* vector/matrix builtins expanded component-wise by wpv/builtins.py (sqrt/sin/cos by defining axioms)",
  "T4: allocator axiom for wp.atomic_add on counters (distinct return values; final value = number of increments)",
  "python ast semantics of the Warp kernel dialect as implemented by wpv/sym.py (ITE-merged paths, guarded functional arrays)",
  "loop rules of wpv/loops.py (unrolling, closed-form store summaries with side conditions checked by z3, havoc otherwise)",
  "z3 5.1 (python API), /usr/bin/z3 4.8.12 and cvc5 1.0.3 are sound",
]


class Result(dict):
  pass


def _solve_group(args):
  """worker: build obligations of one group and discharge them"""
  modname, gname, tier, seed = args
  sys.path.insert(0, HERE)
  from wpv import smt
  from wpv.contracts import Obligation
  from wpv.sym import Unsupported

  t0 = time.time()
  out = []
  try:
    mod = importlib.import_module(modname)
    fn = dict(mod.groups(tier))[gname]
    items = fn(tier)
  except Unsupported as e:
    return [Result(oid=f"{gname}#generation", status="undecided", reason=f"unsupported construct: {e}", group=gname, time_s=time.time() - t0)]
  except KeyError as e:
    return [Result(oid=f"{gname}#anchor", status="undecided", reason=f"contract anchor missing: {e}", group=gname, time_s=time.time() - t0)]
  except Exception:
    return [Result(oid=f"{gname}#generation", status="crash", reason=traceback.format_exc()[-3000:], group=gname, time_s=time.time() - t0)]
  timeout = 10000 if tier == "quick" else 120000
  for ob in items:
    if isinstance(ob, Result):
      ob.setdefault("group", gname)
      out.append(ob)
      continue
    t1 = time.time()
    try:
      r = None
      if (ob.meta.get("instantiate") or ob.kind == "loop-invariant") and ob.expect != "refutable":
        # quantified invariants: goal-directed instantiation first (a proof if it succeeds)
        ri = smt.instantiate_and_check(smt.cone_of_influence(ob.assumptions, ob.goal), ob.goal, timeout_ms=ob.meta.get("timeout_ms", timeout), seed=seed)
        if ri["status"] != "unsat":
          ri = smt.instantiate_and_check(smt.cone_of_influence(ob.assumptions, ob.goal), ob.goal, timeout_ms=ob.meta.get("timeout_ms", timeout), seed=seed, small_first=True, max_inst=8000)
        if ri["status"] == "unsat":
          r = ri
      if r is None and ob.meta.get("keep_syms") and ob.expect != "refutable":
        # relational obligation: everything that does not mention the few symbols that differ
        # between the two copies is made opaque first (a generalisation: proof => proof)
        abst = smt.abstract_except(list(ob.assumptions) + [ob.goal], set(ob.meta["keep_syms"]))
        hyps = smt.integer_projection(abst[:-1]) if ob.meta.get("int_projection") else abst[:-1]
        r0 = smt.check(hyps, abst[-1], timeout_ms=ob.meta.get("timeout_ms", timeout), seed=seed, backends=("z3api",))
        if r0["status"] == "unsat":
          r0["backend"] = str(r0.get("backend")) + " (capacity-independent subterms opaque)"
          r = r0
      if r is None and ob.meta.get("int_projection") and ob.expect != "refutable":
        # index obligation: first try with the integer part of the hypotheses only
        proj = smt.integer_projection(ob.assumptions)
        r1 = smt.check(proj, ob.goal, timeout_ms=ob.meta.get("timeout_ms", timeout), seed=seed)
        if r1["status"] == "unknown":
          # products of symbolic integers (rownnz * ndim ...) as an uninterpreted function:
          # a weaker theory, so a proof found there is a proof
          abst = smt.abstract_nonlinear(list(proj) + [ob.goal])
          r0 = smt.check(abst[:-1], abst[-1], timeout_ms=ob.meta.get("timeout_ms", timeout), seed=seed, backends=("z3api",))
          if r0["status"] == "unsat":
            r0["backend"] = str(r0.get("backend")) + " (nonlinear products abstracted)"
            r1 = r0
        if r1["status"] == "unsat":
          r = r1
        elif r1["status"] == "sat":
          r2 = smt.check(ob.assumptions, ob.goal, timeout_ms=5000, seed=seed, backends=("z3api",))
          if r2["status"] in ("unsat", "sat"):
            r = r2
          else:
            r = r1
            r["note"] = "counter-model satisfies the integer part of the path condition; floating-point feasibility of that path was not established by the solver"
      if r is None and ob.meta.get("raw_first") and ob.expect != "refutable":
        # small hand-structured queries (hypotheses = statements of earlier obligations): the untouched query first;
        # the preprocessing of smt.check is tuned for large path conditions and can make these harder
        r0 = smt.check_small(list(ob.assumptions), ob.goal, 5000)
        if r0["status"] == "unsat":
          r = r0
      if r is None and ob.meta.get("quantified") and ob.expect != "refutable":
        r = smt.check_quantified(ob.assumptions, ob.goal, timeout_ms=ob.meta.get("timeout_ms", max(timeout, 30000)), seed=seed)
        if r["status"] != "unsat" and ob.meta.get("search"):
          # not proved: bounded exhaustive search for a failing input on the real code (a found input is a violation
          # whatever the solver said; none found and no counter-model: undecided)
          rep = _native(ob.meta["search"])
          r["search"] = rep
          if rep.get("reproduced"):
            r["status"] = "sat"
            r["backend"] = str(r.get("backend")) + " + native exhaustive search"
      if r is None and ob.expect == "refutable" and ob.meta.get("sat_hints"):
        # vacuity canary with suggested witnesses: a model of (assumptions and hint) is a model of the assumptions
        for hint in ob.meta["sat_hints"]:
          r2 = smt.check(list(ob.assumptions) + list(hint), ob.goal, timeout_ms=5000, seed=seed, backends=("z3api",), cone=False)
          if r2["status"] == "sat":
            r = r2
            r["backend"] = str(r.get("backend")) + " (witness suggested by the contract)"
            break
      if r is None:
        r = smt.check(ob.assumptions, ob.goal, timeout_ms=ob.meta.get("timeout_ms", timeout), seed=seed, cone=(ob.expect != "refutable"), sat_first=(ob.expect == "refutable"))
    except Exception:
      out.append(Result(oid=ob.oid, status="crash", reason=traceback.format_exc()[-2000:], group=gname))
      continue
    if (r["status"] == "unknown" or (r["status"] == "sat" and r.get("_model_obj") is None and ob.meta.get("replay") is not None)) and ob.meta.get("sat_hints") and ob.expect != "refutable":
      # (also when a back end that returns no model object said `sat`: a model is needed for the native replay)
      # counter-model search under extra constraints: a model of (query and hint) is a model of the query
      for hint in ob.meta["sat_hints"]:
        try:
          r2 = smt.check(list(ob.assumptions) + list(hint), ob.goal, timeout_ms=5000, seed=seed, backends=("z3api",))
        except Exception:
          continue
        if r2["status"] == "sat":
          r = r2
          r["backend"] = str(r.get("backend")) + " (guided counter-model search)"
          break
    res = Result(oid=ob.oid, group=gname, func=ob.func, kind=ob.kind, backend=r.get("backend"), time_s=round(time.time() - t1, 4), solver_s=round(float(r.get("time_s") or 0.0), 4), meta=ob.meta)
    st = r["status"]
    if ob.expect == "refutable":
      # vacuity canary: the assumptions must be satisfiable (goal False must NOT be provable)
      if st == "sat":
        res["status"] = "discharged"
        res["kind"] = "vacuity-canary"
      elif st == "unsat":
        res["status"] = "crash"
        res["reason"] = "vacuous contract: preconditions are contradictory"
      else:
        res["status"] = "undecided"
        res["reason"] = "canary unknown"
    elif st == "unsat":
      res["status"] = "discharged"
    elif st == "sat":
      res["status"] = "violated"
      res["model"] = r.get("model", {})
      replay = ob.meta.get("replay")
      if r.get("search") is not None:
        res["replay"] = r["search"]
      elif replay is not None:
        try:
          res["replay"] = replay(r.get("_model_obj"), ob)
        except Exception:
          res["replay"] = {"reproduced": None, "error": traceback.format_exc()[-1500:]}
      elif getattr(mod, "native_replay", None) is not None and not _matches_known(modname.split(".")[-1], ob.oid):
        # replay of the counter-model against the real code: the property module turns the model into a
        # command that drives the public API of the tree under verification (scenarios/replay_native.py)
        try:
          cmd = mod.native_replay(ob.oid, res["model"])
          if cmd:
            res["replay"] = _native(cmd)
        except Exception:
          res["replay"] = {"reproduced": None, "error": traceback.format_exc()[-1500:]}
    else:
      res["status"] = "undecided"
      res["reason"] = "solver: " + str(r.get("reason", "unknown"))
    res["meta"] = {k: v for k, v in ob.meta.items() if k not in ("replay", "sat_hints", "search") and isinstance(v, (str, int, float, list, dict, bool))}
    out.append(res)
  return out


_NATIVE_CACHE = {}


def _native(cmd):
  """run a native replay command once per worker process and command"""
  from wpv import replay as rp

  key = tuple(cmd)
  if key not in _NATIVE_CACHE:
    rc, out = rp.run_native(cmd)
    _NATIVE_CACHE[key] = {
      "native_cmd": list(cmd),
      "exit": rc,
      "reproduced": rc == 1,
      "meaning": "exit 1: the real code violates the property on the input synthesised from the counter-model; 0: it does not on that input; 2/None: input not synthesised",
      "output": out[-3000:],
    }
  return _NATIVE_CACHE[key]


def _matches_known(pid, oid):
  for k in load_known():
    if k.get("property") == pid and k.get("status") == "known":
      for pat in ([k["obligation"]] if "obligation" in k else []) + list(k.get("obligations", [])):
        if fnmatch.fnmatchcase(oid, pat):
          return True
  return False


_SCOPE = {}


def _in_scope_file(pid, func):
  if pid not in _SCOPE:
    p = os.path.join(HERE, "contracts", f"scope_{pid}.txt")
    names = set()
    if os.path.exists(p):
      for line in open(p):
        line = line.strip()
        if line and not line.startswith("#"):
          names.add(line.split()[0])
    _SCOPE[pid] = names
  return func in _SCOPE[pid]


def load_known():
  p = os.path.join(HERE, "known_findings.json")
  if not os.path.exists(p):
    return []
  with open(p) as f:
    return json.load(f)


def collect_results(pid, tier="quick", seed=0, jobs=None, only_groups=None):
  """generate and discharge the obligations of one property (all groups, or the named ones)"""
  modname = f"props.{pid}"
  sys.path.insert(0, HERE)
  mod = importlib.import_module(modname)
  groups = mod.groups(tier)
  if only_groups is not None:
    groups = [g for g in groups if g[0] in only_groups]
  tasks = [(modname, g[0], tier, seed) for g in groups]
  jobs = jobs or min(16, max(1, len(tasks)))
  if getattr(mod, "INPROCESS", False):
    jobs = 1  # the module runs its own worker pool (kernel summaries shared between its groups)
  results = []
  if jobs == 1 or len(tasks) <= 1:
    for t in tasks:
      results.extend(_solve_group(t))
  else:
    ctx = mp.get_context("fork")
    with ctx.Pool(jobs) as pool:
      for rs in pool.imap_unordered(_solve_group, tasks, chunksize=1):
        results.extend(rs)
  return mod, results


def run_property(pid, tier="quick", seed=0, jobs=None):
  t0 = time.time()
  try:
    mod, results = collect_results(pid, tier, seed, jobs)
  except Exception:
    print(f"CHECKER-CRASH property={pid}\n{traceback.format_exc()}")
    return 3
  results.sort(key=lambda r: r["oid"])
  known = [k for k in load_known() if k.get("property") == pid]
  known_pats = [(pat, k) for k in known if k.get("status") == "known" for pat in ([k["obligation"]] if "obligation" in k else []) + list(k.get("obligations", []))]

  class _K(dict):
    def __contains__(self, oid):
      return any(fnmatch.fnmatchcase(oid, pat) for pat, _ in known_pats)

    def __getitem__(self, oid):
      for pat, k in known_pats:
        if fnmatch.fnmatchcase(oid, pat):
          return k
      raise KeyError(oid)

  known_ids = _K()
  viol, undec, crash, disch, knownhit, excluded = [], [], [], [], [], []
  for r in results:
    s = r["status"]
    if s == "discharged":
      disch.append(r)
    elif s == "violated":
      if r["oid"] in known_ids:
        knownhit.append(r)
      else:
        viol.append(r)
    elif s == "undecided":
      undec.append(r)
    elif s == "bounded":
      pass
    elif s == "out-of-scope":
      # function not translatable: fine only if the committed scope file says so, else undecided
      if _in_scope_file(pid, r.get("func") or (r.get("meta") or {}).get("function", "")):
        excluded.append(r)
      else:
        r["reason"] = "function left the verifier's dialect and is not in contracts/scope_%s.txt: %s" % (pid, r.get("reason"))
        undec.append(r)
    else:
      crash.append(r)
  # a known finding that no longer fails is simply not printed (the obligation is then discharged)
  os.makedirs(os.path.join(HERE, "replay"), exist_ok=True)
  os.makedirs(os.path.join(HERE, "evidence"), exist_ok=True)
  seen_k = {}
  for r in knownhit:
    k = known_ids[r["oid"]]
    seen_k.setdefault(k.get("id", k.get("what")), (k, []))[1].append(r["oid"])
  for kid, (k, oids) in seen_k.items():
    print(f"KNOWN-FINDING: property={pid} {k.get('what', kid)} [failing obligations: {', '.join(oids[:4])}{' ...' if len(oids) > 4 else ''}]")
  for r in viol:
    rp = os.path.join(HERE, "replay", f"{pid}_{_safe(r['oid'])}.json")
    rep = r.get("replay") or {}
    with open(rp, "w") as f:
      json.dump(
        {
          "property": pid,
          "failed_obligation": r["oid"],
          "group": r.get("group"),
          "tier": tier,
          "seed": int(seed),
          "function": r.get("func"),
          "goal": (r.get("meta") or {}).get("goal"),
          "verifier_output": {"status": "sat (counter-model to the verification condition)", "backend": r.get("backend"), "model": r.get("model")},
          "replay": rep,
          "how_to_replay": f"./check {pid} --replay {os.path.relpath(rp, HERE)}",
        },
        f,
        indent=1,
        default=str,
      )
    suffix = "" if rep.get("reproduced") else " no-failing-input-found"
    print(f"VIOLATION property={pid} replay={os.path.relpath(rp, HERE)}{suffix}")
    print(f"  failed obligation: {r['oid']}  ({(r.get('meta') or {}).get('goal', '')[:200]})")
  for r in undec:
    print(f"UNDECIDED obligation={r['oid']} reason={str(r.get('reason'))[:300]}")
  for r in crash:
    print(f"CHECKER-CRASH obligation={r['oid']} reason={str(r.get('reason'))[-1500:]}")
  bounded = [r for r in results if r["status"] == "bounded"]
  n_ob = len(disch) + len(viol) + len(undec)
  info = getattr(mod, "INFO", {})
  funcs = {}
  for r in results:
    m = r.get("meta") or {}
    if m.get("function"):
      funcs[m["function"]] = m.get("source_hash", "")
  backends = {}
  for r in disch:
    backends[r.get("backend") or "analysis"] = backends.get(r.get("backend") or "analysis", 0) + 1
  samples = []
  for r in (disch[:: max(1, len(disch) // 6)])[:6] + viol[:3] + knownhit[:3]:
    samples.append({"obligation": r["oid"], "status": r["status"], "function": r.get("func"), "goal": (r.get("meta") or {}).get("goal"), "backend": r.get("backend"), "time_s": r.get("time_s")})
  ev = {
    "property_id": pid,
    "tier": tier,
    "seed": int(seed),
    "level": "proof",
    "coverage": {
      "obligations": n_ob,
      "discharged": len(disch),
      "checker_cmd": f"./check {pid} --tier {tier}",
      "trusted_base": TRUSTED_BASE + list(info.get("trusted", [])),
      "samples": samples or [{"note": "no obligations"}],
      "functions_under_contract": funcs,
      "backends": backends,
      "solver_time_s": round(sum(r.get("time_s", 0) or 0 for r in results), 3),
      "slowest_obligations": [
        {"obligation": r["oid"], "time_s": r.get("time_s"), "last_solver_call_s": r.get("solver_s"), "backend": r.get("backend"), "budget_per_solver_call_s": ((r.get("meta") or {}).get("timeout_ms") or (10000 if tier == "quick" else 120000)) / 1000.0}
        for r in sorted(results, key=lambda r: -(r.get("time_s") or 0))[:5]
      ],
      "obligations_by_kind": _count(results, "kind"),
      "known_finding_obligations": [r["oid"] for r in knownhit],
      "bounded_standins": [{"oid": r["oid"], "bound": r.get("bound"), "cases": r.get("cases")} for r in bounded],
      "undecided_conjuncts": info.get("undecided", []),
      "undecided_obligations": [r["oid"] for r in undec],
      "unverified_surroundings": sorted({(r.get("func") or "") + ": " + str(r.get("reason"))[:100] for r in excluded}),
      "explanation": info.get("explanation", ""),
    },
    "assumptions": TRUSTED_BASE + list(info.get("trusted", [])) + list(info.get("assumptions", [])),
    "wall_s": round(time.time() - t0, 3),
    "violations": len(viol),
  }
  with open(os.path.join(HERE, "evidence", f"{pid}.json"), "w") as f:
    json.dump(ev, f, indent=1, default=str)
  print(f"[{pid}] obligations={n_ob} discharged={len(disch)} violations={len(viol)} known={len(knownhit)} undecided={len(undec)} bounded={len(bounded)} out_of_scope={len(excluded)} wall={ev['wall_s']}s")
  if crash:
    return 3
  if viol:
    return 1
  if undec:
    return 2
  if n_ob == 0:
    print(f"CHECKER-CRASH property={pid} zero obligations generated")
    return 3
  return 0


def _count(results, key):
  out = {}
  for r in results:
    k = r.get(key) or "post"
    out[k] = out.get(k, 0) + 1
  return out


def _safe(s):
  return "".join(c if c.isalnum() or c in "._-" else "_" for c in s)[:120]
