"""Ordered, guarded event list of a host entry point (forward, step, step1, ...).

The host orchestration is walked in SOURCE ORDER, inlining calls to other host functions of
the repo with textual parameter substitution. Events:
  launch   kernel + closure args + formal->actual binding
  fill     `X.zero_()` / `X.fill_(v)`
  copy     wp.copy(dst, src)
  alloc    x = wp.zeros/empty/clone(...)   (a fresh temporary)
  call     call of something that is not a host function of the repo (callback, numpy, ...)
Every event carries the stack of host conditions under which it happens, as (text, polarity)
atoms after substitution (`if sleep_enabled:` -> the text of its definition). Conditions are
compared as uninterpreted propositional atoms by the obligations that use them.
"""

from __future__ import annotations

import ast
from dataclasses import dataclass, field

from . import extract, launchsites
from .launchsites import _resolve_host, _subst_text, _list_elts, _resolve_callable


@dataclass
class Event:
  kind: str
  host: str
  lineno: int
  conds: tuple
  kernel: str | None = None
  binding: dict = field(default_factory=dict)
  closure: dict = field(default_factory=dict)
  dim: str = ""
  target: str = ""  # fill/copy/alloc target (actual text)
  source: str = ""
  chain: tuple = ()
  text: str = ""


def _subst_expr(e, env):
  """substitute every Name that is a key of env inside expression e (textual, via ast)"""

  class T(ast.NodeTransformer):
    def visit_Name(self, n):
      if n.id in env and isinstance(n.ctx, ast.Load):
        try:
          return ast.parse(env[n.id], mode="eval").body
        except SyntaxError:
          return n
      return n

  import copy

  return ast.unparse(T().visit(copy.deepcopy(e)))


def _terminates(stmts):
  if not stmts:
    return False
  s = stmts[-1]
  if isinstance(s, (ast.Return, ast.Raise)):
    return True
  if isinstance(s, ast.If):
    return _terminates(s.body) and _terminates(s.orelse)
  return False


def flow(root, max_depth=10):
  out = []

  def calls_in_order(node):
    cs = [n for n in ast.walk(node) if isinstance(n, ast.Call)]
    cs.sort(key=lambda c: (c.lineno, c.col_offset))
    # innermost first for nested calls on the same line is not needed for our event kinds
    return cs

  def _neg_path(suffix):
    """condition atom(s) saying that the path `suffix` (list of (text, polarity)) was NOT taken"""
    suffix = [a for a in suffix if a[0].strip() not in ("True",) or not a[1]]
    if len(suffix) == 1:
      return (suffix[0][0], not suffix[0][1])
    lits = [f"({t})" if p else f"(not ({t}))" for t, p in suffix]
    return (" and ".join(lits), False)

  def visit_body(stmts, fi, env, conds, depth, chain):
    """-> list of escape paths (full condition stacks under which this body returns / raises early)"""
    conds = list(conds)
    base = len(conds)
    escapes = []

    def after(sub_escapes, prefix_len):
      # the statements after a compound statement run only on the paths that did not leave the function
      for esc in sub_escapes:
        suffix = list(esc[prefix_len:])
        if any(t.startswith("loop:") for t, _ in suffix):
          continue  # left from inside a loop body: not tracked (path-insensitive there)
        if not suffix:
          continue
        conds.append(_neg_path(suffix))
        escapes.append(esc)

    for s in stmts:
      if isinstance(s, (ast.FunctionDef, ast.ClassDef, ast.Import, ast.ImportFrom, ast.Pass)):
        continue
      if isinstance(s, ast.If):
        c = _subst_expr(s.test, env)
        handle_expr(s.test, fi, env, conds, depth, chain)
        env_t, env_e = dict(env), dict(env)
        n0 = len(conds)
        esc_t = visit_body(s.body, fi, env_t, conds + [(c, True)], depth, chain)
        esc_e = visit_body(s.orelse, fi, env_e, conds + [(c, False)], depth, chain)
        # aliases assigned in only one branch are dropped (unknown afterwards)
        for k in set(env_t) | set(env_e):
          if env_t.get(k) == env_e.get(k) and k in env_t:
            env[k] = env_t[k]
          elif k in env and (env_t.get(k) != env.get(k) or env_e.get(k) != env.get(k)):
            env.pop(k, None)
        after(esc_t + esc_e, n0)
        continue
      if isinstance(s, (ast.For, ast.While)):
        t = _subst_expr(s.iter if isinstance(s, ast.For) else s.test, env)
        visit_body(s.body, fi, dict(env), conds + [("loop:" + t, True)], depth, chain)
        continue
      if isinstance(s, ast.With):
        n0 = len(conds)
        after(visit_body(s.body, fi, env, conds, depth, chain), n0)
        continue
      if isinstance(s, (ast.Return, ast.Raise)):
        if isinstance(s, ast.Return) and s.value is not None:
          handle_expr(s.value, fi, env, conds, depth, chain)
        escapes.append(tuple(conds))
        return escapes
      if isinstance(s, ast.Assign) and len(s.targets) == 1 and isinstance(s.targets[0], ast.Name):
        handle_expr(s.value, fi, env, conds, depth, chain, assign_to=s.targets[0].id)
        v = s.value
        txt = _subst_expr(v, env)
        fn = ast.unparse(v.func) if isinstance(v, ast.Call) else ""
        if fn in ("wp.zeros", "wp.empty", "wp.ones", "wp.full", "wp.clone", "wp.zeros_like", "wp.empty_like", "wp.array"):
          env[s.targets[0].id] = f"tmp:{fi.qualname}.{s.targets[0].id}@{s.lineno}"
        else:
          env[s.targets[0].id] = txt
        continue
      handle_expr(s, fi, env, conds, depth, chain)
    return escapes

  def handle_expr(node, fi, env, conds, depth, chain, assign_to=None):
    for c in calls_in_order(node):
      f = ast.unparse(c.func)
      if f in ("wp.launch", "wp.launch_tiled"):
        for site in launchsites._site(fi.module, fi, c):
          b = {k: _subst_text(v, env) for k, v in site.binding.items()}
          cl = {k: _subst_text(v, env) for k, v in site.closure.items()}
          out.append(Event("launch", fi.key, c.lineno, tuple(conds), kernel=site.kernel, binding=b, closure=cl, dim=_subst_text(site.dim, env), chain=tuple(chain), text=site.note))
        continue
      if isinstance(c.func, ast.Attribute) and c.func.attr in ("zero_", "fill_"):
        tgt = _subst_text(ast.unparse(c.func.value), env)
        out.append(Event("fill", fi.key, c.lineno, tuple(conds), target=tgt, chain=tuple(chain), text=f))
        continue
      if f == "wp.copy" and len(c.args) >= 2:
        out.append(Event("copy", fi.key, c.lineno, tuple(conds), target=_subst_text(ast.unparse(c.args[0]), env), source=_subst_text(ast.unparse(c.args[1]), env), chain=tuple(chain)))
        continue
      if f == "wp.clone" and c.args:
        out.append(Event("alloc", fi.key, c.lineno, tuple(conds), target=f"tmp:{fi.qualname}.{assign_to}@{c.lineno}", source=_subst_text(ast.unparse(c.args[0]), env), chain=tuple(chain)))
        continue
      # host function of the repo (direct call, or passed as while_body=...)
      tgt, via_kw = None, None
      cands = [(c.func, None)] + [(kw.value, kw.arg) for kw in c.keywords if isinstance(kw.value, (ast.Name, ast.Attribute))]
      for e, kwname in cands:
        t = _resolve_host(fi, e)
        if t is not None:
          tgt, via_kw = t, kwname
          break
      if tgt is not None and depth < max_depth and tgt.key not in chain:
        if tgt.cached_factory or launchsites._kernel_of_factory(tgt) is not None and tgt.kind == "host" and any(n.kind == "kernel" for n in tgt.nested.values()) and not _has_launch(tgt):
          continue  # kernel factory, handled at the launch site
        params = [a.arg for a in tgt.node.args.args]
        defaults = tgt.node.args.defaults
        cenv = {}
        for p, d in zip(params[len(params) - len(defaults) :], defaults):
          cenv[p] = ast.unparse(d)
        if via_kw is None:
          for p, a in zip(params, c.args):
            cenv[p] = _subst_expr(a, env)
        for kw in c.keywords:
          if kw.arg in params:
            cenv[kw.arg] = _subst_expr(kw.value, env)
        cc = list(conds) + ([("loop:" + f, True)] if via_kw is not None else [])
        visit_body(tgt.node.body, tgt, cenv, cc, depth + 1, chain + [fi.key])
        continue
      if f.startswith(("m.callback", "d.", "wp.", "np.", "int", "bool", "float", "max", "min", "len", "range", "isinstance", "warnings.", "math.", "ceil")):
        if f.startswith("m.callback"):
          out.append(Event("call", fi.key, c.lineno, tuple(conds), text=f, chain=tuple(chain)))
        continue

  def _has_launch(fi):
    return any(isinstance(n, ast.Call) and ast.unparse(n.func) in ("wp.launch", "wp.launch_tiled") for n in ast.walk(fi.node))

  fi = extract.get_func(root)
  env = {}
  visit_body(fi.node.body, fi, env, [], 0, [])
  return out
