"""Generated (schema) obligations over the access log of a symbolically executed kernel.

MODULO     every access to a '*'-batched Model/Option/Statistic field has first index
           == W % field.shape[0]   (W = the thread's owning world)
ISOLATION  every access to an nworld-led Data/Constraint field has first index == W
BOUNDS     0 <= idx_i < shape_i (given launch dims / MODEL_WF facts supplied by the caller)

The owning world W is inferred (all first indices of nworld-led accesses must be provably
equal to one term) and must be *legitimate*: a thread-id component, a world tag read from a
`*worldid*` array at the thread's own slot, or an expression listed in OWNER_HINTS.
Obligations are facts about indices and guards only: insensitive to renamed locals,
reordered independent statements and value arithmetic.
"""

from __future__ import annotations

import z3

from . import census
from .contracts import Obligation
from .loops import free_consts
from .runner import Result
from .sym import ArrRef, Unsupported, lift, zb

# kernels whose owning world is a derived expression (documented, checked by the obligation
# "owner is one of these shapes")
OWNER_HINTS = {
  # sweep-and-prune work packages: the world is decoded from a cumulative-sum table
  # (`worldid = i // ngeom` after a binary search); that decode is C18's contract. Here only
  # the consistent use of that one world in every per-world access is checked.
  "collision_driver:_sap_broadphase.kernel": "work-package decode (C18)",
  "collision_flex:_flex_flex_sap_sweep.kernel": "work-package decode",
  "collision_flex:_self_flex_sap_sweep.kernel": "work-package decode",
}


def _uf_names(t):
  out = set()
  seen = set()

  def rec(x):
    if x.get_id() in seen:
      return
    seen.add(x.get_id())
    if z3.is_app(x) and x.decl().kind() == z3.Z3_OP_UNINTERPRETED and x.num_args() > 0:
      out.add(x.decl().name())
    for c in x.children():
      rec(c)

  rec(t)
  return out


def owner_kind(W, tids):
  """classify the owning-world term"""
  if any(W.eq(t) for t in tids):
    return "tid"
  if z3.is_app(W) and W.decl().kind() == z3.Z3_OP_UNINTERPRETED and W.num_args() > 0:
    n = W.decl().name()
    if "worldid" in n:
      return "tag:" + n
  s = z3.simplify(W)
  # tid // n  (flattened world*n + i grids)
  if z3.is_app(s) and s.decl().kind() in (z3.Z3_OP_IDIV, z3.Z3_OP_DIV):
    a = s.children()[0]
    if any(a.eq(t) for t in tids):
      return "tid-div"
  fc = free_consts(W)
  if fc and all(c.startswith("tid") for c in fc) and not _uf_names(W):
    return "tid-expr"
  return None


def formal_accesses(run):
  formals = {v.aid: name for name, v in run.params.items() if isinstance(v, ArrRef)}
  for a in run.ex.st.log:
    if a.arr.aid in formals and a.guard is not False:
      yield formals[a.arr.aid], a


def world_obligations(run, label, which=("MODULO", "ISOLATION")):
  """-> list of Obligation / Result for one kernel specialisation"""
  ex = run.ex
  key = run.key
  iso, mod = [], []
  for fname, a in formal_accesses(run):
    cls = census.classify_formal(fname)
    if cls is None or not a.idx:
      continue
    owner, field, dims = cls
    if not dims:
      continue
    if owner in ("Data", "Constraint") and dims[0] == "nworld":
      iso.append((fname, a))
    elif owner in ("Model", "Option", "Statistic") and dims[0] == "*":
      mod.append((fname, a))
  out = []
  if not iso and not mod:
    return out
  # infer W
  W = None
  if iso:
    # prefer a candidate of a recognised shape (thread id / world tag); a per-world Data field
    # may also be indexed `W % field.shape[0]` (shape[0] == nworld), strip that modulo
    cands = []
    for fname, a in iso:
      t = lift(a.idx[0])
      cands.append(t)
      if z3.is_app(t) and t.decl().kind() == z3.Z3_OP_MOD:
        cands.append(t.children()[0])
    for t in cands:
      if owner_kind(t, ex.tids):
        W = t
        break
    if W is None:
      W = cands[0]
  else:
    # from a batched access of the canonical form X % shape0
    for fname, a in mod:
      t = lift(a.idx[0])
      if z3.is_app(t) and t.decl().kind() == z3.Z3_OP_MOD:
        W = t.children()[0]
        break
    if W is None:
      t = z3.simplify(lift(mod[0][1].idx[0]))
      if z3.is_app(t) and t.decl().kind() == z3.Z3_OP_MOD:
        W = t.children()[0]
  meta0 = {"function": key, "source_hash": run.info.source_hash, "specialisation": label}
  if W is None:
    out.append(Result(oid=f"{key}[{label}]#owner", status="violated", kind="owner", func=key, backend="analysis", meta=dict(meta0, goal="batched field accessed with a first index that is not of the form W % shape[0]", index=str(mod[0][1].idx[0])[:200], array=mod[0][0], lineno=mod[0][1].lineno)))
    return out
  kind = owner_kind(W, ex.tids) or OWNER_HINTS.get(key)
  if kind is None:
    out.append(Result(oid=f"{key}[{label}]#owner", status="undecided", kind="owner", func=key, reason=f"owning world term not recognised: {str(W)[:120]}", meta=meta0))
    return out
  out.append(Result(oid=f"{key}[{label}]#owner", status="discharged", kind="owner", func=key, backend="analysis", meta=dict(meta0, goal=f"owning world is {kind}: {str(W)[:80]}")))
  ass = list(ex.assumes)
  seen = set()
  if "ISOLATION" in which and iso:
    # shape facts of make_data/put_data: every nworld-led field has leading extent nworld, and
    # the owning world is a valid world (launch extent d.nworld / tags written from valid worlds)
    nworld = z3.Int("nworld@spec")
    ass = ass + [W >= 0, W < nworld] + [ex.shape_sym(a.arr, 0) == nworld for a in {id(a.arr): a for _, a in iso}.values()]
  if "ISOLATION" in which:
    for fname, a in iso:
      i0 = lift(a.idx[0])
      sig = ("I", fname, i0.get_id(), zb(a.guard).get_id())
      if sig in seen:
        continue
      seen.add(sig)
      oid = f"{key}[{label}]#ISOLATION.{fname}@{a.lineno}.{a.kind}"
      m = dict(meta0, goal=f"{fname}[{str(a.idx[0])[:60]}, ...] is indexed by the owning world {str(W)[:60]}", lineno=a.lineno)
      if i0.eq(W):
        out.append(Result(oid=oid, status="discharged", kind="ISOLATION", func=key, backend="syntactic", meta=m))
      else:
        out.append(Obligation(oid, ass + [zb(a.guard)], i0 == W, func=key, kind="ISOLATION", meta=dict(m, int_projection=True, timeout_ms=4000)))
  if "MODULO" in which:
    for fname, a in mod:
      i0 = lift(a.idx[0])
      sig = ("M", fname, i0.get_id(), zb(a.guard).get_id())
      if sig in seen:
        continue
      seen.add(sig)
      sh = ex.shape_sym(a.arr, 0)
      oid = f"{key}[{label}]#MODULO.{fname}@{a.lineno}"
      m = dict(meta0, goal=f"{fname}[{str(a.idx[0])[:60]}, ...] is indexed by (owning world) % {fname}.shape[0]", lineno=a.lineno)
      want = W % sh
      if i0.eq(want):
        out.append(Result(oid=oid, status="discharged", kind="MODULO", func=key, backend="syntactic", meta=m))
      else:
        m2 = dict(m, timeout_ms=4000, sat_hints=[[sh == 2, W == 1], [sh == 3, W == 2], [sh == 2]])
        out.append(Obligation(oid, ass + [zb(a.guard), sh >= 1], i0 == want, func=key, kind="MODULO", meta=dict(m2, int_projection=True)))
  if "SLOT" in which:
    out.extend(slot_obligations(run, label, W, meta0, ass))
  if "ISOLATION" in which and key in OWNER_HINTS:
    # FLOW: this thread serves work packages of SEVERAL worlds in one loop (its owning world
    # changes per iteration). Leaving the loop (return/break) on a condition computed from one
    # world's data would drop the packages of the other worlds it still has to serve.
    nworld_formals = {n for n, v in run.params.items() if isinstance(v, ArrRef) and (census.classify_formal(n) or (None, None, ()))[2][:1] == ("nworld",)}
    for fkey, lineno, retf, brkf in getattr(ex, "loop_exits", []):
      for what, flag in (("return", retf), ("break", brkf)):
        oid = f"{key}[{label}]#FLOW.{what}@loop{lineno}"
        m = dict(meta0, goal=f"a thread serving several worlds does not {what} out of its work-package loop on per-world data", lineno=lineno)
        if flag is False or flag is True or not isinstance(flag, z3.ExprRef):
          out.append(Result(oid=oid, status="discharged", kind="FLOW", func=key, backend="analysis", meta=m))
          continue
        used = {n.split("@")[0] for n in _uf_names(flag)} & nworld_formals
        out.append(Result(oid=oid, status="violated" if used else "discharged", kind="FLOW", func=key, backend="dependency analysis", meta=dict(m, depends_on=sorted(used))))
  return out


def _shared_class(fname):
  """-> ('contact'|'collision', is_tag) for formals living in the world-shared slot buffers"""
  cls = census.classify_formal(fname)
  if cls is None:
    return None
  owner, field, dims = cls
  if not dims or dims[0] != "naconmax":
    return None
  if owner == "Contact":
    return ("contact", field == "worldid")
  if owner == "Data" and field.startswith("collision_"):
    return ("collision", field == "collision_worldid")
  return None


def _reads_own_world(t, W, nworld_formals):
  """does term t contain an application F(W, ...) of an nworld-led formal F?"""
  seen = set()
  stack = [t]
  while stack:
    x = stack.pop()
    if x.get_id() in seen:
      continue
    seen.add(x.get_id())
    if z3.is_app(x):
      if x.decl().kind() == z3.Z3_OP_UNINTERPRETED and x.num_args() >= 1 and x.arg(0).eq(W):
        n = x.decl().name().split("@")[0]
        # an nworld-led field, or a temporary with >= 2 dims whose leading index is the world
        if n in nworld_formals or x.num_args() >= 2:
          return True
      stack.extend(x.children())
  return False


def slot_obligations(run, label, W, meta0, ass):
  """SLOT: an access to the shared contact/collision buffers is to a slot owned by the thread:
  its own thread index, a slot it allocated (atomic_add return), a slot its own world points
  to (index read from an nworld-led array at W), the slot its world tag W was read from, or
  any slot under a guard that implies tag[slot] == W."""
  ex = run.ex
  key = run.key
  out = []
  nworld_formals = set()
  tags = {}
  for name, v in run.params.items():
    if not isinstance(v, ArrRef):
      continue
    cls = census.classify_formal(name)
    if cls and cls[2] and cls[2][0] == "nworld":
      nworld_formals.add(name)
    sc = _shared_class(name)
    if sc and sc[1]:
      tags.setdefault(sc[0], v)
  seen = set()
  for fname, a in formal_accesses(run):
    sc = _shared_class(fname)
    if sc is None or not a.idx:
      continue
    buf, is_tag = sc
    if is_tag and a.kind == "r":
      continue  # reading a slot's tag (to filter on it) is how ownership is established
    c = lift(a.idx[0])
    sig = (fname, c.get_id(), zb(a.guard).get_id(), a.kind)
    if sig in seen:
      continue
    seen.add(sig)
    oid = f"{key}[{label}]#SLOT.{fname}@{a.lineno}.{a.kind}"
    m = dict(meta0, goal=f"{fname}[{str(c)[:60]}] is a slot owned by the thread's world", lineno=a.lineno)
    why = None
    if any(c.eq(t) for t in ex.tids):
      why = "own thread index"
    elif z3.is_const(c) and "@atomic_" in c.decl().name():
      why = "slot allocated by this thread (atomic_add)"
    elif z3.is_app(W) and W.num_args() == 1 and W.arg(0).eq(c):
      why = "the slot the owning world was read from"
    elif _reads_own_world(c, W, nworld_formals):
      why = "slot index read from the own world's row of a per-world array"
    if why:
      out.append(Result(oid=oid, status="discharged", kind="SLOT", func=key, backend="provenance: " + why, meta=m))
      continue
    tag = tags.get(buf)
    if tag is None:
      out.append(Result(oid=oid, status="violated", kind="SLOT", func=key, backend="analysis", meta=dict(m, note="slot of unknown provenance and the kernel has no world-tag array to guard it")))
      continue
    tagv = ex.st.arrs0[tag.aid]((c,))
    out.append(Obligation(oid, ass + [zb(a.guard)], tagv == W, func=key, kind="SLOT", meta=dict(m, int_projection=True, timeout_ms=4000)))
  return out


def _dim_components(text):
  import ast

  if text.strip() == "()":
    return []

  try:
    n = ast.parse(text.strip(), mode="eval").body
  except SyntaxError:
    return None
  if isinstance(n, (ast.Tuple, ast.List)):
    return [ast.unparse(e).replace(" ", "") for e in n.elts]
  return [ast.unparse(n).replace(" ", "")]


# extent of a spec dimension in host text, for the leading dimensions whose full coverage matters to
# other worlds: the world axis and the world-shared slot buffers
_EXTENT_TEXT = {"nworld": {"d.nworld"}, "naconmax": {"d.naconmax"}}


def cover_obligations(run, label):
  """COVER: a kernel that addresses the world axis or a world-shared slot buffer DIRECTLY by a thread-id
  component serves exactly the worlds / slots its launch extent spans. At every launch site the extent of
  that component must be the full extent (d.nworld / d.naconmax): a shorter launch silently skips the
  slots (worlds) at the end of the buffer -- which slots those are depends on what the other worlds of
  the batch allocated --, a longer one runs past the arrays."""
  from . import launchsites

  ex = run.ex
  key = run.key
  want = {}  # tid position -> (spec dim, example formal, lineno)
  for fname, a in formal_accesses(run):
    cls = census.classify_formal(fname)
    if cls is None or not a.idx or not cls[2]:
      continue
    lead = cls[2][0]
    if lead not in _EXTENT_TEXT:
      continue
    if cls[0] not in ("Data", "Constraint", "Contact"):
      continue
    i0 = lift(a.idx[0])
    for k, t in enumerate(ex.tids):
      if i0.eq(t):
        want.setdefault(k, (lead, fname, a.lineno))
  out = []
  if not want:
    return out
  sites = launchsites.sites_of_kernel(key)
  meta0 = {"function": key, "source_hash": run.info.source_hash, "specialisation": label}
  for k, (lead, fname, lineno) in sorted(want.items()):
    for s in sites:
      comps = _dim_components(s.dim)
      oid = f"{key}[{label}]#COVER.tid{k}@{s.host.split(':')[-1]}:{s.lineno}"
      m = dict(meta0, goal=f"launch extent of thread-id component {k} (indexes {fname}, leading dimension {lead}) is {sorted(_EXTENT_TEXT[lead])[0]}", launch_dim=s.dim, site=f"{s.host}:{s.lineno}")
      if comps is None or k >= len(comps):
        out.append(Result(oid=oid, status="violated", kind="COVER", func=key, backend="launch-site analysis", meta=dict(m, note="launch dim has fewer components than wp.tid()")))
        continue
      ok = comps[k] in _EXTENT_TEXT[lead]
      out.append(Result(oid=oid, status="discharged" if ok else "violated", kind="COVER", func=key, backend="launch-site analysis", meta=m))
  return out


# ---------------------------------------------------------------------------------------------- BOUNDS (C17)
# size relations guaranteed by make_data / put_data / put_model (assumed: the allocation code is numpy host code)
SIZE_FACTS = [
  ("nv", "nv_pad"), ("njmax", "njmax_pad"), ("nvmax", "nvmax_pad"), ("nvmax", "nv"), ("naccdmax", "naconmax"),
]


def _ext(name):
  return z3.Int(f"ext!{name}")


def _dim_term(text, site, run):
  """launch-dim component (source text) -> z3 term over extent symbols, or None when it is not resolvable"""
  import ast

  inv = {}
  for f, a in site.binding.items():
    inv.setdefault(a.replace(" ", ""), f)

  def rec(n):
    if isinstance(n, ast.Constant) and isinstance(n.value, int):
      return z3.IntVal(n.value)
    if isinstance(n, ast.BinOp) and isinstance(n.op, (ast.Add, ast.Sub, ast.Mult)):
      l, r = rec(n.left), rec(n.right)
      if l is None or r is None:
        return None
      return l + r if isinstance(n.op, ast.Add) else (l - r if isinstance(n.op, ast.Sub) else l * r)
    t = ast.unparse(n).replace(" ", "")
    if isinstance(n, ast.Attribute) and isinstance(n.value, ast.Name) and n.value.id in ("m", "d", "mfull", "dfull"):
      return _ext(n.attr)
    if isinstance(n, ast.Subscript) and t.rsplit(".shape[", 1)[0] in inv and t.endswith("]"):
      base, k = t.rsplit(".shape[", 1)
      f = inv[base]
      if isinstance(run.params.get(f), ArrRef):
        try:
          return run.ex.shape_sym(run.params[f], int(k[:-1]))
        except ValueError:
          return None
    if isinstance(n, ast.Attribute) and n.attr == "size" and ast.unparse(n.value).replace(" ", "") in inv:
      f = inv[ast.unparse(n.value).replace(" ", "")]
      if isinstance(run.params.get(f), ArrRef) and run.params[f].ndim == 1:
        return run.ex.shape_sym(run.params[f], 0)
    return None

  try:
    return rec(ast.parse(text, mode="eval").body)
  except SyntaxError:
    return None


def _temp_shape_facts(run, site, formal):
  """shape facts for an array formal that is not a Model/Data field by name: the actual is a temporary allocated in
  the launching host function (wp.zeros/empty/ones/full((..)), wp.zeros_like / empty_like / clone of a field)"""
  import ast

  from . import extract

  v = run.params.get(formal)
  actual = site.binding.get(formal, "").replace(" ", "")
  if not isinstance(v, ArrRef) or not actual.isidentifier():
    if isinstance(v, ArrRef) and actual.startswith(("d.", "m.")):
      # a field passed under another formal name: use the field's own spec
      cls = census.classify_formal(actual.split(".")[-1])
      if cls is not None and not (actual.startswith("d.efc.") or actual.startswith("d.contact.")):
        return _spec_facts(run, v, cls[2])
      for pre, cname in (("d.efc.", "efc_"), ("d.contact.", "contact_")):
        if actual.startswith(pre):
          cls = census.classify_formal(cname + actual[len(pre):])
          if cls is not None:
            return _spec_facts(run, v, cls[2])
    return None
  try:
    host = extract.get_func(site.host)
  except KeyError:
    return None
  vals = []
  for n in ast.walk(host.node):
    if isinstance(n, ast.Assign) and any(isinstance(t, ast.Name) and t.id == actual for t in n.targets):
      vals.append(n.value)
  if len(vals) != 1 or not isinstance(vals[0], ast.Call):
    return None
  c = vals[0]
  f = ast.unparse(c.func)
  if f in ("wp.zeros", "wp.empty", "wp.ones", "wp.full") and c.args:
    sh = c.args[0]
    for kw in c.keywords:
      if kw.arg == "shape":
        sh = kw.value
    elts = sh.elts if isinstance(sh, (ast.Tuple, ast.List)) else [sh]
    if len(elts) != v.ndim:
      return None
    facts = []
    for k, e in enumerate(elts):
      t = _dim_term(ast.unparse(e), site, run)
      if t is None:
        return None
      facts.append(run.ex.shape_sym(v, k) == t)
    return facts
  if f in ("wp.zeros_like", "wp.empty_like", "wp.clone") and c.args:
    src = ast.unparse(c.args[0]).replace(" ", "")
    if src.startswith("d.") and src.count(".") == 1:
      cls = census.classify_formal(src.split(".")[1])
      if cls is not None:
        return _spec_facts(run, v, cls[2])
  return None


def _spec_facts(run, v, dims):
  facts = []
  for k, dn in enumerate(dims[: v.ndim]):
    sh = run.ex.shape_sym(v, k)
    if isinstance(dn, int):
      facts.append(sh == dn)
    elif dn == "*":
      facts.append(sh >= 1)
    elif isinstance(dn, str):
      facts.append(sh == _ext(dn))
  return facts


def _is_mem(x):
  """an applied uninterpreted function that stands for memory (an array cell), as opposed to the arithmetic helpers and
  to the per-iteration value of a loop-carried local (`count@L0!3(k)`: unknown, but thread-local)"""
  if x.decl().kind() != z3.Z3_OP_UNINTERPRETED or x.num_args() == 0:
    return False
  n = x.decl().name()
  if n.split("@")[0] in ("pow2", "div0", "mod0"):
    return False
  if "@L" in n and "!" in n:
    return False
  return True


def _has_array_read(t, cache=None):
  """does the index term read memory (an applied uninterpreted function other than the arithmetic helpers)?
  cache: {ast id: bool} shared by the caller (sub-terms are shared between the index terms of one kernel)"""
  if cache is None:
    cache = {}
  stack = [(t, False)]
  order = []
  while stack:
    x, done = stack.pop()
    k = x.get_id()
    if k in cache:
      continue
    if done:
      r = False
      if z3.is_app(x):
        if _is_mem(x):
          r = True
        else:
          r = any(cache.get(c.get_id(), False) for c in x.children())
      cache[k] = r
      continue
    stack.append((x, True))
    if z3.is_app(x):
      if _is_mem(x):
        continue  # decided at this node, no need to look below
      for c in x.children():
        if c.get_id() not in cache:
          stack.append((c, False))
  return cache[t.get_id()]


_BOUNDS_EXCL = None


def _bounds_excluded():
  global _BOUNDS_EXCL
  if _BOUNDS_EXCL is None:
    import os

    _BOUNDS_EXCL = set()
    p = os.path.join(os.path.dirname(os.path.dirname(os.path.abspath(__file__))), "contracts", "bounds_needs_wf.txt")
    if os.path.exists(p):
      for line in open(p):
        line = line.strip()
        if line and not line.startswith("#"):
          _BOUNDS_EXCL.add(line.split()[0])
  return _BOUNDS_EXCL


def bounds_obligations(run, label):
  """BOUNDS: every array subscript whose index is pure index arithmetic (thread ids, loop counters, integer
  parameters, slots returned by atomic_add -- no value read from memory) lies inside the array, for the extents of
  every launch site: 0 <= idx_k < shape_k. Array shapes and size parameters are tied to the extents of the types.py
  field specs (what make_data / put_model allocate); indices that depend on values read from arrays (model index
  tables, addresses stored in Data) need producer contracts or MODEL_WF facts and are outside this schema."""
  from . import launchsites

  ex = run.ex
  key = run.key
  sites = launchsites.sites_of_kernel(key)
  meta0 = {"function": key, "source_hash": run.info.source_hash, "specialisation": label}
  out = []
  if not sites and getattr(run.info, "kind", "") != "kernel":
    # a @wp.func checked on its own (its callers are outside the dialect): no thread ids; integer parameters named
    # after a Data size (naconmax_in, njmax_in, ...) are that size, by the repo's naming convention
    from .launchsites import Site

    b = {}
    for name, v in run.params.items():
      if isinstance(v, z3.ExprRef) and z3.is_int(v) and name.endswith("_in"):
        b[name] = "d." + name[:-3]
    sites = [Site(host=key, lineno=0, kernel=key, closure={}, dim="()", binding=b)]
  if not sites:
    return out
  # facts about shapes and size parameters
  facts = []
  unknown_shape = set()
  layout_unknown = set()
  for name, v in run.params.items():
    if isinstance(v, ArrRef):
      cls = census.classify_formal(name)
      if cls is None:
        unknown_shape.add(name)
        continue
      if cls[0] == "Constraint" and cls[1] in ("J", "J_colind", "J_rownnz", "J_rowadr"):
        # two layouts (make_data): sparse (nworld, 1, njmax_nnz) / (nworld, njmax); dense J (nworld, njmax_pad, nv_pad)
        sp = run.fr.closure.get("is_sparse")
        if sp is True:
          facts.extend(_spec_facts(run, v, cls[2]))
        elif sp is False and cls[1] == "J":
          facts.extend(_spec_facts(run, v, ("nworld", "njmax_pad", "nv_pad")))
        else:
          layout_unknown.add(name)
        continue
      facts.extend(_spec_facts(run, v, cls[2]))
  # T4: a slot returned by atomic_add on a counter is >= 0
  for a in ex.st.log:
    if a.kind == "atomic" and a.op == "add" and isinstance(a.value, tuple) and isinstance(a.value[1], z3.ExprRef) and z3.is_int(a.value[1]):
      facts.append(a.value[1] >= 0)
  exts = set()
  for a, b in SIZE_FACTS:
    facts.append(_ext(a) <= _ext(b))
  seen_sites = set()
  n_ob = 0
  rd_cache = {}
  for s in sites:
    comps = _dim_components(s.dim) or []
    dimt = [_dim_term(c, s, run) for c in comps]
    sig = tuple(str(d) for d in dimt) + tuple(sorted((f, a) for f, a in s.binding.items() if isinstance(run.params.get(f), z3.ExprRef)))
    if sig in seen_sites:
      continue
    seen_sites.add(sig)
    sf = list(facts)
    no_shape = set()
    for name in unknown_shape:
      tf = _temp_shape_facts(run, s, name)
      if tf is None:
        no_shape.add(name)
      else:
        sf.extend(tf)
    unresolved = set()
    for j, d in enumerate(ex.dims):
      if j < len(dimt) and dimt[j] is not None:
        sf.append(d == dimt[j])
      else:
        unresolved.add(f"tid{j}")
    for f, a in s.binding.items():
      v = run.params.get(f)
      if isinstance(v, z3.ExprRef) and z3.is_int(v):
        t = a.replace(" ", "")
        if t.startswith(("m.", "d.", "mfull.", "dfull.")) and t.count(".") == 1:
          sf.append(v == _ext(t.split(".")[1]))
    seen = set()
    # one incremental solver per launch site: the (integer-projected) background facts are asserted once, every
    # subscript is a push / check / pop. What it proves is final; anything else goes through the general back end.
    from . import smt as _smt

    inc = z3.Solver()
    inc.set("timeout", 2000)
    pstate = run.__dict__.setdefault("_proj_state", {"keep": []})
    try:
      pstate["keep"].append(sf)
      for c in _smt.integer_projection(list(ex.assumes) + sf, pstate):
        inc.add(c)
    except z3.Z3Exception:
      inc = None
    for fname, a in formal_accesses(run):
      if not a.idx or fname in no_shape or fname in layout_unknown:
        continue  # (no shape known: a temporary whose allocation is not visible at the launch site)
      for k, idx in enumerate(a.idx[: a.arr.ndim]):
        if idx is None:
          continue
        t = lift(idx)
        if not z3.is_int(t) or _has_array_read(t, rd_cache):
          continue
        fc = free_consts(t)
        if fc & unresolved:
          continue  # launch extent of that thread-id component is not a resolvable expression
        sg = (fname, k, t.get_id(), zb(a.guard).get_id())
        if sg in seen:
          continue
        seen.add(sg)
        if f"{key}|{fname}[{k}]" in _bounds_excluded():
          continue  # committed list of subscripts that need facts about stored data (contracts/bounds_needs_wf.txt)
                    # (entries `...|lo` / `...|hi` exclude only the lower / upper bound of a subscript)
        sh = ex.shape_sym(a.arr, k)
        n_ob += 1
        oid = f"{key}[{label}]#BOUNDS.{fname}[{k}]@{a.lineno}.{a.kind}@{s.host.split(':')[-1]}:{s.lineno}"
        m = dict(meta0, goal=f"0 <= {str(t)[:60]} < {fname}.shape[{k}] at line {a.lineno} (launch {s.dim})", lineno=a.lineno, int_projection=True, timeout_ms=4000)
        parts = [("hi", sh > 0 if (z3.is_int_value(t) and t.as_long() == 0) else t < sh)]
        if not z3.is_int_value(t):
          parts.append(("lo", t >= 0))
        gproj = None
        for side, goal in parts:
          if f"{key}|{fname}[{k}]|{side}" in _bounds_excluded():
            continue
          oid2 = oid + "." + side
          if inc is not None:
            inc.push()
            try:
              if gproj is None:
                gproj = _smt.integer_projection([zb(a.guard)], pstate)
              for c in gproj:
                inc.add(c)
              inc.add(z3.Not(goal))
              r = inc.check()
            except z3.Z3Exception:
              r = z3.unknown
            inc.pop()
            if r == z3.unsat:
              out.append(Result(oid=oid2, status="discharged", kind="BOUNDS", func=key, backend="z3-5.1(api) incremental, integer projection of the hypotheses", meta={k2: v for k2, v in m.items() if k2 not in ("int_projection", "timeout_ms")}))
              continue
          out.append(Obligation(oid2, list(ex.assumes) + sf + [zb(a.guard)], goal, func=key, kind="BOUNDS", meta=m))
  return out


# ---------------------------------------------------------------------------------------------- RACE (C11)
def _thread_local_consts(terms):
  """constants that belong to one thread: thread ids, loop counters, values returned by atomics, havocked locals"""
  out = {}
  seen = set()
  stack = list(terms)
  while stack:
    x = stack.pop()
    if x.get_id() in seen:
      continue
    seen.add(x.get_id())
    if z3.is_quantifier(x):
      stack.append(x.body())
      continue
    if z3.is_app(x):
      if z3.is_const(x) and x.decl().kind() == z3.Z3_OP_UNINTERPRETED:
        n = x.decl().name()
        if n.startswith("tid") and n[3:].isdigit() or "!" in n or "@atomic_" in n:
          out[n] = x
      stack.extend(x.children())
  return out


def _site_dim_facts(run, site):
  """launch extents and integer parameters of one launch site as facts over extent symbols (see bounds_obligations)"""
  ex = run.ex
  facts = []
  comps = _dim_components(site.dim) or []
  dimt = [_dim_term(c, site, run) for c in comps]
  for j, d in enumerate(ex.dims):
    if j < len(dimt) and dimt[j] is not None:
      facts.append(d == dimt[j])
  for f, a in site.binding.items():
    v = run.params.get(f)
    if isinstance(v, z3.ExprRef) and z3.is_int(v):
      t = a.replace(" ", "")
      if t.startswith(("m.", "d.", "mfull.", "dfull.")) and t.count(".") == 1:
        facts.append(v == _ext(t.split(".")[1]))
  for name, v in run.params.items():
    if isinstance(v, ArrRef):
      cls = census.classify_formal(name)
      if cls is not None and not (cls[0] == "Constraint" and cls[1] in ("J", "J_colind", "J_rownnz", "J_rowadr")):
        facts.extend(_spec_facts(run, v, cls[2]))
  for a, b in SIZE_FACTS:
    facts.append(_ext(a) <= _ext(b))
  return facts, tuple(str(d) for d in dimt)


_TABLE_STORES = None


def _table_stores():
  global _TABLE_STORES
  if _TABLE_STORES is None:
    import os

    _TABLE_STORES = set()
    p = os.path.join(os.path.dirname(os.path.dirname(os.path.abspath(__file__))), "contracts", "race_table_stores.txt")
    if os.path.exists(p):
      for line in open(p):
        line = line.strip()
        if line and not line.startswith("#"):
          _TABLE_STORES.add(line.split()[0])
  return _TABLE_STORES


_RACE_EXCL = None


def _race_excluded():
  global _RACE_EXCL
  if _RACE_EXCL is None:
    import os

    _RACE_EXCL = set()
    p = os.path.join(os.path.dirname(os.path.dirname(os.path.abspath(__file__))), "contracts", "race_needs_wf.txt")
    if os.path.exists(p):
      for line in open(p):
        line = line.strip()
        if line and not line.startswith("#"):
          _RACE_EXCL.add(line.split()[0])
  return _RACE_EXCL


def _index_is_plain(t, cache):
  """RACE's notion of a decidable index: arithmetic over thread ids, loop counters, integer parameters and atomic
  returns only -- no memory read and no loop-carried local (whose value the loop rule leaves unknown)"""
  k = t.get_id()
  if k in cache:
    return cache[k]
  ok = True
  stack = [t]
  seen = set()
  while stack and ok:
    x = stack.pop()
    if x.get_id() in seen:
      continue
    seen.add(x.get_id())
    if z3.is_app(x):
      if x.decl().kind() == z3.Z3_OP_UNINTERPRETED:
        n = x.decl().name()
        if x.num_args() > 0 and n.split("@")[0] not in ("pow2", "div0", "mod0"):
          ok = False
        elif "@L" in n:
          ok = False
      stack.extend(x.children())
  cache[k] = ok
  return ok


def race_obligations(run, label, data_dependent=False):
  """RACE: two DISTINCT threads of one launch never touch the same cell of an array in a conflicting way -- a plain
  store against any other access (store, read, atomic) -- so the result cannot depend on the order in which the
  threads run. Atomic-against-atomic pairs are commutative updates and are accepted (sum order: round-off only);
  the value returned by an atomic_add is the allocator (T4). Stated for subscripts that are pure index arithmetic;
  accesses through index tables need injectivity facts about the tables (MODEL_WF) and are outside this schema.
  Two-thread encoding: the second thread is the first with every thread-local constant renamed."""
  from . import smt as _smt

  ex = run.ex
  key = run.key
  meta0 = {"function": key, "source_hash": run.info.source_hash, "specialisation": label}
  out = []
  if not ex.tids:
    return out
  # block-cooperative kernels (wp.launch_tiled / wp.tile_* / explicit block_dim): the threads of one block work on the
  # same cells by design, synchronised by the tile primitives; the two-thread argument does not apply to them
  import ast as _ast

  from . import launchsites as _ls

  if any(s_.tiled for s_ in _ls.sites_of_kernel(key)) or any(isinstance(n_, _ast.Attribute) and n_.attr.startswith("tile") for n_ in _ast.walk(run.info.node)):
    out.append(Result(oid=f"{key}[{label}]#RACE.block_cooperative", status="out-of-scope", kind="scope", func=key, reason="block-cooperative (tiled) kernel: thread-pair race analysis not applicable", meta=meta0))
    return out
  formals = {v.aid: n for n, v in run.params.items() if isinstance(v, ArrRef)}
  by_arr = {}
  rd_cache = {}
  for a in ex.st.log:
    if a.arr.aid not in formals or a.guard is False or not a.idx:
      continue
    by_arr.setdefault(a.arr.aid, []).append(a)
  pairs = []
  skipped = 0
  for aid, accs in by_arr.items():
    writes = [a for a in accs if a.kind == "w"]
    if not writes:
      continue
    sig_seen = set()
    for wa in writes:
      for b in accs:
        if b.kind == "r" and b is not wa:
          # read against plain store by another thread
          pass
        pure = data_dependent or all(i is None or (z3.is_int(lift(i)) and _index_is_plain(lift(i), rd_cache)) for i in list(wa.idx) + list(b.idx))
        if not pure:
          skipped += 1
          # a plain store through an index table / a stored address: race-free only if the table maps different threads
          # to different cells. The (kernel|formal) pairs of the unchanged tree are listed in contracts/race_table_stores.txt
          # (assumed: MODEL_WF injectivity of those tables). Any OTHER such store is checked against itself in a second
          # thread without that assumption (e.g. an atomic accumulation turned into a plain store).
          if b is wa and f"{key}|{formals[aid]}" not in _table_stores():
            pairs.append((formals[aid], wa, b))
          continue
        sg = (tuple(lift(i).get_id() for i in wa.idx if i is not None), zb(wa.guard).get_id(), tuple(lift(i).get_id() for i in b.idx if i is not None), zb(b.guard).get_id(), b.kind)
        if sg in sig_seen:
          continue
        sig_seen.add(sg)
        if f"{key}|{formals[aid]}" in _race_excluded():
          continue
        pairs.append((formals[aid], wa, b))
  if not pairs:
    return out
  # second thread: rename thread-local constants
  terms = []
  for _, wa, b in pairs:
    terms += [lift(i) for i in list(wa.idx) + list(b.idx) if i is not None] + [zb(wa.guard), zb(b.guard)]
  base = [a for a in ex.assumes if isinstance(a, z3.ExprRef)]
  loc = _thread_local_consts(terms + base)
  ren = [(c, z3.Const(n + "'", c.sort())) for n, c in loc.items()]
  prime = lambda t: z3.substitute(t, *ren) if ren else t
  distinct = z3.Or(*[t != prime(t) for t in ex.tids])
  pstate = {"keep": []}
  # launch extents: facts that hold at EVERY launch site are used (the conjunction of per-site facts would be unsound
  # when sites differ; kernels in question have one site or identical extents)
  site_facts = None
  for s_ in _ls.sites_of_kernel(key):
    f_, sig_ = _site_dim_facts(run, s_)
    cur = {str(x): x for x in f_}
    site_facts = cur if site_facts is None else {k_: v_ for k_, v_ in site_facts.items() if k_ in cur}
  base = base + list((site_facts or {}).values())
  inc = z3.Solver()
  inc.set("timeout", 2000)
  try:
    hyp = _smt.integer_projection(base, pstate)
    hyp2 = [prime(h) for h in hyp]
    pstate["keep"].append(hyp2)
    for c in hyp + hyp2:
      inc.add(c)
    inc.add(distinct)
    # T4 (allocator axiom, two-thread form): blocks handed out by atomic_add on the same counter cell to two
    # different threads are disjoint:  ret + inc <= ret'  or  ret' + inc' <= ret
    atoms_ = [a for a in ex.st.log if a.kind == "atomic" and a.op == "add" and isinstance(a.value, tuple) and isinstance(a.value[1], z3.ExprRef) and z3.is_int(a.value[1])]
    alloc_ax = []
    for a1 in atoms_:
      for a2 in atoms_:
        if a1.arr.aid != a2.arr.aid:
          continue
        try:
          inc1, ret1 = lift(a1.value[0]), a1.value[1]
          inc2, ret2 = prime(lift(a2.value[0])), prime(a2.value[1])
          samecell = z3.And(*[lift(i) == prime(lift(j)) for i, j in zip(a1.idx, a2.idx) if i is not None and j is not None]) if a1.idx else z3.BoolVal(True)
          g1 = z3.And(*_smt.integer_projection([zb(a1.guard)], pstate)) if a1.guard is not True else z3.BoolVal(True)
          g2 = z3.And(*[prime(x) for x in _smt.integer_projection([zb(a2.guard)], pstate)]) if a2.guard is not True else z3.BoolVal(True)
          alloc_ax.append(z3.Implies(z3.And(samecell, g1, g2, inc1 > 0, inc2 > 0), z3.Or(ret1 + inc1 <= ret2, ret2 + inc2 <= ret1)))
        except Exception:
          continue
    for c in alloc_ax:
      inc.add(c)
  except z3.Z3Exception:
    inc = None
  n = 0
  for fname, wa, b in pairs:
    # same-value stores of a thread-independent constant are benign (flags)
    if b.kind == "w" and wa.value is not None and b.value is not None:
      try:
        va, vb = lift(wa.value), lift(b.value)
        if va.eq(vb) and not (set(_thread_local_consts([va])) ):
          continue
      except Exception:
        pass
    n += 1
    gw = _smt.integer_projection([zb(wa.guard)], pstate)
    gb = [prime(x) for x in _smt.integer_projection([zb(b.guard)], pstate)]
    same = z3.And(*[lift(i) == prime(lift(j)) for i, j in zip(wa.idx, b.idx) if i is not None and j is not None])
    goal = z3.Not(same)
    oid = f"{key}[{label}]#RACE.{fname}@{wa.lineno}.w-vs-{b.kind}@{b.lineno}.{n}"
    m = dict(meta0, goal=f"distinct threads: the store to {fname} at line {wa.lineno} and the {'store' if b.kind == 'w' else ('read' if b.kind == 'r' else 'atomic update')} at line {b.lineno} never hit the same cell", lineno=wa.lineno)
    r = z3.unknown
    if inc is not None:
      inc.push()
      try:
        for c in gw + gb:
          inc.add(c)
        inc.add(same)
        r = inc.check()
      except z3.Z3Exception:
        r = z3.unknown
      inc.pop()
    if r == z3.unsat:
      out.append(Result(oid=oid, status="discharged", kind="RACE", func=key, backend="z3-5.1(api) incremental, two-thread encoding, integer projection", meta=m))
    else:
      hyps = list(base) + [prime(h) for h in base] + [distinct, zb(wa.guard), prime(zb(b.guard))] + (alloc_ax if inc is not None else [])
      out.append(Obligation(oid, hyps, goal, func=key, kind="RACE", meta=dict(m, int_projection=True, timeout_ms=4000)))
  return out


COUNTER_CAP = {"nefc": "njmax_in", "nacon": "naconmax_in", "ncollision": "naconmax_in", "efc_nnz": "njmax_nnz_in", "ncon": "naconmax_in"}


def _stem(name):
  for suf in ("_in", "_out"):
    if name.endswith(suf):
      return name[: -len(suf)]
  return name


def capacity_obligations(run, label):
  """CAPACITY (C16): for a kernel with capacity parameters (njmax_in, naconmax_in, njmax_nnz_in)
  and allocator counters (nefc, nacon, ncollision, efc_nnz):
   DEMAND   the increment of a counter is not conditioned on that counter's own capacity or on
            values it returned earlier (so the counter counts demand; relational two-copy check);
   NOOVF    if every allocation fitted (ret + inc <= capacity, which is what 'no overflow bit'
            gives by T4), then every store has the same guard, index and value as with any
            larger capacity (relational: capacity := capacity' >= capacity)."""
  ex = run.ex
  key = run.key
  out = []
  caps = {n: v for n, v in run.params.items() if n in set(COUNTER_CAP.values()) and isinstance(v, z3.ExprRef)}
  if not caps:
    return out
  formals = {v.aid: n for n, v in run.params.items() if isinstance(v, ArrRef)}
  allocs = []  # (access, counter stem, cap name)
  for a in ex.st.log:
    if a.kind == "atomic" and a.op == "add" and a.arr.aid in formals:
      st = _stem(formals[a.arr.aid])
      if st in COUNTER_CAP and COUNTER_CAP[st] in caps and isinstance(a.value, tuple):
        allocs.append((a, st, COUNTER_CAP[st]))
  meta0 = {"function": key, "source_hash": run.info.source_hash, "specialisation": label}
  # DEMAND
  for i, (a, st, capn) in enumerate(allocs):
    cap = caps[capn]
    cap2 = z3.Int(capn + "'")
    pairs = [(cap, cap2)]
    for b, st2, _ in allocs:
      if st2 == st and isinstance(b.value[1], z3.ExprRef):
        pairs.append((b.value[1], z3.Int(b.value[1].decl().name() + "'")))
    g = zb(a.guard)
    g2 = z3.substitute(g, *pairs)
    oid = f"{key}[{label}]#CAPACITY.demand.{st}@{a.lineno}"
    m = dict(meta0, goal=f"the increment of {st} does not depend on {capn} nor on indices {st} returned earlier (the counter counts demand)", lineno=a.lineno)
    if g.eq(g2):
      out.append(Result(oid=oid, status="discharged", kind="CAPACITY", func=key, backend="syntactic", meta=m))
    else:
      out.append(Obligation(oid, list(ex.assumes), g == g2, func=key, kind="CAPACITY", meta=dict(m, timeout_ms=5000)))
  # NOOVF
  if allocs:
    noovf = []
    for a, st, capn in allocs:
      inc, ret = a.value
      fits = z3.And(lift(ret) >= 0, lift(ret) + lift(inc) <= caps[capn])
      if st == "nefc":
        fits = z3.And(fits, lift(inc) >= 1)  # a row allocation asks for at least one row (condim in {1,3,4,6})
      # stated unguarded: `ret` is a fresh symbol that only means something on the paths where the
      # allocation happens, so constraining it everywhere adds nothing (and survives the
      # integer projection, which would drop a hypothesis guarded by a floating-point path)
      noovf.append(fits)
    pairs = [(c, z3.Int(n + "''")) for n, c in caps.items()]
    bigger = [p[1] >= p[0] for p in pairs]
    hyp = list(ex.assumes) + noovf + bigger
    n = 0
    seen = set()
    seen_g = set()
    for a in ex.st.log:
      if a.kind == "r" or a.guard is False:
        continue
      g = zb(a.guard)
      g2 = z3.substitute(g, *pairs)
      terms = [lift(i) for i in a.idx if i is not None]
      vals = []
      v = a.value[0] if (a.kind == "atomic" and isinstance(a.value, tuple)) else a.value
      from .sym import Vec

      if isinstance(v, Vec):
        vals = [lift(c) for c in v.comps]
      elif v is not None and not isinstance(v, tuple):
        try:
          vals = [lift(v)]
        except Unsupported:
          vals = []
      diff_g = not g.eq(g2)
      diff_t = [t for t in terms + vals if not t.eq(z3.substitute(t, *pairs))]
      if not diff_g and not diff_t:
        continue
      sig = (g.get_id(), tuple(t.get_id() for t in diff_t))
      if sig in seen:
        continue
      seen.add(sig)
      conj = []
      if diff_g and g.get_id() not in seen_g:
        seen_g.add(g.get_id())
        conj.append(g == g2)
      if diff_t:
        conj.append(z3.Implies(g, z3.And(*[t == z3.substitute(t, *pairs) for t in diff_t])))
      if not conj:
        continue
      n += 1
      oid = f"{key}[{label}]#CAPACITY.noovf.{a.arr.name}@{a.lineno}.{n}"
      goal = z3.And(*conj)
      keep = [c.decl().name() for c in caps.values()] + [p[1].decl().name() for p in pairs]
      for b, _, _ in allocs:
        if isinstance(b.value[1], z3.ExprRef):
          keep.append(b.value[1].decl().name())
      out.append(Obligation(oid, hyp, goal, func=key, kind="CAPACITY", meta=dict(meta0, goal=f"if every allocation fits, the store to {a.arr.name} at line {a.lineno} happens under the same condition / at the same place as with any larger capacity", lineno=a.lineno, timeout_ms=4000, int_projection=True, keep_syms=keep)))
    if n == 0:
      out.append(Result(oid=f"{key}[{label}]#CAPACITY.noovf", status="discharged", kind="CAPACITY", func=key, backend="syntactic", meta=dict(meta0, goal="no store depends on a capacity parameter")))
  return out


def kernel_group(key, which, dedupe_label=True):
  """group generator for one kernel: all specialisations"""

  def gen(tier):
    from . import extract

    info = extract.get_func(key)
    out = []
    for cl in census.specialisations(info):
      label = census.spec_label(cl)
      try:
        run = census.run_kernel(info, {k: v for k, v in cl.items() if k != "$label"}, fast=True)
      except Unsupported as e:
        out.append(Result(oid=f"{key}[{label}]#translate", status="out-of-scope", kind="scope", func=key, reason=str(e)[:200], meta={"function": key}))
        continue
      except (IndexError, AssertionError, TypeError, AttributeError, KeyError) as e:
        out.append(Result(oid=f"{key}[{label}]#translate", status="out-of-scope", kind="scope", func=key, reason=f"translator limitation {type(e).__name__}: {e}"[:200], meta={"function": key}))
        continue
      # launch-site facts: a closure integer that every launch site binds to `<A>.shape[k]`
      # where formal F is bound to <A> equals F.shape[k] (checked on the launch-site text)
      from . import launchsites

      for cn, formal, k in launchsites.closure_shape_facts(key):
        if cn in cl and isinstance(cl[cn], z3.ExprRef) and isinstance(run.params.get(formal), ArrRef):
          run.ex.assume(cl[cn] == run.ex.shape_sym(run.params[formal], k))
          out.append(Result(oid=f"{key}[{label}]#launch.closure.{cn}", status="discharged", kind="launch-binding", func=key, backend="launch-site analysis", meta={"function": key, "goal": f"every launch site passes {formal}.shape[{k}] for closure parameter {cn}"}))
      if set(which) & {"MODULO", "ISOLATION", "SLOT"}:
        out.extend(world_obligations(run, label, which))
      if "CAPACITY" in which:
        out.extend(capacity_obligations(run, label))
      if "COVER" in which:
        out.extend(cover_obligations(run, label))
      if "BOUNDS" in which:
        out.extend(bounds_obligations(run, label))
      if "RACE" in which:
        out.extend(race_obligations(run, label))
      if "RACE_ALL" in which:
        out.extend(race_obligations(run, label, data_dependent=True))
    return out

  return gen
