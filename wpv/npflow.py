"""Pointwise reading of a straight-line numpy slice of a HOST function (DESIGN.md 12.14).

put_model builds the geom-pair filter table with vectorised numpy statements. Each of them is elementwise over the
pair index p, so the slice is executed symbolically for ONE symbolic pair (g1, g2) = (geom1[p], geom2[p]): the statements are
the real ast nodes of the function in /repo (re-extracted every run), evaluated in order into z3 terms:
  mjm.<field>[idx]            uninterpreted function <field>(idx)
  == != ~ & | on Booleans     the connectives;  & | on integers: 32-bit vectors (Int2BV), exact
  x << k, + - *               integer arithmetic (k a literal)
  np.array(x, dtype=bool)     x != 0
  np.isin(x, mjm.<field>)     uninterpreted predicate in_<field>(x)
  c * np.ones(..)             the constant c
  A[mask] = v                 A := ite(mask, v, A)
  np.triu_indices(n, k=1)     the symbolic pair itself, with 0 <= g1 < g2 < n   (numpy's meaning, trusted)
Statements that assign to an attribute of the Model being built (m.<x> = ...) are skipped (they define no local).
Anything else inside the slice raises Unsupported (-> undecided, never a violation).
"""

from __future__ import annotations

import ast

import z3

from . import extract
from .sym import Unsupported

BV = 32


class Pointwise:
  def __init__(self, key, enums=None):
    self.info = extract.get_func(key)
    self.env = {}
    self.facts = []
    self.ufs = {}
    self.enums = enums or {}
    self.g1, self.g2 = z3.Int("g1"), z3.Int("g2")
    self.executed = []

  def uf(self, name, rng=None):
    if name not in self.ufs:
      self.ufs[name] = z3.Function(name, z3.IntSort(), rng or z3.IntSort())
    return self.ufs[name]

  def scalar(self, name):
    return z3.Int(name)

  # ------------------------------------------------------------ slice
  def run_slice(self, first_target, last_store):
    body = self.info.node.body
    start = end = None
    for k, s in enumerate(body):
      if start is None and isinstance(s, ast.Assign) and any(isinstance(t, ast.Name) and t.id == first_target for t in s.targets):
        start = k
      if start is not None and isinstance(s, ast.Assign) and isinstance(s.targets[0], ast.Subscript) and isinstance(s.targets[0].value, ast.Name) and s.targets[0].value.id == last_store:
        end = k
        break
    if start is None or end is None:
      raise KeyError(f"slice {first_target} .. {last_store}[...] not found in {self.info.key}")
    self.slice = body[start : end + 1]
    self.rest = body[end + 1 :]
    for s in self.slice:
      self.stmt(s)
    return self

  def stmt(self, s):
    if isinstance(s, ast.Expr) and isinstance(s.value, ast.Constant):
      return
    if not isinstance(s, ast.Assign) or len(s.targets) != 1:
      raise Unsupported(f"npflow: statement {ast.unparse(s)[:60]}")
    t = s.targets[0]
    if isinstance(t, ast.Attribute) and isinstance(t.value, ast.Name) and t.value.id == "m":
      return  # field of the Model under construction: defines no local of the slice
    v = self.ev(s.value)
    if isinstance(t, ast.Name):
      self.env[t.id] = v
    elif isinstance(t, ast.Tuple) and all(isinstance(e, ast.Name) for e in t.elts) and isinstance(v, tuple) and len(v) == len(t.elts):
      for e, x in zip(t.elts, v):
        self.env[e.id] = x
    elif isinstance(t, ast.Subscript) and isinstance(t.value, ast.Name) and t.value.id in self.env:
      mask = self.ev(t.slice)
      if not z3.is_bool(mask):
        raise Unsupported("npflow: store through a non-boolean index")
      self.env[t.value.id] = z3.If(mask, self.i(v), self.i(self.env[t.value.id]))
    else:
      raise Unsupported(f"npflow: target {ast.unparse(t)}")
    self.executed.append(ast.unparse(s)[:90])

  # ------------------------------------------------------------ expressions
  def i(self, v):
    if isinstance(v, bool):
      return z3.IntVal(int(v))
    if isinstance(v, int):
      return z3.IntVal(v)
    if z3.is_bv(v):
      return z3.BV2Int(v)
    if z3.is_bool(v):
      return z3.If(v, 1, 0)
    return v

  def b(self, v):
    if isinstance(v, bool):
      return z3.BoolVal(v)
    if isinstance(v, int):
      return z3.BoolVal(v != 0)
    if z3.is_bool(v):
      return v
    if z3.is_bv(v):
      return v != z3.BitVecVal(0, BV)
    return v != 0

  def bv(self, v):
    if z3.is_bv(v):
      return v
    return z3.Int2BV(self.i(v), BV)

  def ev(self, e):
    if isinstance(e, ast.Constant) and isinstance(e.value, (int, bool)):
      return e.value
    if isinstance(e, ast.Name):
      if e.id in self.env:
        return self.env[e.id]
      raise Unsupported(f"npflow: name {e.id}")
    if isinstance(e, ast.Attribute):
      txt = ast.unparse(e)
      if txt in self.enums:
        return int(self.enums[txt])
      if txt.startswith("mjm."):
        return self.scalar(txt)
      raise Unsupported(f"npflow: attribute {txt}")
    if isinstance(e, ast.Subscript):
      base = ast.unparse(e.value)
      if base.startswith("mjm."):
        return self.uf(base[4:])(self.i(self.ev(e.slice)))
      raise Unsupported(f"npflow: subscript {ast.unparse(e)[:50]}")
    if isinstance(e, ast.UnaryOp):
      v = self.ev(e.operand)
      if isinstance(e.op, ast.Invert):
        if z3.is_bool(v) or isinstance(v, bool):
          return z3.Not(self.b(v))
        raise Unsupported("npflow: ~ on integers")
      if isinstance(e.op, ast.Not):
        return z3.Not(self.b(v))
      if isinstance(e.op, ast.USub):
        return -self.i(v)
    if isinstance(e, ast.Compare) and len(e.ops) == 1:
      l, r = self.i(self.ev(e.left)), self.i(self.ev(e.comparators[0]))
      return {ast.Eq: l == r, ast.NotEq: l != r, ast.Lt: l < r, ast.LtE: l <= r, ast.Gt: l > r, ast.GtE: l >= r}[type(e.ops[0])]
    if isinstance(e, ast.BinOp):
      l, r = self.ev(e.left), self.ev(e.right)
      boolish = lambda x: isinstance(x, bool) or (not isinstance(x, int) and z3.is_bool(x))
      if isinstance(e.op, (ast.BitAnd, ast.BitOr)):
        if boolish(l) and boolish(r):
          return (z3.And if isinstance(e.op, ast.BitAnd) else z3.Or)(self.b(l), self.b(r))
        if boolish(l) or boolish(r):
          raise Unsupported("npflow: & | between a Boolean and an integer")
        return self.bv(l) & self.bv(r) if isinstance(e.op, ast.BitAnd) else self.bv(l) | self.bv(r)
      if isinstance(e.op, ast.LShift) and isinstance(r, int):
        return self.i(l) * (2**r)
      if isinstance(e.op, ast.Add):
        return self.i(l) + self.i(r)
      if isinstance(e.op, ast.Sub):
        return self.i(l) - self.i(r)
      if isinstance(e.op, ast.Mult):
        return self.i(l) * self.i(r)
      raise Unsupported(f"npflow: operator {type(e.op).__name__}")
    if isinstance(e, ast.Call):
      f = ast.unparse(e.func)
      kw = {k.arg: ast.unparse(k.value) for k in e.keywords}
      if f == "np.triu_indices" and len(e.args) == 1 and kw == {"k": "1"}:
        n = self.i(self.ev(e.args[0]))
        self.facts += [self.g1 >= 0, self.g1 < self.g2, self.g2 < n]
        return (self.g1, self.g2)
      if f == "np.array" and len(e.args) == 1 and kw == {"dtype": "bool"}:
        return self.b(self.ev(e.args[0]))
      if f == "np.isin" and len(e.args) == 2 and ast.unparse(e.args[1]).startswith("mjm."):
        name = "in_" + ast.unparse(e.args[1])[4:]
        if name not in self.ufs:
          self.ufs[name] = z3.Function(name, z3.IntSort(), z3.BoolSort())
        return self.ufs[name](self.i(self.ev(e.args[0])))
      if f == "np.ones" and kw.get("dtype") == "int":
        return 1
      raise Unsupported(f"npflow: call {f}")
    raise Unsupported(f"npflow: expression {ast.unparse(e)[:60]}")
