"""wpv symbolic executor: Warp kernel dialect (python ast) -> z3 terms.

Semantics assumed (trusted base, see DESIGN.md 2.2):
  T1 int32 -> mathematical Int;  T2 float32 -> Real (no round-off/NaN/inf);
  T3 vector/matrix builtins expanded component-wise by the table below;
  T4 atomic_add on a counter returns a fresh non-negative value (allocator axiom).

Arrays are functional: a state is a python closure idx-tuple -> z3 term over an
uninterpreted base function; every store is guarded by the full path condition.
Scalars are forked/merged with ITE at joins so that concrete values stay concrete.
"""

from __future__ import annotations

import ast
import enum
import itertools
import types as pytypes
from dataclasses import dataclass, field
from fractions import Fraction

import z3

from . import extract
from .consts import CONSTS, enum_namespace

# ----------------------------------------------------------------------------- errors


class Unsupported(Exception):
  """Construct outside the translated dialect -> obligation undecided (never a violation)."""


# ----------------------------------------------------------------------------- types


@dataclass(frozen=True)
class TScalar:
  kind: str  # 'int' | 'float' | 'bool'


@dataclass(frozen=True)
class TVec:
  shape: tuple  # (n,) or (r,c)
  kind: str
  tag: str = ""  # 'quat', 'spatial', ...


@dataclass(frozen=True)
class TArr:
  ndim: int
  elem: object  # TScalar | TVec


@dataclass(frozen=True)
class TStruct:
  name: str
  module: str


T_INT = TScalar("int")
T_FLOAT = TScalar("float")
T_BOOL = TScalar("bool")

WP_VEC_TYPES = {
  "vec2": ((2,), "float"), "vec3": ((3,), "float"), "vec4": ((4,), "float"),
  "vec2f": ((2,), "float"), "vec3f": ((3,), "float"), "vec4f": ((4,), "float"),
  "vec2i": ((2,), "int"), "vec3i": ((3,), "int"), "vec4i": ((4,), "int"),
  "vec2d": ((2,), "float"), "vec3d": ((3,), "float"),
  "quat": ((4,), "float"), "quatf": ((4,), "float"),
  "mat22": ((2, 2), "float"), "mat33": ((3, 3), "float"), "mat44": ((4, 4), "float"),
  "mat22f": ((2, 2), "float"), "mat33f": ((3, 3), "float"), "mat44f": ((4, 4), "float"),
  "spatial_vector": ((6,), "float"), "spatial_vectorf": ((6,), "float"),
  "spatial_matrix": ((6, 6), "float"), "spatial_matrixf": ((6, 6), "float"),
  "transform": ((7,), "float"),
}  # fmt: skip


def vec_type_by_name(name: str):
  if name in WP_VEC_TYPES:
    sh, k = WP_VEC_TYPES[name]
    return TVec(tuple(sh), k, name)
  vt = CONSTS["vectypes"].get(name)
  if vt:
    return TVec(tuple(vt["shape"]), "float" if vt["dtype"] == "f" else "int", name)
  return None


def sort_of(kind: str):
  return {"int": z3.IntSort(), "float": z3.RealSort(), "bool": z3.BoolSort()}[kind]


# ----------------------------------------------------------------------------- values


class Vec:
  __slots__ = ("shape", "comps", "kind", "tag")

  def __init__(self, shape, comps, kind="float", tag=""):
    self.shape = tuple(shape)
    self.comps = list(comps)
    self.kind = kind
    self.tag = tag
    n = 1
    for s in self.shape:
      n *= s
    assert len(self.comps) == n, (shape, len(self.comps))

  def __repr__(self):
    return f"Vec{self.shape}({self.comps})"

  @property
  def n(self):
    return len(self.comps)


class StructVal:
  def __init__(self, tname, fields=None):
    self.tname = tname
    self.fields = dict(fields or {})

  def copy(self):
    return StructVal(self.tname, dict(self.fields))


@dataclass
class ArrRef:
  aid: int
  name: str
  ndim: int
  elem: object  # TScalar | TVec

  @property
  def full_ndim(self):
    return self.ndim + (len(self.elem.shape) if isinstance(self.elem, TVec) else 0)


@dataclass
class RowView:
  """a[i] of a 2-D+ array passed on (row slice): base array + fixed leading indices."""

  base: ArrRef
  lead: tuple


@dataclass
class FuncRef:
  info: object  # extract.FuncInfo
  closure: dict = field(default_factory=dict)
  defframe: object = None  # defining host frame (python late-binding closure)


@dataclass
class ModRef:
  name: str  # repo module name, or 'wp', 'types'


@dataclass
class TypeCtor:
  t: object  # TVec | TScalar | TStruct


@dataclass
class Opaque:
  what: str


@dataclass
class Ghost:
  """ghost (specification-only) function usable in contract expressions"""

  name: str
  fn: object


@dataclass
class Access:
  kind: str  # 'r' | 'w' | 'atomic'
  arr: ArrRef
  idx: tuple  # array indices only (no component index)
  guard: object  # z3 Bool (full path condition incl. loop ranges)
  lineno: int
  value: object = None
  comp: tuple = ()
  bound: tuple = ()  # loop counters in scope
  op: str = ""


def is_conc(v):
  return isinstance(v, (bool, int, float)) and not isinstance(v, z3.ExprRef)


def real_val(f):
  if isinstance(f, bool):
    f = int(f)
  if isinstance(f, int):
    return z3.RealVal(f)
  fr = Fraction(repr(float(f)))
  return z3.Q(fr.numerator, fr.denominator)


def lift(v, kind=None):
  """python number -> z3 term"""
  if isinstance(v, z3.ExprRef):
    if kind == "float" and v.sort() == z3.IntSort():
      return z3.ToReal(v)
    return v
  if isinstance(v, bool):
    if kind == "int":
      return z3.IntVal(int(v))
    if kind == "float":
      return z3.RealVal(int(v))
    return z3.BoolVal(v)
  if isinstance(v, enum.Enum):
    v = int(v)
  if isinstance(v, int):
    if kind == "float":
      return z3.RealVal(v)
    if kind == "bool":
      return z3.BoolVal(v != 0)
    return z3.IntVal(v)
  if isinstance(v, float):
    return real_val(v)
  raise Unsupported(f"lift {type(v)}")


def kind_of(v):
  if isinstance(v, bool):
    return "bool"
  if isinstance(v, int):
    return "int"
  if isinstance(v, float):
    return "float"
  if isinstance(v, z3.ExprRef):
    s = v.sort()
    if s == z3.IntSort():
      return "int"
    if s == z3.RealSort():
      return "float"
    if s == z3.BoolSort():
      return "bool"
  raise Unsupported(f"kind_of {type(v)} {v}")


def tobool(v):
  if isinstance(v, bool):
    return v
  if is_conc(v):
    return v != 0
  if isinstance(v, z3.ExprRef):
    if z3.is_bool(v):
      return v
    return v != 0
  if isinstance(v, enum.Enum):
    return int(v) != 0
  raise Unsupported(f"truth value of {type(v)}")


def simp_bool(b):
  if isinstance(b, bool):
    return b
  s = z3.simplify(b)
  if z3.is_true(s):
    return True
  if z3.is_false(s):
    return False
  return s


def zand(*xs):
  out = []
  for x in xs:
    if x is True:
      continue
    if x is False:
      return False
    out.append(x)
  if not out:
    return True
  if len(out) == 1:
    return out[0]
  return z3.And(*out)


def zor(*xs):
  out = []
  for x in xs:
    if x is False:
      continue
    if x is True:
      return True
    out.append(x)
  if not out:
    return False
  if len(out) == 1:
    return out[0]
  return z3.Or(*out)


def znot(x):
  if isinstance(x, bool):
    return not x
  return z3.Not(x)


def zb(x):
  return z3.BoolVal(x) if isinstance(x, bool) else x


def same(a, b):
  if a is b:
    return True
  if isinstance(a, z3.ExprRef) and isinstance(b, z3.ExprRef):
    return a.eq(b)
  if is_conc(a) and is_conc(b):
    return type(a) is type(b) and a == b
  return False


def ite(c, a, b):
  """merge two values under condition c (z3 Bool or python bool)"""
  if c is True:
    return a
  if c is False:
    return b
  if same(a, b):
    return a
  if isinstance(a, Vec) and isinstance(b, Vec):
    if a.shape != b.shape:
      raise Unsupported("ite on vectors of different shape")
    return Vec(a.shape, [ite(c, x, y) for x, y in zip(a.comps, b.comps)], a.kind, a.tag)
  if isinstance(a, tuple) and isinstance(b, tuple) and len(a) == len(b):
    return tuple(ite(c, x, y) for x, y in zip(a, b))
  if isinstance(a, StructVal) and isinstance(b, StructVal):
    out = StructVal(a.tname)
    for k in set(a.fields) | set(b.fields):
      if k in a.fields and k in b.fields:
        out.fields[k] = ite(c, a.fields[k], b.fields[k])
      else:
        out.fields[k] = a.fields.get(k, b.fields.get(k))
    return out
  if isinstance(a, ArrRef) and isinstance(b, ArrRef):
    if a.aid == b.aid:
      return a
    raise Unsupported("conditional array alias")
  if isinstance(a, (FuncRef, ModRef, TypeCtor, Opaque)) or isinstance(b, (FuncRef, ModRef, TypeCtor, Opaque)):
    return a
  if a is None or b is None:
    return a if b is None else b
  ka, kb = kind_of(a), kind_of(b)
  k = ka
  if ka != kb:
    k = "float" if "float" in (ka, kb) else ("int" if "int" in (ka, kb) else "bool")
  return z3.If(c, lift(a, k), lift(b, k))


# ----------------------------------------------------------------------------- arithmetic


def _num2(a, b):
  ka, kb = kind_of(a), kind_of(b)
  if ka == "bool":
    a = ite(tobool(a), 1, 0) if not is_conc(a) else int(a)
    ka = "int"
  if kb == "bool":
    b = ite(tobool(b), 1, 0) if not is_conc(b) else int(b)
    kb = "int"
  k = "float" if "float" in (ka, kb) else "int"
  return lift(a, k), lift(b, k), k


def pow2_bits(c):
  """list of set bit positions of a non-negative python int"""
  return [i for i in range(c.bit_length()) if (c >> i) & 1]


_UF = {}


def uf(name, *sorts):
  key = (name, tuple(str(s) for s in sorts))
  if key not in _UF:
    _UF[key] = z3.Function(name, *sorts)
  return _UF[key]


def bit_of(x, i):
  """bit i of two's complement integer x as a z3 Bool (floor-division encoding)"""
  return (x / (2**i)) % 2 == 1


class Arith:
  """scalar operators with concrete folding"""

  def __init__(self, ex):
    self.ex = ex

  def binop(self, op, a, b):
    if isinstance(a, enum.Enum):
      a = int(a)
    if isinstance(b, enum.Enum):
      b = int(b)
    if is_conc(a) and is_conc(b):
      return self._conc(op, a, b)
    t = type(op)
    if t in (ast.BitAnd, ast.BitOr, ast.BitXor, ast.LShift, ast.RShift):
      return self._bits(op, a, b)
    if kind_of(a) == "bool" and kind_of(b) == "bool" and t in (ast.BitAnd, ast.BitOr):
      return zand(a, b) if t is ast.BitAnd else zor(a, b)
    x, y, k = _num2(a, b)
    if t is ast.Add:
      return x + y
    if t is ast.Sub:
      return x - y
    if t is ast.Mult:
      return x * y
    if t is ast.Div:
      if k == "int":
        # Warp: int / int is C integer division (truncation toward zero)
        q = z3.If(
          y > 0,
          z3.If(x >= 0, x / y, -((-x) / y)),
          z3.If(x >= 0, -(x / (-y)), (-x) / (-y)),
        )
        return q
      return x / y
    if t is ast.FloorDiv:
      if k != "int":
        raise Unsupported("float //")
      return x / y  # z3 int div (floor for positive divisor)
    if t is ast.Mod:
      if k != "int":
        raise Unsupported("float %")
      return x % y
    if t is ast.Pow:
      if is_conc(b) and int(b) == b and 0 <= b <= 4:
        r = lift(1, k)
        for _ in range(int(b)):
          r = r * x
        return r
      return self.ex.math_uf("pow", x, lift(b, "float"))
    raise Unsupported(f"binop {t.__name__}")

  def _conc(self, op, a, b):
    t = type(op)
    try:
      if t is ast.Add:
        return a + b
      if t is ast.Sub:
        return a - b
      if t is ast.Mult:
        return a * b
      if t is ast.Div:
        if isinstance(a, int) and isinstance(b, int) and not isinstance(a, bool):
          q = abs(a) // abs(b)
          return q if (a >= 0) == (b > 0) else -q
        return a / b
      if t is ast.FloorDiv:
        return a // b
      if t is ast.Mod:
        return a % b
      if t is ast.Pow:
        return a**b
      if t is ast.BitAnd:
        return a & b
      if t is ast.BitOr:
        return a | b
      if t is ast.BitXor:
        return a ^ b
      if t is ast.LShift:
        return a << b
      if t is ast.RShift:
        return a >> b
    except ZeroDivisionError:
      raise Unsupported("concrete division by zero")
    raise Unsupported(f"binop {t.__name__}")

  def _bits(self, op, a, b):
    t = type(op)
    if kind_of(a) == "bool" or kind_of(b) == "bool":
      if kind_of(a) == "bool" and kind_of(b) == "bool":
        if t is ast.BitAnd:
          return zand(tobool(a), tobool(b))
        if t is ast.BitOr:
          return zor(tobool(a), tobool(b))
      raise Unsupported("bit op on bool/int mix")
    if t is ast.BitAnd:
      if is_conc(a):
        a, b = b, a
      if is_conc(b) and b >= 0:
        bits = pow2_bits(b)
        if not bits:
          return 0
        terms = [z3.If(bit_of(a, i), z3.IntVal(2**i), z3.IntVal(0)) for i in bits]
        return terms[0] if len(terms) == 1 else z3.Sum(terms)
      return uf("bitand", z3.IntSort(), z3.IntSort(), z3.IntSort())(lift(a), lift(b))
    if t is ast.BitOr:
      if is_conc(a):
        a, b = b, a
      if is_conc(b) and b >= 0:
        # a | c = a + sum of bits of c not set in a
        bits = pow2_bits(b)
        if not bits:
          return a
        val = a + z3.Sum([z3.If(bit_of(a, i), z3.IntVal(0), z3.IntVal(2**i)) for i in bits])
        # flag words: name the result and state the bit-level definition of `|` for bits 0..15
        # next to its arithmetic value, so that bit tests on the result are propositional
        r = self.ex.fresh("bitor", "int")
        self.ex.assume(r == val)
        for j in range(16):
          self.ex.assume(bit_of(r, j) == (z3.BoolVal(True) if j in bits else bit_of(a, j)))
        return r
      return uf("bitor", z3.IntSort(), z3.IntSort(), z3.IntSort())(lift(a), lift(b))
    if t is ast.BitXor:
      return uf("bitxor", z3.IntSort(), z3.IntSort(), z3.IntSort())(lift(a), lift(b))
    if t is ast.LShift:
      if is_conc(b):
        return a * (2 ** int(b))
      if is_conc(a):
        return a * self.ex.pow2(b)
      return lift(a) * self.ex.pow2(b)
    if t is ast.RShift:
      if is_conc(b):
        return lift(a) / (2 ** int(b))
      return lift(a) / self.ex.pow2(b)
    raise Unsupported("bit op")

  def compare(self, op, a, b):
    if isinstance(a, enum.Enum):
      a = int(a)
    if isinstance(b, enum.Enum):
      b = int(b)
    t = type(op)
    if is_conc(a) and is_conc(b):
      return {
        ast.Eq: a == b, ast.NotEq: a != b, ast.Lt: a < b, ast.LtE: a <= b, ast.Gt: a > b, ast.GtE: a >= b,
      }[t]  # fmt: skip
    if a is None or b is None:
      if t in (ast.Is, ast.Eq):
        return a is b
      if t in (ast.IsNot, ast.NotEq):
        return a is not b
    if kind_of(a) == "bool" and kind_of(b) == "bool":
      x, y = zb(tobool(a)), zb(tobool(b))
      if t is ast.Eq:
        return x == y
      if t is ast.NotEq:
        return x != y
    x, y, _ = _num2(a, b)
    if t is ast.Eq:
      return x == y
    if t is ast.NotEq:
      return x != y
    if t is ast.Lt:
      return x < y
    if t is ast.LtE:
      return x <= y
    if t is ast.Gt:
      return x > y
    if t is ast.GtE:
      return x >= y
    raise Unsupported(f"compare {t.__name__}")


# ----------------------------------------------------------------------------- executor


class State:
  """mutable execution state shared along one function activation chain"""

  def __init__(self):
    self.arrs = {}  # aid -> closure(full idx tuple) -> term
    self.arrs0 = {}  # aid -> initial closure
    self.meta = {}  # aid -> ArrRef
    self.log = []  # Access list
    self.pc = []  # list of z3 Bool / True
    self.bound = []  # loop counters in scope


class Frame:
  def __init__(self, info, closure=None):
    self.info = info
    self.env = {}
    self.closure = dict(closure or {})
    self.loop_ord = 0


SOME = object()  # closure sentinel: "a non-None python object"
SLICE_ALL = object()  # `:` in a matrix subscript


class Exec:
  def __init__(self, hints=None):
    self.fresh_ctr = itertools.count()
    self.assumes = []  # background facts (math axioms, tid ranges, shapes >= 0)
    self.st = State()
    self.ar = Arith(self)
    self.side = []  # side obligations: (name, assumptions(list), goal)
    self.notes = []  # imprecision notes
    self.invariants = {}  # (func key, loop ordinal) -> list[str]
    self.counter_arrays = set()  # array names whose atomic_add returns >= 0 (T4)
    self.tids = []
    self.dims = []
    self.unroll_limit = 40
    self.call_depth = 0
    self.contracts = {}  # func key -> FuncContract (modular call)
    self.hints = hints or {}
    self.inlined = set()
    self._pow2 = None
    self.contract_mode = False

  # --- fresh symbols
  def fresh(self, base, kind):
    n = next(self.fresh_ctr)
    name = f"{base}!{n}"
    if kind == "int":
      return z3.Int(name)
    if kind == "float":
      return z3.Real(name)
    return z3.Bool(name)

  def fresh_of_type(self, base, t):
    if isinstance(t, TScalar):
      return self.sym(base, t.kind)
    if isinstance(t, TVec):
      n = 1
      for s in t.shape:
        n *= s
      return Vec(t.shape, [self.sym(f"{base}.{i}", t.kind) for i in range(n)], t.kind, t.tag)
    if isinstance(t, TArr):
      return self.new_array(base, t.ndim, t.elem)
    raise Unsupported(f"fresh value of type {t}")

  def sym(self, name, kind):
    if kind == "int":
      return z3.Int(name)
    if kind == "float":
      return z3.Real(name)
    return z3.Bool(name)

  def pow2(self, e):
    f = uf("pow2", z3.IntSort(), z3.IntSort())
    r = f(lift(e))
    self.assume(r >= 1)
    return r

  def assume(self, fact):
    if fact is True:
      return
    self.assumes.append(zb(fact))

  def math_uf(self, name, *args):
    f = uf(name, *([z3.RealSort()] * len(args)), z3.RealSort())
    return f(*[lift(a, "float") for a in args])

  # --- arrays
  def new_array(self, name, ndim, elem, base_name=None):
    aid = next(self.fresh_ctr)
    ref = ArrRef(aid, name, ndim, elem)
    self.st.meta[aid] = ref
    f = self._base_uf(base_name or name, ref, 0)
    self.st.arrs[aid] = f
    self.st.arrs0[aid] = f
    return ref

  def _base_uf(self, name, ref, gen):
    kind = ref.elem.kind
    nd = ref.full_ndim
    fn = uf(f"{name}@{gen}" if gen else name, *([z3.IntSort()] * nd), sort_of(kind)) if nd else None
    if nd == 0:
      c = self.sym(name, kind)
      return lambda idx: c
    return lambda idx, fn=fn: fn(*[lift(i, "int") for i in idx])

  def havoc_array(self, ref, why="", guard=None):
    """forget the content of an array. guard: the path condition under which the forgetting construct (a loop)
    was reached at all -- on the other paths (the function had already returned) the content is unchanged"""
    gen = next(self.fresh_ctr)
    fresh = self._base_uf(ref.name, ref, gen)
    if guard is None or guard is True:
      self.st.arrs[ref.aid] = fresh
    elif guard is not False:
      old = self.st.arrs[ref.aid]
      g = zb(guard)
      self.st.arrs[ref.aid] = lambda idx, fresh=fresh, old=old, g=g: ite(g, fresh(idx), old(idx))
    if why:
      self.notes.append(f"havoc {ref.name}: {why}")

  def shape_sym(self, ref, d):
    s = z3.Int(f"{ref.name}.shape{d}")
    return s

  def guard_now(self, fr):
    g = list(self.st.pc)
    for flag in ("$ret", "$brk", "$cnt"):
      v = fr.env.get(flag, False)
      if v is not False:
        g.append(znot(v))
    return zand(*g)

  def active(self, fr):
    g = []
    for flag in ("$ret", "$brk", "$cnt"):
      v = fr.env.get(flag, False)
      if v is not False:
        g.append(znot(v))
    return zand(*g)

  def arr_read(self, ref, idx, fr, lineno, log=True):
    """idx: array indices (len == ref.ndim). returns scalar term or Vec"""
    if isinstance(ref, RowView):
      return self.arr_read(ref.base, tuple(ref.lead) + tuple(idx), fr, lineno, log)
    if len(idx) < ref.ndim:
      return RowView(ref, tuple(idx))
    if len(idx) > ref.ndim:
      # a[i, j][c] folded by caller; here extra indices select components
      base = self.arr_read(ref, idx[: ref.ndim], fr, lineno, log)
      return self.index_value(base, idx[ref.ndim :])
    if log:
      self.st.log.append(Access("r", ref, tuple(idx), self.guard_now(fr), lineno, bound=tuple(self.st.bound)))
    f = self.st.arrs[ref.aid]
    if isinstance(ref.elem, TVec):
      comps = []
      for cidx in itertools.product(*[range(s) for s in ref.elem.shape]):
        comps.append(f(tuple(idx) + cidx))
      return Vec(ref.elem.shape, comps, ref.elem.kind, ref.elem.tag)
    return f(tuple(idx))

  def arr_store(self, ref, idx, val, fr, lineno, comp=(), op="", kind="w"):
    if isinstance(ref, RowView):
      return self.arr_store(ref.base, tuple(ref.lead) + tuple(idx), val, fr, lineno, comp, op, kind)
    if len(idx) != ref.ndim:
      if len(idx) > ref.ndim and isinstance(ref.elem, TVec):
        comp = tuple(idx[ref.ndim :]) + tuple(comp)
        idx = idx[: ref.ndim]
      else:
        raise Unsupported(f"store with {len(idx)} indices into {ref.ndim}-d array {ref.name}")
    g = self.guard_now(fr)
    if isinstance(val, Opaque) and val.what in ("tile_elem", "tile"):
      # value reduced out of a tile: not modelled, unconstrained
      if isinstance(ref.elem, TVec) and not comp:
        val = Vec(ref.elem.shape, [self.fresh("tile_val", ref.elem.kind) for _ in range(_prod(ref.elem.shape))], ref.elem.kind)
      else:
        val = self.fresh("tile_val", ref.elem.kind)
    self.st.log.append(Access(kind, ref, tuple(idx), g, lineno, value=val, comp=tuple(comp), bound=tuple(self.st.bound), op=op))
    if g is False:
      return
    ek = ref.elem.kind
    if isinstance(ref.elem, TVec) and not comp:
      if not isinstance(val, Vec):
        raise Unsupported(f"store scalar into vector array {ref.name}")
      if val.n != _prod(ref.elem.shape):
        raise Unsupported("vector size mismatch in store")
      for cidx, c in zip(itertools.product(*[range(s) for s in ref.elem.shape]), val.comps):
        self._store1(ref, tuple(idx) + cidx, lift(c, ek), g)
    elif isinstance(ref.elem, TVec):
      if len(comp) != len(ref.elem.shape):
        # row of a matrix element: a[i][r] = vec
        if isinstance(val, Vec) and len(comp) == 1 and len(ref.elem.shape) == 2:
          for c in range(ref.elem.shape[1]):
            self._store1(ref, tuple(idx) + (comp[0], c), lift(val.comps[c], ek), g)
          return
        raise Unsupported("partial component store")
      self._store1(ref, tuple(idx) + tuple(comp), lift(val, ek), g)
    else:
      if isinstance(val, Vec):
        raise Unsupported(f"store vector into scalar array {ref.name}")
      self._store1(ref, tuple(idx), lift(val, ek), g)

  def _store1(self, ref, fidx, v, g):
    prev = self.st.arrs[ref.aid]
    fidx = tuple(lift(i, "int") for i in fidx)

    def f(idx, prev=prev, fidx=fidx, v=v, g=g):
      conds = [] if g is True else [g]
      for a, b in zip(idx, fidx):
        if is_conc(a) and z3.is_int_value(b):
          if a != b.as_long():
            return prev(idx)
          continue
        a2 = lift(a, "int")
        if a2.eq(b):
          continue
        conds.append(a2 == b)
      if not conds:
        return v
      return z3.If(z3.And(*conds) if len(conds) > 1 else conds[0], v, prev(idx))

    self.st.arrs[ref.aid] = f

  # --- value helpers
  def index_value(self, base, idx):
    """base[idx...] for Vec / tuple values"""
    if isinstance(base, Vec) and len(base.shape) == 2 and len(idx) == 2 and (idx[0] is SLICE_ALL or idx[1] is SLICE_ALL):
      rows, cols = base.shape
      if idx[0] is SLICE_ALL and idx[1] is not SLICE_ALL:  # column
        return Vec((rows,), [self.index_value(base, (r, idx[1])) for r in range(rows)], base.kind)
      if idx[1] is SLICE_ALL and idx[0] is not SLICE_ALL:  # row
        return self.index_value(base, (idx[0],))
      return base
    if any(i is SLICE_ALL for i in idx):
      raise Unsupported("slice of non-matrix")
    if isinstance(base, Vec):
      if len(idx) == 1 and len(base.shape) == 2:
        r = idx[0]
        rows, cols = base.shape
        if is_conc(r):
          return Vec((cols,), base.comps[r * cols : (r + 1) * cols], base.kind)
        out = []
        for c in range(cols):
          out.append(self._select([base.comps[rr * cols + c] for rr in range(rows)], r))
        return Vec((cols,), out, base.kind)
      if len(idx) == len(base.shape):
        if all(is_conc(i) for i in idx):
          flat = 0
          for i, s in zip(idx, base.shape):
            if i < 0:
              i += s
            if not (0 <= i < s):
              raise Unsupported("constant vector index out of range")
            flat = flat * s + i
          return base.comps[flat]
        if len(idx) == 1:
          return self._select(base.comps, idx[0])
        rows, cols = base.shape
        return self._select([self._select(base.comps[r * cols : (r + 1) * cols], idx[1]) for r in range(rows)], idx[0])
      raise Unsupported("vector index arity")
    if isinstance(base, tuple):
      if len(idx) == 1 and is_conc(idx[0]):
        if not (-len(base) <= idx[0] < len(base)):
          raise Unsupported("tuple index out of range (e.g. shape[k] beyond the annotated ndim)")
        return base[idx[0]]
      raise Unsupported("symbolic tuple index")
    raise Unsupported(f"index into {type(base).__name__}")

  def _select(self, items, i):
    if is_conc(i):
      return items[i]
    out = items[-1]
    for k in range(len(items) - 2, -1, -1):
      out = ite(lift(i) == k, items[k], out)
    return out

  # ------------------------------------------------------------------ name resolution
  def lookup(self, fr, name):
    if name in fr.env:
      return fr.env[name]
    if name in fr.closure:
      return fr.closure[name]
    # enclosing function closures are merged into fr.closure by the caller
    if name in ("int", "float", "bool"):
      return TypeCtor(TScalar(name))
    if name in ("True", "False", "None"):
      return {"True": True, "False": False, "None": None}[name]
    if name == "wp":
      return ModRef("wp")
    if name in ("min", "max", "abs", "range", "len"):
      return Opaque("py:" + name)
    return self.resolve_global(fr.info.module, name)

  def resolve_global(self, module, name):
    r = extract.resolve_symbol(module, name)
    if r is None:
      ns = enum_namespace()
      if hasattr(ns, name):
        return getattr(ns, name)
      if "syncthreads" in name:
        return Opaque("noop")
      raise Unsupported(f"unresolved name {name} in {module}")
    if r[0] == "func":
      if r[1].kind == "native" and "syncthreads" in name:
        return Opaque("noop")
      return FuncRef(r[1])
    if r[0] == "module":
      return ModRef(r[1])
    if r[0] == "extmodule":
      if r[1] in ("warp", "wp"):
        return ModRef("wp")
      return Opaque("extmodule:" + r[1])
    if r[0] == "class":
      ns = enum_namespace()
      if r[1] == "types" and hasattr(ns, r[2].name):
        return getattr(ns, r[2].name)
      vt = vec_type_by_name(r[2].name)
      if vt:
        return TypeCtor(vt)
      return TypeCtor(TStruct(r[2].name, r[1]))
    if r[0] == "assign":
      mod, expr = r[1], r[2]
      ns = enum_namespace()
      if mod == "types" and hasattr(ns, name):
        return getattr(ns, name)
      # module-level constant or alias: evaluate concretely
      return self.eval_static_in_module(mod, expr)
    if r[0] == "extsymbol":
      return Opaque(f"ext:{r[1]}.{r[2]}")
    raise Unsupported(f"name {name}")

  def eval_static_in_module(self, module, expr):
    ns = enum_namespace()
    s = ast.unparse(expr)
    if module == "types":
      nm = s
      if hasattr(ns, nm):
        return getattr(ns, nm)
    vt = vec_type_by_name(s.split(".")[-1])
    if vt and (s.startswith("wp.") or s.startswith("types.") or "." not in s):
      return TypeCtor(vt)
    try:
      fr = Frame(extract.FuncInfo(key=module + ":<module>", module=module, qualname="<module>", node=None, kind="host"))
      v = self.eval(expr, fr)
      return v
    except Unsupported:
      raise
    except Exception as e:
      raise Unsupported(f"module constant {s}: {e}")

  # ------------------------------------------------------------------ expressions
  def eval(self, e, fr):
    m = getattr(self, "e_" + type(e).__name__, None)
    if m is None:
      raise Unsupported(f"expression {type(e).__name__} at {fr.info.key}:{getattr(e, 'lineno', '?')}")
    return m(e, fr)

  def e_Constant(self, e, fr):
    return e.value

  def e_Name(self, e, fr):
    return self.lookup(fr, e.id)

  def e_Tuple(self, e, fr):
    return tuple(self.eval(x, fr) for x in e.elts)

  def e_List(self, e, fr):
    return [self.eval(x, fr) for x in e.elts]

  def e_Attribute(self, e, fr):
    base = self.eval(e.value, fr)
    return self.getattr_value(base, e.attr, fr, e)

  def getattr_value(self, base, attr, fr, e=None):
    if isinstance(base, ModRef):
      if base.name == "wp":
        vt = vec_type_by_name(attr)
        if vt:
          return TypeCtor(vt)
        if attr in ("float32", "float64", "float", "float16"):
          return TypeCtor(T_FLOAT)
        if attr in ("int32", "int64", "int", "uint32", "uint8", "int8", "int16", "uint16", "uint64"):
          return TypeCtor(T_INT)
        if attr == "bool":
          return TypeCtor(T_BOOL)
        if attr == "inf":
          inf = z3.Real("wp.inf")
          self.assume(inf >= z3.RealVal(10) ** 30)
          return inf
        if attr == "pi" or attr == "PI":
          return self.pi()
        return Opaque("wp." + attr)
      if base.name == "types":
        ns = enum_namespace()
        if hasattr(ns, attr):
          return getattr(ns, attr)
      return self.resolve_global(base.name, attr)
    if isinstance(base, RowView) and attr == "shape":
      return tuple(self.shape_sym(base.base, d) for d in range(len(base.lead), base.base.ndim))
    if isinstance(base, ArrRef):
      if attr == "shape":
        return tuple(self.shape_sym(base, d) for d in range(base.ndim))
      if attr == "size":
        n = self.shape_sym(base, 0)
        for d in range(1, base.ndim):
          n = n * self.shape_sym(base, d)
        return n
    if isinstance(base, StructVal):
      if attr in base.fields:
        return base.fields[attr]
      raise Unsupported(f"struct field {attr} read before assignment")
    if isinstance(base, Vec):
      if attr in ("x", "y", "z", "w") and len(base.shape) == 1:
        i = "xyzw".index(attr)
        return base.comps[i]
    if isinstance(base, enum.Enum) and attr == "value":
      return int(base.value)
    if isinstance(base, type) and issubclass(base, enum.Enum):
      return getattr(base, attr)
    if isinstance(base, pytypes.SimpleNamespace):
      return getattr(base, attr)
    if isinstance(base, Opaque) and base.what.startswith("extmodule:"):
      if base.what == "extmodule:mujoco" and attr in CONSTS.get("mujoco_consts", {}):
        return CONSTS["mujoco_consts"][attr]
      return Opaque(base.what + "." + attr)
    if isinstance(base, (int, float)) and attr == "value":
      return base
    if isinstance(base, dict) and attr in base:
      return base[attr]
    if hasattr(base, "__dict__") and attr in getattr(base, "__dict__", {}):
      return getattr(base, attr)
    raise Unsupported(f"attribute .{attr} of {type(base).__name__}")

  def pi(self):
    p = z3.Real("pi")
    self.assume(z3.And(p > z3.Q(314159, 100000), p < z3.Q(314160, 100000)))
    return p

  def e_UnaryOp(self, e, fr):
    v = self.eval(e.operand, fr)
    if isinstance(v, Opaque) and v.what == "tile":
      return v
    if isinstance(v, Opaque) and v.what == "tile_elem":
      return self.fresh("tile_val", "float")
    if isinstance(e.op, ast.Not):
      b = tobool(v)
      return znot(b)
    if isinstance(e.op, ast.USub):
      if isinstance(v, Vec):
        return Vec(v.shape, [self._neg(c) for c in v.comps], v.kind, v.tag)
      return self._neg(v)
    if isinstance(e.op, ast.UAdd):
      return v
    if isinstance(e.op, ast.Invert):
      if is_conc(v):
        return ~v
      return -lift(v) - 1
    raise Unsupported("unary op")

  def _neg(self, v):
    if isinstance(v, enum.Enum):
      v = int(v)
    if is_conc(v):
      return -v
    return -v

  def e_BoolOp(self, e, fr):
    vals = []
    isand = isinstance(e.op, ast.And)
    for x in e.values:
      v = simp_bool(tobool(self.eval(x, fr))) if True else None
      if isand and v is False:
        return False
      if (not isand) and v is True:
        return True
      vals.append(v)
    return zand(*vals) if isand else zor(*vals)

  def e_Compare(self, e, fr):
    left = self.eval(e.left, fr)
    res = []
    for op, right_e in zip(e.ops, e.comparators):
      right = self.eval(right_e, fr)
      if (isinstance(left, Opaque) and left.what == "tile_elem") or (isinstance(right, Opaque) and right.what == "tile_elem"):
        res.append(self.fresh("tile_cmp", "bool"))
        left = right
        continue
      if isinstance(op, (ast.In, ast.NotIn)):
        if isinstance(right, (tuple, list)):
          r = zor(*[self.ar.compare(ast.Eq(), left, x) for x in right])
          res.append(r if isinstance(op, ast.In) else znot(r))
        else:
          raise Unsupported("in")
      elif isinstance(op, (ast.Is, ast.IsNot)):
        if left is None or right is None or left is SOME or right is SOME:
          r = left is right
          res.append(r if isinstance(op, ast.Is) else not r)
        else:
          raise Unsupported("is")
      elif isinstance(left, Vec) or isinstance(right, Vec):
        if not (isinstance(left, Vec) and isinstance(right, Vec) and left.n == right.n and isinstance(op, (ast.Eq, ast.NotEq))):
          raise Unsupported("vector comparison")
        eq = zand(*[self.ar.compare(ast.Eq(), x, y) for x, y in zip(left.comps, right.comps)])
        res.append(eq if isinstance(op, ast.Eq) else znot(eq))
      else:
        res.append(self.ar.compare(op, left, right))
      left = right
    return zand(*res)

  def e_IfExp(self, e, fr):
    c = simp_bool(tobool(self.eval(e.test, fr)))
    if c is True:
      return self.eval(e.body, fr)
    if c is False:
      return self.eval(e.orelse, fr)
    return ite(c, self.eval(e.body, fr), self.eval(e.orelse, fr))

  def e_BinOp(self, e, fr):
    a = self.eval(e.left, fr)
    b = self.eval(e.right, fr)
    return self.binop(e.op, a, b)

  def binop(self, op, a, b):
    if (isinstance(a, Opaque) and a.what == "tile") or (isinstance(b, Opaque) and b.what == "tile"):
      return Opaque("tile")
    if (isinstance(a, Opaque) and a.what == "tile_elem") or (isinstance(b, Opaque) and b.what == "tile_elem"):
      # element of a tile: value not modelled (scalar or vector, unknown) -> unconstrained result
      o = b if isinstance(a, Opaque) else a
      if isinstance(o, Vec):
        return Vec(o.shape, [self.fresh("tile_val", "float") for _ in o.comps], "float")
      return self.fresh("tile_val", "float")
    if isinstance(a, Vec) or isinstance(b, Vec):
      return self.vec_binop(op, a, b)
    if isinstance(a, tuple) and isinstance(b, tuple) and isinstance(op, ast.Add):
      return a + b
    return self.ar.binop(op, a, b)

  def vec_binop(self, op, a, b):
    t = type(op)
    A = self.ar
    if t is ast.MatMult:
      return self.matmul(a, b)
    if isinstance(a, Vec) and isinstance(b, Vec):
      if a.shape != b.shape:
        if t is ast.Mult and (len(a.shape) == 2 or len(b.shape) == 2):
          return self.matmul(a, b)  # Warp: mat * vec / vec * mat / mat * mat are products
        raise Unsupported("vector shape mismatch")
      if t in (ast.Add, ast.Sub):
        return Vec(a.shape, [A.binop(op, x, y) for x, y in zip(a.comps, b.comps)], a.kind, a.tag)
      if t is ast.Mult:
        if len(a.shape) == 2:
          return self.matmul(a, b)
        if a.tag in ("quat", "quatf") and b.tag in ("quat", "quatf"):
          # Warp's own quaternion product, layout (x, y, z, w)
          m = lambda p, q: A.binop(ast.Mult(), p, q)
          ad = lambda p, q: A.binop(ast.Add(), p, q)
          sb = lambda p, q: A.binop(ast.Sub(), p, q)
          ax, ay, az, aw = a.comps
          bx, by, bz, bw = b.comps
          return Vec(
            (4,),
            [
              sb(ad(ad(m(aw, bx), m(ax, bw)), m(ay, bz)), m(az, by)),
              ad(ad(sb(m(aw, by), m(ax, bz)), m(ay, bw)), m(az, bx)),
              ad(sb(ad(m(aw, bz), m(ax, by)), m(ay, bx)), m(az, bw)),
              sb(sb(sb(m(aw, bw), m(ax, bx)), m(ay, by)), m(az, bz)),
            ],
            "float",
            a.tag,
          )
        return Vec(a.shape, [A.binop(op, x, y) for x, y in zip(a.comps, b.comps)], a.kind)
      if t is ast.Div:
        return Vec(a.shape, [A.binop(op, x, y) for x, y in zip(a.comps, b.comps)], a.kind)
      raise Unsupported(f"vec op {t.__name__}")
    if isinstance(a, Vec):
      if t in (ast.Mult, ast.Div):
        return Vec(a.shape, [A.binop(op, x, b) for x in a.comps], a.kind if kind_of(b) != "float" else "float", a.tag if t is ast.Mult else "")
      raise Unsupported("vec op scalar")
    if t is ast.Mult:
      return Vec(b.shape, [A.binop(op, a, x) for x in b.comps], b.kind if kind_of(a) != "float" else "float")
    raise Unsupported("scalar op vec")

  def matmul(self, a, b):
    A = self.ar
    mul, add = ast.Mult(), ast.Add()

    def dot(xs, ys):
      acc = None
      for x, y in zip(xs, ys):
        p = A.binop(mul, x, y)
        acc = p if acc is None else A.binop(add, acc, p)
      return acc

    if not (isinstance(a, Vec) and isinstance(b, Vec)):
      raise Unsupported("matmul operands")
    if len(a.shape) == 2 and len(b.shape) == 1:
      r, c = a.shape
      if c != b.shape[0]:
        raise Unsupported("matmul shape")
      return Vec((r,), [dot(a.comps[i * c : (i + 1) * c], b.comps) for i in range(r)])
    if len(a.shape) == 2 and len(b.shape) == 2:
      r, c = a.shape
      c2, k = b.shape
      if c != c2:
        raise Unsupported("matmul shape")
      out = []
      for i in range(r):
        for j in range(k):
          out.append(dot(a.comps[i * c : (i + 1) * c], [b.comps[m * k + j] for m in range(c2)]))
      return Vec((r, k), out)
    if len(a.shape) == 1 and len(b.shape) == 2:
      r, k = b.shape
      if a.shape[0] != r:
        raise Unsupported("matmul shape")
      return Vec((k,), [dot(a.comps, [b.comps[m * k + j] for m in range(r)]) for j in range(k)])
    raise Unsupported("matmul")

  def e_Subscript(self, e, fr):
    base = self.eval(e.value, fr)
    idx = self._index_tuple(e.slice, fr)
    if isinstance(base, (ArrRef, RowView)):
      return self.arr_read(base, idx, fr, e.lineno)
    if isinstance(base, Opaque) and base.what == "tile":
      return Opaque("tile_elem")
    if isinstance(base, Opaque) and base.what == "tile_elem":
      return self.fresh("tile_val", "float")
    if isinstance(base, TypeCtor) or isinstance(base, Opaque):
      # wp.array[float] in annotations handled by parse_type; here: unsupported
      raise Unsupported("subscript of type")
    if isinstance(base, list):
      if len(idx) == 1 and is_conc(idx[0]):
        return base[idx[0]]
      raise Unsupported("symbolic list index")
    return self.index_value(base, idx)

  def _index_tuple(self, s, fr):
    def one(x):
      if isinstance(x, ast.Slice):
        if x.lower is None and x.upper is None and x.step is None:
          return SLICE_ALL
        raise Unsupported("slice with bounds")
      return self.eval(x, fr)

    if isinstance(s, ast.Tuple):
      return tuple(one(x) for x in s.elts)
    return (one(s),)

  # ------------------------------------------------------------------ calls
  def e_Call(self, e, fr):
    fs = ast.unparse(e.func)
    if fs == "wp.static":
      return self.eval_static(e.args[0], fr)
    if fs == "wp.tid":
      raise Unsupported("wp.tid() outside an assignment")
    if fs in ("wp.printf", "wp.print", "print"):
      return None
    if self.contract_mode and fs in ("old", "implies", "iff", "bit", "ite", "forall", "exists"):
      return self.contract_call(fs, e, fr)
    callee = self.eval(e.func, fr)
    if e.keywords and not isinstance(callee, (FuncRef, TypeCtor)):
      kw = {k.arg: self.eval(k.value, fr) for k in e.keywords}
    else:
      kw = {k.arg: self.eval(k.value, fr) for k in e.keywords}
    args = [self.eval(a, fr) for a in e.args]
    return self.call(callee, args, kw, fr, e)

  def contract_call(self, fn, e, fr):
    if fn == "old":
      saved = self.st.arrs
      self.st.arrs = self.st.arrs0
      try:
        return self.eval(e.args[0], fr)
      finally:
        self.st.arrs = saved
    if fn in ("forall", "exists"):
      # forall(x, body) / forall((x, y), body): x ranges over the integers
      names = [n.id for n in (e.args[0].elts if isinstance(e.args[0], ast.Tuple) else [e.args[0]])]
      qv = [z3.Int(f"{n}!q{next(self.fresh_ctr)}") for n in names]
      saved_env = {n: fr.env.get(n, None) for n in names}
      had = {n: n in fr.env for n in names}
      for n, v in zip(names, qv):
        fr.env[n] = v
      try:
        body = zb(tobool(self.eval(e.args[1], fr)))
      finally:
        for n in names:
          if had[n]:
            fr.env[n] = saved_env[n]
          else:
            fr.env.pop(n, None)
      return z3.ForAll(qv, body) if fn == "forall" else z3.Exists(qv, body)
    a = [self.eval(x, fr) for x in e.args]
    if fn == "implies":
      return z3.Implies(zb(tobool(a[0])), zb(tobool(a[1])))
    if fn == "iff":
      return zb(tobool(a[0])) == zb(tobool(a[1]))
    if fn == "bit":
      x, i = a
      if not is_conc(i):
        raise Unsupported("bit(x, symbolic)")
      if is_conc(x):
        return bool((x >> i) & 1)
      return bit_of(lift(x), int(i))
    if fn == "ite":
      return ite(simp_bool(tobool(a[0])), a[1], a[2])
    raise Unsupported(fn)

  def eval_static(self, expr, fr):
    """wp.static(e): evaluated at kernel-build time from closure constants / module constants."""
    try:
      v = self.eval(expr, fr)
    except Unsupported as ex:
      raise Unsupported(f"wp.static({ast.unparse(expr)}): {ex}")
    if isinstance(v, z3.ExprRef):
      s = z3.simplify(v)
      if z3.is_true(s):
        return True
      if z3.is_false(s):
        return False
      if z3.is_int_value(s):
        return s.as_long()
      # symbolic closure integer: stays symbolic
      return v
    return v

  def call(self, callee, args, kw, fr, e):
    if isinstance(callee, TypeCtor):
      return self.construct(callee.t, args, kw, fr)
    if isinstance(callee, FuncRef):
      return self.call_func(callee, args, kw, fr, e)
    if isinstance(callee, Opaque):
      w = callee.what
      if w == "noop":
        return None
      if w.startswith("wp."):
        from . import builtins as B

        return B.call_builtin(self, w[3:], args, kw, fr, e)
      if w.startswith("py:"):
        from . import builtins as B

        return B.call_py(self, w[3:], args, kw, fr, e)
      raise Unsupported(f"call of {w}")
    if isinstance(callee, Ghost):
      return callee.fn(*args)
    if isinstance(callee, type) and issubclass(callee, enum.Enum):
      if len(args) == 1 and is_conc(args[0]):
        return callee(args[0])
      return args[0]
    raise Unsupported(f"call of {type(callee).__name__} ({ast.unparse(e.func)})")

  def construct(self, t, args, kw, fr):
    if isinstance(t, TScalar):
      if not args:
        return {"int": 0, "float": 0.0, "bool": False}[t.kind]
      return self.cast(args[0], t.kind)
    if isinstance(t, TVec):
      n = _prod(t.shape)
      flat = []
      for a in args:
        if isinstance(a, Vec):
          flat.extend(a.comps)
        else:
          flat.append(a)
      if len(args) == 0:
        z = 0.0 if t.kind == "float" else 0
        return Vec(t.shape, [z] * n, t.kind, t.tag)
      if len(flat) == 1 and not isinstance(args[0], Vec):
        return Vec(t.shape, [self.cast(flat[0], t.kind)] * n, t.kind, t.tag)
      if len(args) > 1 and any(isinstance(a, Vec) for a in args) and len(t.shape) == 2:
        # matrix from vectors: Warp treats vector arguments as COLUMNS
        r, c = t.shape
        if all(isinstance(a, Vec) and a.n == r for a in args) and len(args) == c:
          comps = [None] * n
          for j, col in enumerate(args):
            for i in range(r):
              comps[i * c + j] = self.cast(col.comps[i], t.kind)
          return Vec(t.shape, comps, t.kind, t.tag)
        raise Unsupported("matrix constructor from vectors")
      if len(flat) != n:
        raise Unsupported(f"constructor {t.tag or t.shape} with {len(flat)} components")
      return Vec(t.shape, [self.cast(x, t.kind) for x in flat], t.kind, t.tag)
    if isinstance(t, TStruct):
      # Warp zero-initialises the fields of a freshly constructed struct
      from .contracts import parse_type

      sv = StructVal(t.name)
      r = extract.resolve_symbol(t.module, t.name)
      if r and r[0] == "class":
        for fname, ann in extract.struct_fields(r[1], r[2]).items():
          try:
            ft = parse_type(ann, r[1])
          except Unsupported:
            continue
          if isinstance(ft, TScalar):
            sv.fields[fname] = {"int": 0, "float": 0.0, "bool": False}[ft.kind]
          elif isinstance(ft, TVec):
            sv.fields[fname] = Vec(ft.shape, [0.0 if ft.kind == "float" else 0] * _prod(ft.shape), ft.kind, ft.tag)
          elif isinstance(ft, TArr):
            ref = self.new_array(f"{t.name}.{fname}@null", ft.ndim, ft.elem)
            for d in range(ft.ndim):
              self.assume(self.shape_sym(ref, d) == 0)
            sv.fields[fname] = ref
      return sv
    raise Unsupported("constructor")

  def cast(self, v, kind):
    if isinstance(v, enum.Enum):
      v = int(v)
    if isinstance(v, Opaque) and v.what == "tile_elem":
      return self.fresh("tile_val", kind)
    if isinstance(v, Vec):
      return Vec(v.shape, [self.cast(c, kind) for c in v.comps], kind, v.tag)
    k = kind_of(v)
    if is_conc(v):
      return {"int": int, "float": float, "bool": bool}[kind](v)
    if k == kind:
      return v
    if kind == "float":
      if k == "int":
        return z3.ToReal(v)
      return z3.If(v, z3.RealVal(1), z3.RealVal(0))
    if kind == "int":
      if k == "bool":
        return z3.If(v, z3.IntVal(1), z3.IntVal(0))
      # float -> int: C truncation toward zero
      fl = z3.ToInt(v)
      return z3.If(v >= 0, fl, -z3.ToInt(-v))
    if kind == "bool":
      return v != 0
    raise Unsupported("cast")

  def _overload_matches(self, info, args, kw):
    params = info.node.args.args
    nd = len(info.node.args.defaults)
    if not (len(params) - nd <= len(args) + len(kw) <= len(params)):
      return False
    for a, v in zip(params, args):
      if a.annotation is None:
        continue
      s = ast.unparse(a.annotation).split(".")[-1]
      vt = vec_type_by_name(s)
      if vt is not None:
        if not isinstance(v, Vec) or tuple(v.shape) != tuple(vt.shape):
          return False
      elif s in ("int", "float", "bool", "int32", "float32"):
        if isinstance(v, (Vec, ArrRef, RowView, StructVal)):
          return False
      elif s.startswith("array"):
        if not isinstance(v, (ArrRef, RowView)):
          return False
    return True

  def call_func(self, fref, args, kw, fr, e):
    info = fref.info
    if getattr(info, "overloads", None):
      cands = [c for c in [info] + list(info.overloads) if self._overload_matches(c, args, kw)]
      if len(cands) != 1:
        raise Unsupported(f"overload resolution for {info.key}: {len(cands)} candidates")
      if cands[0] is not info:
        fref = FuncRef(cands[0], closure=fref.closure, defframe=fref.defframe)
        info = cands[0]
    if info.kind == "native":
      raise Unsupported(f"native func {info.key}")
    if info.key in self.contracts:
      return self.contracts[info.key].apply(self, args, kw, fr, e)
    if self.call_depth > 24:
      raise Unsupported("call depth")
    node = info.node
    nf = Frame(info, closure=self.closure_for(fref, fr))
    params = [a.arg for a in node.args.args]
    defaults = node.args.defaults
    vals = dict(zip(params, args))
    for k, v in kw.items():
      vals[k] = v
    if len(vals) < len(params):
      for p, d in zip(params[len(params) - len(defaults) :], defaults):
        if p not in vals:
          vals[p] = self.eval(d, nf)
    if len(vals) != len(params):
      raise Unsupported(f"arity mismatch calling {info.key}")
    for p in params:
      v = vals[p]
      if isinstance(v, StructVal):
        v = v.copy()
      nf.env[p] = v
    self.inlined.add(info.key)
    self.call_depth += 1
    # the callee runs only on paths where the caller is still active (not returned/broken)
    self.st.pc.append(self.active(fr))
    try:
      self.exec_block(node.body, nf)
    finally:
      self.st.pc.pop()
      self.call_depth -= 1
    return nf.env.get("$retval")

  def closure_for(self, fref, fr):
    if fref.defframe is not None:
      c = dict(fref.defframe.closure)
      c.update({k: v for k, v in fref.defframe.env.items() if not k.startswith("$")})
      return c
    c = dict(fref.closure or {})
    # a function nested in the same outer function shares the current closure
    if fref.info.parent is not None and fr.info is not None:
      p = fr.info
      while p is not None:
        if p is fref.info.parent or (fr.info.parent is fref.info.parent):
          for k, v in fr.closure.items():
            c.setdefault(k, v)
          break
        p = p.parent
    return c

  # ------------------------------------------------------------------ statements
  def exec_block(self, stmts, fr):
    for s in stmts:
      if fr.env.get("$ret") is True or fr.env.get("$brk") is True or fr.env.get("$cnt") is True:
        break
      m = getattr(self, "s_" + type(s).__name__, None)
      if m is None:
        raise Unsupported(f"statement {type(s).__name__} at {fr.info.key}:{s.lineno}")
      m(s, fr)

  def s_Pass(self, s, fr):
    pass

  def s_FunctionDef(self, s, fr):
    info = fr.info.nested.get(s.name) if fr.info is not None else None
    if info is None:
      raise Unsupported(f"nested def {s.name}")
    fr.env[s.name] = FuncRef(info, closure={}, defframe=fr)  # python closure: late binding

  def s_Expr(self, s, fr):
    if isinstance(s.value, ast.Constant):
      return  # docstring
    self.eval(s.value, fr)

  def s_Assert(self, s, fr):
    pass

  def s_Return(self, s, fr):
    v = self.eval(s.value, fr) if s.value is not None else None
    act = self.active(fr)
    if "$retval" in fr.env and fr.env.get("$ret", False) is not False:
      fr.env["$retval"] = ite(fr.env["$ret"], fr.env["$retval"], v)
    else:
      fr.env["$retval"] = v
    fr.env["$ret"] = simp_bool(zor(fr.env.get("$ret", False), act))

  def s_Break(self, s, fr):
    fr.env["$brk"] = simp_bool(zor(fr.env.get("$brk", False), self.active(fr)))

  def s_Continue(self, s, fr):
    fr.env["$cnt"] = simp_bool(zor(fr.env.get("$cnt", False), self.active(fr)))

  def active_loop(self, fr):
    # scalars of returned paths are dead, so only break/continue guard scalar assignments
    g = []
    for flag in ("$brk", "$cnt"):
      v = fr.env.get(flag, False)
      if v is not False:
        g.append(znot(v))
    return zand(*g)

  def assign_name(self, fr, name, val):
    act = self.active_loop(fr)
    if act is True or name not in fr.env:
      fr.env[name] = val
    else:
      fr.env[name] = ite(act, val, fr.env[name])

  def s_Assign(self, s, fr):
    if isinstance(s.value, ast.Call) and ast.unparse(s.value.func) == "wp.tid":
      tgt = s.targets[0]
      n = len(tgt.elts) if isinstance(tgt, ast.Tuple) else 1
      vals = self.make_tids(n)
      if n == 1:
        self.assign_target(tgt, vals[0], fr)
      else:
        for t, v in zip(tgt.elts, vals):
          self.assign_target(t, v, fr)
      return
    v = self.eval(s.value, fr)
    for tgt in s.targets:
      self.assign_target(tgt, v, fr)

  def s_AnnAssign(self, s, fr):
    if s.value is not None:
      self.assign_target(s.target, self.eval(s.value, fr), fr)

  def make_tids(self, n):
    if not self.tids:
      for i in range(n):
        t = z3.Int(f"tid{i}")
        d = z3.Int(f"dim{i}")
        self.tids.append(t)
        self.dims.append(d)
        self.assume(z3.And(t >= 0, t < d))
    if len(self.tids) != n:
      raise Unsupported("wp.tid() arity differs between calls")
    return list(self.tids)

  def assign_target(self, tgt, v, fr):
    if isinstance(tgt, ast.Name):
      if isinstance(v, StructVal):
        v = v.copy()
      self.assign_name(fr, tgt.id, v)
      return
    if isinstance(tgt, ast.Tuple):
      if not isinstance(v, tuple) or len(v) != len(tgt.elts):
        raise Unsupported("tuple assignment arity")
      for t, x in zip(tgt.elts, v):
        self.assign_target(t, x, fr)
      return
    if isinstance(tgt, ast.Subscript):
      # find root
      chain = []
      node = tgt
      while isinstance(node, ast.Subscript):
        chain.append(self._index_tuple(node.slice, fr))
        node = node.value
      chain.reverse()
      root = self.eval(node, fr)
      flat = tuple(i for c in chain for i in c)
      if isinstance(root, (ArrRef, RowView)):
        self.arr_store(root, flat, v, fr, tgt.lineno)
        return
      if isinstance(root, Vec):
        new = self.vec_update(root, flat, v)
        self.assign_target(node, new, fr)
        return
      raise Unsupported(f"subscript store into {type(root).__name__}")
    if isinstance(tgt, ast.Attribute):
      base = self.eval(tgt.value, fr)
      if isinstance(base, StructVal):
        act = self.active_loop(fr)
        if act is True or tgt.attr not in base.fields:
          base.fields[tgt.attr] = v
        else:
          base.fields[tgt.attr] = ite(act, v, base.fields[tgt.attr])
        return
      if isinstance(base, Vec) and tgt.attr in "xyzw":
        new = self.vec_update(base, ("xyzw".index(tgt.attr),), v)
        self.assign_target(tgt.value, new, fr)
        return
      raise Unsupported("attribute store")
    raise Unsupported(f"assignment target {type(tgt).__name__}")

  def vec_update(self, vec, idx, v):
    comps = list(vec.comps)
    if len(idx) == 1 and len(vec.shape) == 2:
      # row assignment m[r] = vec
      r = idx[0]
      rows, cols = vec.shape
      if not isinstance(v, Vec) or v.n != cols:
        raise Unsupported("matrix row assignment")
      for rr in range(rows):
        for c in range(cols):
          if is_conc(r):
            if rr == r:
              comps[rr * cols + c] = v.comps[c]
          else:
            comps[rr * cols + c] = ite(lift(r) == rr, v.comps[c], comps[rr * cols + c])
      return Vec(vec.shape, comps, vec.kind, vec.tag)
    if len(idx) != len(vec.shape):
      raise Unsupported("vector component store arity")
    if all(is_conc(i) for i in idx):
      flat = 0
      for i, s in zip(idx, vec.shape):
        flat = flat * s + i
      comps[flat] = v
    else:
      for flat, cidx in enumerate(itertools.product(*[range(s) for s in vec.shape])):
        cond = zand(*[self.ar.compare(ast.Eq(), i, c) for i, c in zip(idx, cidx)])
        comps[flat] = ite(simp_bool(cond), v, comps[flat])
    return Vec(vec.shape, comps, vec.kind, vec.tag)

  def s_AugAssign(self, s, fr):
    tgt = s.target
    if isinstance(tgt, ast.Subscript):
      node = tgt
      chain = []
      while isinstance(node, ast.Subscript):
        chain.append(node)
        node = node.value
      root = self.eval(node, fr)
      if isinstance(root, (ArrRef, RowView)):
        cur = self.eval(ast.Subscript(value=tgt.value, slice=tgt.slice, ctx=ast.Load(), lineno=tgt.lineno), fr)
        new = self.binop(s.op, cur, self.eval(s.value, fr))
        idx = tuple(i for c in reversed(chain) for i in self._index_tuple(c.slice, fr))
        self.arr_store(root, idx, new, fr, tgt.lineno, op="aug")
        return
    load = _as_load(tgt)
    cur = self.eval(load, fr)
    new = self.binop(s.op, cur, self.eval(s.value, fr))
    self.assign_target(tgt, new, fr)

  def s_If(self, s, fr):
    c = simp_bool(tobool(self.eval(s.test, fr)))
    if c is True:
      return self.exec_block(s.body, fr)
    if c is False:
      return self.exec_block(s.orelse, fr)
    env0 = fr.env
    env_t = _copy_env(env0)
    env_e = _copy_env(env0)
    fr.env = env_t
    self.st.pc.append(c)
    try:
      self.exec_block(s.body, fr)
    finally:
      self.st.pc.pop()
    env_t = fr.env
    fr.env = env_e
    self.st.pc.append(znot(c))
    try:
      self.exec_block(s.orelse, fr)
    finally:
      self.st.pc.pop()
    env_e = fr.env
    fr.env = _merge_env(c, env_t, env_e)

  # ------------------------------------------------------------------ loops
  def s_For(self, s, fr):
    from . import loops

    loops.exec_for(self, s, fr)

  def s_While(self, s, fr):
    from . import loops

    loops.exec_while(self, s, fr)


def _prod(shape):
  n = 1
  for s in shape:
    n *= s
  return n


def _as_load(t):
  import copy

  t2 = copy.deepcopy(t)
  for n in ast.walk(t2):
    if hasattr(n, "ctx"):
      n.ctx = ast.Load()
  return t2


def _copy_env(env):
  out = {}
  for k, v in env.items():
    if isinstance(v, StructVal):
      out[k] = v.copy()
    else:
      out[k] = v
  return out


def _merge_env(c, a, b):
  out = {}
  for k in list(a.keys()) + [k for k in b.keys() if k not in a]:
    if k in a and k in b:
      if k in ("$ret", "$brk", "$cnt"):
        va, vb = a[k], b[k]
        if va is vb or (isinstance(va, bool) and isinstance(vb, bool) and va == vb):
          out[k] = va
        else:
          out[k] = simp_bool(z3.If(c, zb(va), zb(vb)))
      else:
        out[k] = ite(c, a[k], b[k])
    elif k in a:
      if k in ("$ret", "$brk", "$cnt"):
        out[k] = simp_bool(zand(c, a[k]))
      else:
        out[k] = a[k]
    else:
      if k in ("$ret", "$brk", "$cnt"):
        out[k] = simp_bool(zand(znot(c), b[k]))
      else:
        out[k] = b[k]
  return out
