"""Semantics of the wp.* builtins used by the code under contract (trusted base T3).

Everything is expanded component-wise over Real/Int; transcendental functions are
uninterpreted with their defining axioms instantiated at each application.
"""

from __future__ import annotations

import ast
import enum

import z3

from .sym import (
  ArrRef, RowView, Opaque, TypeCtor, TScalar, TVec, Unsupported, Vec, is_conc, ite, kind_of, lift, simp_bool, tobool,
  zand, znot, zor, zb, uf,
)  # fmt: skip

ADD, SUB, MUL, DIV = ast.Add(), ast.Sub(), ast.Mult(), ast.Div()


def _dot(ex, a, b):
  if a.n != b.n:
    raise Unsupported("dot of different sizes")
  acc = None
  for x, y in zip(a.comps, b.comps):
    p = ex.ar.binop(MUL, x, y)
    acc = p if acc is None else ex.ar.binop(ADD, acc, p)
  return acc


def sqrt(ex, x):
  if is_conc(x):
    if x >= 0:
      r = float(x) ** 0.5
      if r == int(r):
        return float(int(r))
  xr = lift(x, "float")
  f = uf("sqrt", z3.RealSort(), z3.RealSort())
  r = f(xr)
  ex.assume(z3.And(r >= 0, z3.Implies(xr >= 0, r * r == xr)))
  return r


def length(ex, v):
  return sqrt(ex, _dot(ex, v, v))


def normalize(ex, v):
  # warp/native: a zero vector normalises to the zero vector, a zero quaternion to the identity
  # quaternion in warp's (x, y, z, w) layout, i.e. components (0, 0, 0, 1) (audited natively)
  zero = [0.0] * v.n
  if v.tag in ("quat", "quatf") and v.n == 4:
    zero = [0.0, 0.0, 0.0, 1.0]
  l = length(ex, v)
  if is_conc(l):
    if l > 0:
      return Vec(v.shape, [ex.ar.binop(DIV, c, l) for c in v.comps], "float", v.tag)
    return Vec(v.shape, zero, "float", v.tag)
  # division-free encoding: r is a fresh vector with  l > 0 -> r_i * l == v_i  (determines r uniquely),
  # l <= 0 -> r == zero; the consequence |r|^2 == 1 (from l*l == |v|^2) is stated as well to spare
  # the nonlinear solver from rediscovering it
  n = next(ex.fresh_ctr)
  r = [z3.Real(f"normalize!{n}.{i}") for i in range(v.n)]
  lz = lift(l)
  vs = [lift(c, "float") for c in v.comps]
  pos = lz > 0
  # explicit form r_i == v_i * inv with inv * l == 1 (the solver can then eliminate r_i), plus the products r_i * l == v_i
  inv = z3.Real(f"normalize!{n}.inv")
  ex.assume(z3.Implies(pos, z3.And(*([inv * lz == 1] + [ri == vi * inv for ri, vi in zip(r, vs)] + [ri * lz == vi for ri, vi in zip(r, vs)] + [sum((ri * ri for ri in r), z3.RealVal(0)) == 1]))))
  ex.assume(z3.Implies(z3.Not(pos), z3.And(*[ri == z for ri, z in zip(r, zero)])))
  return Vec(v.shape, r, "float", v.tag)


def _minmax(ex, a, b, is_min):
  if isinstance(a, Vec) or isinstance(b, Vec):
    if isinstance(a, Vec) and isinstance(b, Vec):
      return Vec(a.shape, [_minmax(ex, x, y, is_min) for x, y in zip(a.comps, b.comps)], a.kind)
    raise Unsupported("min/max vec scalar")
  if isinstance(a, enum.Enum):
    a = int(a)
  if isinstance(b, enum.Enum):
    b = int(b)
  if is_conc(a) and is_conc(b):
    return min(a, b) if is_min else max(a, b)
  c = ex.ar.compare(ast.Lt(), a, b)
  return ite(c, a, b) if is_min else ite(c, b, a)


def _abs(ex, a):
  if isinstance(a, Vec):
    return Vec(a.shape, [_abs(ex, c) for c in a.comps], a.kind)
  if is_conc(a):
    return abs(a)
  return ite(a >= 0, a, -a)


def _trig_axioms(ex, x):
  s = uf("sin", z3.RealSort(), z3.RealSort())(x)
  c = uf("cos", z3.RealSort(), z3.RealSort())(x)
  ex.assume(z3.And(s * s + c * c == 1, s >= -1, s <= 1, c >= -1, c <= 1, z3.Implies(x == 0, z3.And(s == 0, c == 1))))
  return s, c


def call_py(ex, name, args, kw, fr, e):
  if name == "min":
    r = args[0]
    for a in args[1:]:
      r = _minmax(ex, r, a, True)
    return r
  if name == "max":
    r = args[0]
    for a in args[1:]:
      r = _minmax(ex, r, a, False)
    return r
  if name == "abs":
    return _abs(ex, args[0])
  if name == "len":
    if isinstance(args[0], (list, tuple)):
      return len(args[0])
    if isinstance(args[0], Vec):
      return args[0].shape[0]
  raise Unsupported(f"python builtin {name}")


def _idx_and_val(args, ref):
  nd = ref.ndim if isinstance(ref, ArrRef) else ref.base.ndim - len(ref.lead)
  idx = tuple(args[1 : 1 + nd])
  rest = args[1 + nd :]
  return idx, rest


def atomic(ex, op, args, fr, e):
  ref = args[0]
  if not isinstance(ref, (ArrRef, RowView)):
    raise Unsupported(f"atomic on {type(ref).__name__}")
  idx, rest = _idx_and_val(args, ref)
  if len(rest) != 1:
    raise Unsupported("atomic arity")
  val = rest[0]
  old = ex.arr_read(ref, idx, fr, e.lineno, log=False)
  if op == "add":
    new = ex.binop(ADD, old, val)
  elif op == "sub":
    new = ex.binop(SUB, old, val)
  elif op == "min":
    new = _minmax(ex, old, val, True)
  elif op == "max":
    new = _minmax(ex, old, val, False)
  elif op == "or":
    new = ex.ar.binop(ast.BitOr(), old, val)
  elif op == "and":
    new = ex.ar.binop(ast.BitAnd(), old, val)
  elif op in ("exch", "cas"):
    new = val
  else:
    raise Unsupported("atomic_" + op)
  ex.arr_store(ref, idx, new, fr, e.lineno, op=op, kind="atomic")
  base = ref if isinstance(ref, ArrRef) else ref.base
  if isinstance(old, Vec):
    return old
  # the value returned to THIS thread is whatever the counter held when its turn came: fresh
  r = ex.fresh(f"{base.name}@atomic_{op}", kind_of(old))
  if base.name in ex.counter_arrays or any(base.name.startswith(p) for p in ex.counter_arrays):
    ex.assume(r >= 0)
  ex.st.log[-1].value = (val, r)
  return r


def _tile_target(a):
  """array operand of a tile load/store: ArrRef (whole array) or RowView (leading indices fixed)"""
  if isinstance(a, ArrRef):
    return a, ()
  if isinstance(a, RowView):
    return a.base, tuple(a.lead)
  raise Unsupported("tile operand is not an array")


def tile_op(ex, name, args, kw, fr, e):
  """Tile intrinsics are NOT modelled functionally (DESIGN 2.2): a tile value is opaque.
  tile_load(a[w], ...) is logged as a read of row w, tile_store / tile_atomic_add as a write
  of row w (only the leading indices are known), and the written array's content is havocked.
  That is enough for the index/guard schemas (ISOLATION, MODULO, FRAME, DONE_GUARD)."""
  from .sym import Access

  if name in ("tile_load", "tile_load_indexed"):
    ref, lead = _tile_target(args[0])
    ex.st.log.append(Access("r", ref, lead, ex.guard_now(fr), e.lineno, bound=tuple(ex.st.bound), op="tile"))
    return Opaque("tile")
  if name in ("tile_store", "tile_atomic_add", "tile_scatter_add", "tile_scatter_masked", "tile_store_indexed"):
    ref, lead = _tile_target(args[0])
    ex.st.log.append(Access("w" if name == "tile_store" else "atomic", ref, lead, ex.guard_now(fr), e.lineno, bound=tuple(ex.st.bound), op="tile"))
    ex.havoc_array(ref, "tile store")
    return None
  if name in ("tile_extract",):
    return ex.fresh("tile_elem", "float")
  if name in ("tile_sum", "tile_reduce", "tile_min", "tile_max", "tile_argmin", "tile_argmax"):
    return Opaque("tile")
  return Opaque("tile")


def call_builtin(ex, name, args, kw, fr, e):
  A = ex.ar
  if name.startswith("atomic_"):
    return atomic(ex, name[7:], args, fr, e)
  if name in ("dot",):
    return _dot(ex, args[0], args[1])
  if name == "cross":
    a, b = args
    if a.n != 3 or b.n != 3:
      raise Unsupported("cross of non-3 vectors")
    a0, a1, a2 = a.comps
    b0, b1, b2 = b.comps
    m = lambda x, y: A.binop(MUL, x, y)
    s = lambda x, y: A.binop(SUB, x, y)
    return Vec((3,), [s(m(a1, b2), m(a2, b1)), s(m(a2, b0), m(a0, b2)), s(m(a0, b1), m(a1, b0))])
  if name in ("length", "norm_l2"):
    return length(ex, args[0])
  if name == "length_sq":
    return _dot(ex, args[0], args[0])
  if name == "normalize":
    return normalize(ex, args[0])
  if name == "sqrt":
    return sqrt(ex, args[0])
  if name == "abs":
    return _abs(ex, args[0])
  if name in ("min", "max"):
    is_min = name == "min"
    if len(args) == 1 and isinstance(args[0], Vec):
      r = args[0].comps[0]
      for c in args[0].comps[1:]:
        r = _minmax(ex, r, c, is_min)
      return r
    if len(args) != 2:
      raise Unsupported("wp." + name + " arity")
    return _minmax(ex, args[0], args[1], is_min)
  if name == "clamp":
    x, lo, hi = args
    return _minmax(ex, _minmax(ex, x, lo, False), hi, True)
  if name == "sign":
    x = args[0]
    if is_conc(x):
      return -1.0 if x < 0 else 1.0
    k = kind_of(x)
    return ite(x < 0, -1.0 if k == "float" else -1, 1.0 if k == "float" else 1)
  if name in ("where", "select"):
    c, a, b = args
    if name == "select":
      a, b = b, a
    cb = simp_bool(tobool(c))
    return ite(cb, a, b)
  if name == "transpose":
    m = args[0]
    r, c = m.shape
    return Vec((c, r), [m.comps[i * c + j] for j in range(c) for i in range(r)], m.kind)
  if name == "outer":
    a, b = args
    return Vec((a.n, b.n), [A.binop(MUL, x, y) for x in a.comps for y in b.comps])
  if name == "cw_mul":
    a, b = args
    return Vec(a.shape, [A.binop(MUL, x, y) for x, y in zip(a.comps, b.comps)], a.kind)
  if name == "cw_div":
    a, b = args
    return Vec(a.shape, [A.binop(DIV, x, y) for x, y in zip(a.comps, b.comps)], a.kind)
  if name == "diag":
    v = args[0]
    n = v.n
    return Vec((n, n), [v.comps[i] if i == j else 0.0 for i in range(n) for j in range(n)])
  if name == "identity":
    n = kw.get("n", args[0] if args else None)
    if not is_conc(n):
      raise Unsupported("identity(n symbolic)")
    return Vec((n, n), [1.0 if i == j else 0.0 for i in range(n) for j in range(n)])
  if name == "skew":
    v = args[0]
    x, y, z = v.comps
    ng = lambda t: A.binop(SUB, 0.0, t)
    return Vec((3, 3), [0.0, ng(z), y, z, 0.0, ng(x), ng(y), x, 0.0])
  if name == "spatial_top":
    return Vec((3,), args[0].comps[0:3])
  if name == "spatial_bottom":
    return Vec((3,), args[0].comps[3:6])
  if name in ("sin", "cos"):
    x = args[0]
    if is_conc(x) and x == 0:
      return 0.0 if name == "sin" else 1.0
    s, c = _trig_axioms(ex, lift(x, "float"))
    return s if name == "sin" else c
  if name in ("tan", "asin", "acos", "exp", "log", "atan", "tanh"):
    return ex.math_uf(name, args[0])
  if name == "atan2":
    return ex.math_uf("atan2", args[0], args[1])
  if name == "pow":
    return A.binop(ast.Pow(), args[0], args[1])
  if name in ("floor", "ceil", "round", "trunc", "rint"):
    x = args[0]
    if is_conc(x):
      import math

      return float({"floor": math.floor, "ceil": math.ceil, "round": round, "trunc": math.trunc, "rint": round}[name](x))
    xr = lift(x, "float")
    if name == "floor":
      return z3.ToReal(z3.ToInt(xr))
    if name == "ceil":
      return -z3.ToReal(z3.ToInt(-xr))
    return ex.math_uf(name, xr)
  if name == "isnan" or name == "isinf":
    return False  # T2: reals
  if name == "quat_rotate":
    raise Unsupported("wp.quat_rotate")
  if name == "quat_to_matrix":
    # warp quaternion layout: (x, y, z, w)
    q = args[0]
    x, y, z, w = q.comps
    m = lambda a, b: A.binop(MUL, a, b)
    two = lambda a: A.binop(MUL, 2.0, a)
    s_ = lambda a, b: A.binop(SUB, a, b)
    a_ = lambda a, b: A.binop(ADD, a, b)
    return Vec((3, 3), [
      s_(1.0, two(a_(m(y, y), m(z, z)))), two(s_(m(x, y), m(z, w))), two(a_(m(x, z), m(y, w))),
      two(a_(m(x, y), m(z, w))), s_(1.0, two(a_(m(x, x), m(z, z)))), two(s_(m(y, z), m(x, w))),
      two(s_(m(x, z), m(y, w))), two(a_(m(y, z), m(x, w))), s_(1.0, two(a_(m(x, x), m(y, y)))),
    ])
  if name == "mul":
    return ex.binop(MUL, args[0], args[1])
  if name == "div":
    return ex.binop(DIV, args[0], args[1])
  if name in ("static", "constant"):
    return args[0]
  if name in ("vector", "matrix"):
    raise Unsupported("wp." + name)
  if name == "matrix_from_rows":
    rows = args
    c = rows[0].n
    return Vec((len(rows), c), [x for r in rows for x in r.comps])
  if name == "matrix_from_cols":
    cols = args
    r = cols[0].n
    return Vec((r, len(cols)), [cols[j].comps[i] for i in range(r) for j in range(len(cols))])
  if name == "block_dim":
    return z3.Int("block_dim")
  if name.startswith("tile"):
    return tile_op(ex, name, args, kw, fr, e)
  if name.startswith("bvh") or name.startswith("mesh") or name.startswith("texture"):
    raise Unsupported("intrinsic wp." + name)
  if name == "expect_eq":
    return None
  raise Unsupported("builtin wp." + name)
