"""Constants of the repo (enum values, MJ_*), dumped from the real `types` module by
tools/dump_consts.py under /venv/bin/python and cached keyed by the hash of types.py."""

from __future__ import annotations

import enum
import hashlib
import json
import os
import subprocess
import types as pytypes

HERE = os.path.dirname(os.path.dirname(os.path.abspath(__file__)))
CACHE = os.path.join(HERE, ".cache")
REPO = os.environ.get("WPV_REPO", "/repo")
VENV_PY = os.environ.get("WPV_VENV_PY", "/venv/bin/python")


def _types_hash():
  h = hashlib.sha256()
  for p in (os.path.join(REPO, "mujoco_warp", "_src", "types.py"), os.path.join(HERE, "tools", "dump_consts.py")):
    with open(p, "rb") as f:
      h.update(f.read())
  # vector / matrix classes declared in other modules (their declarations are part of the key)
  import glob
  import re

  for p in sorted(glob.glob(os.path.join(REPO, "mujoco_warp", "_src", "*.py"))):
    if p.endswith("_test.py"):
      continue
    with open(p, "rb") as f:
      for m in re.findall(rb"^class \w+\(wp\.types\.(?:vector|matrix)\(.*$", f.read(), re.M):
        h.update(m)
  return h.hexdigest()[:16]


def load_consts(force=False):
  os.makedirs(CACHE, exist_ok=True)
  h = _types_hash()
  path = os.path.join(CACHE, f"consts_{h}.json")
  if force or not os.path.exists(path):
    env = dict(os.environ)
    env["PYTHONPATH"] = REPO
    env.setdefault("WARP_CACHE_PATH", os.path.join(CACHE, "warp"))
    r = subprocess.run([VENV_PY, os.path.join(HERE, "tools", "dump_consts.py"), path + ".tmp"], cwd="/", env=env, capture_output=True, text=True)
    if r.returncode != 0:
      raise RuntimeError("constant dump failed:\n" + r.stdout + r.stderr)
    os.replace(path + ".tmp", path)
  with open(path) as f:
    return json.load(f)


class _Lazy(dict):
  def __init__(self):
    super().__init__()
    self._loaded = False

  def _ensure(self):
    if not self._loaded:
      self.update(load_consts())
      self._loaded = True

  def __getitem__(self, k):
    self._ensure()
    return super().__getitem__(k)

  def get(self, k, d=None):
    self._ensure()
    return super().get(k, d)


CONSTS = _Lazy()
_NS = None


def enum_namespace():
  """SimpleNamespace mirroring mujoco_warp._src.types: enums (as IntEnum/IntFlag) + constants."""
  global _NS
  if _NS is None:
    ns = pytypes.SimpleNamespace()
    for name, spec in CONSTS["enums"].items():
      base = enum.IntFlag if spec["flag"] else enum.IntEnum
      # aliases (same value twice) are fine for IntEnum via dict
      cls = base(name, spec["members"])
      setattr(ns, name, cls)
    for name, v in CONSTS["consts"].items():
      setattr(ns, name, v)
    _NS = ns
  return _NS
