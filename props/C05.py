"""C05 Constraint assembly -- the two conjuncts that are decidable without MuJoCo's numerics.

 (A) "every contact row address points at a row of that contact": constraint._efc_contact_init (all specialisations): for
     a live, active contact the addresses written to contact.efc_address[c, 0..ndim) are either -1 (row overflow) or a
     row e in [0, njmax) with efc.id[world, e] == c, and the rows of one contact are contiguous from the block the
     allocator returned; constraint._efc_contact_update stores type/id of exactly the row the address names.
 (B) "the equality, friction and limit counts match": for every row-building kernel launched by make_constraint, each
     allocation from the row allocator nefc is accompanied, under the same condition and with the same number of rows,
     by the increment of exactly the counter of its kind (ne / nf / nl), and contact builders touch none of them; the
     kernels are launched in the order equality < friction < limit < contact, which (with T4) gives the row ordering
     that C24 relies on.
Everything numeric (Jacobian rows, impedance, reference acceleration) is compared with MuJoCo's floating-point output and
is not claimed.
"""
import z3

from wpv import census, extract, launchsites
from wpv.contracts import Run
from wpv.runner import Result
from wpv.sym import lift, zb

from .common import canary

INFO = {
  "trusted": [
    "T4: the allocator returns disjoint blocks; counters are zeroed by _zero_constraint_counts at the start of make_constraint (C12)",
  ],
  "undecided": [
    "agreement of the rows (Jacobian, position, margin, impedance-derived mass, reference acceleration, friction loss) with MuJoCo's: oracle is MuJoCo's floating-point output",
    "flex contacts (constraint._efc_contact_init_flex): symbolic execution takes minutes, not included",
  ],
}

INIT = "constraint:_efc_contact_init.kernel"
UPD = "constraint:_efc_contact_update.kernel"


def g_init(tier):
  info = extract.get_func(INIT)
  obs = []
  for cl in census.specialisations(info):
    lab = census.spec_label(cl)
    R = Run(INIT, closure={k: v for k, v in cl.items() if k != "$label"}, pre=["njmax_in >= 0"])
    ex = R.ex
    k = R.var("k")
    allocs = [a for a in ex.st.log if a.kind == "atomic" and a.op == "add" and a.arr is R.params["nefc_out"] and isinstance(a.value, tuple)]
    tag = f"_efc_contact_init[{lab}]"
    if len(allocs) != 1:
      obs.append(Result(oid=f"{tag}#one_block", status="violated", kind="post", func=INIT, backend="analysis", meta={"function": INIT, "goal": "one block of rows is allocated per contact", "found": len(allocs)}))
      continue
    ndim, base = lift(allocs[0].value[0]), allocs[0].value[1]
    live = zb(allocs[0].guard)
    c = ex.tids[0]
    w = R.term("worldid_in[tid0]")
    adr = lambda j: ex.st.arrs[R.params["contact_efc_address_out"].aid]((c, j))
    eid = lambda e: ex.st.arrs[R.params["efc_id_out"].aid]((w, e))
    hyp = z3.And(live, k >= 0, k < ndim, base >= 0)
    nj = R.params["njmax_in"]
    obs.append(canary(R, f"{tag}#canary"))
    obs.append(R.obligation(f"{tag}#address_names_own_row", z3.Implies(hyp, z3.Or(adr(k) == -1, z3.And(adr(k) >= 0, adr(k) < nj, eid(adr(k)) == c))), meta={"goal": "efc_address[c, k] is -1 or a row below njmax whose efc.id is c", "timeout_ms": 20000}))
    obs.append(R.obligation(f"{tag}#rows_contiguous", z3.Implies(hyp, z3.Or(adr(k) == -1, adr(k) == base + k)), meta={"goal": "the rows of one contact are the block the allocator returned, in order", "timeout_ms": 20000}))
    obs.append(R.obligation(f"{tag}#overflow_marks_minus_one", z3.Implies(hyp, (adr(k) == -1) == (base + k >= nj)), meta={"goal": "an address is -1 exactly when its row does not fit njmax", "timeout_ms": 20000}))
    obs.append(R.obligation(f"{tag}#ndim", z3.Implies(live, z3.Or(ndim == 1, ndim == R.term("condim_in[tid0]"), ndim == 2 * (R.term("condim_in[tid0]") - 1))), meta={"goal": "the block has 1, condim (elliptic) or 2*(condim-1) (pyramidal) rows"}))
    obs += R.side_obligations(tag + "#")
  return obs


def g_update(tier):
  info = extract.get_func(UPD)
  obs = []
  for cl in census.specialisations(info):
    lab = census.spec_label(cl)
    R = Run(UPD, closure={k: v for k, v in cl.items() if k != "$label"})
    ex = R.ex
    tag = f"_efc_contact_update[{lab}]"
    c, dimid = ex.tids[0], ex.tids[1]
    w = R.term("worldid_in[tid0]")
    e = R.term("contact_efc_address_in[tid0, tid1]")
    for fld in ("efc_id_out", "efc_type_out"):
      ws = [a for a in ex.st.log if a.kind == "w" and a.arr is R.params[fld]]
      ok = bool(ws)
      goals = []
      for a in ws:
        goals.append(z3.Implies(zb(a.guard), z3.And(lift(a.idx[0]) == w, lift(a.idx[1]) == e, e >= 0)))
        if fld == "efc_id_out":
          goals.append(z3.Implies(zb(a.guard), lift(a.value) == c))
      obs.append(R.obligation(f"{tag}#{fld[4:-4]}_written_at_the_addressed_row", z3.And(*goals) if goals else z3.BoolVal(False), meta={"goal": f"efc.{fld[4:-4]} is stored at row efc_address[c, dim] of the contact's world" + (" with the contact's id" if fld == "efc_id_out" else "")}))
  return obs


KIND = {"ne": "equality", "nf": "friction", "nl": "limit"}


def g_counts(tier):
  """(B) per row-building kernel of make_constraint"""
  mk = "constraint:make_constraint"
  sites = [s for s in launchsites.all_sites() if s.host == mk and s.kernel and "d.nefc" in s.binding.values()]
  obs = []
  order = []
  seen = set()
  for s in sorted(sites, key=lambda x: x.lineno):
    inv = {a: f for f, a in s.binding.items()}
    f_nefc = inv.get("d.nefc")
    cnt = {k: inv.get("d." + k) for k in KIND}
    if s.kernel in seen:
      continue
    seen.add(s.kernel)
    if "_flex" in s.kernel and "contact" in s.kernel:
      continue
    info = extract.get_func(s.kernel)
    kinds_here = set()
    builder = False
    translated = True
    for cl in census.specialisations(info):
      lab = census.spec_label(cl)
      try:
        R = census.run_kernel(info, {k: v for k, v in cl.items() if k != "$label"}, fast=True)
      except Exception as e:
        obs.append(Result(oid=f"{s.kernel}[{lab}]#counts.translate", status="out-of-scope", kind="scope", func=s.kernel, reason=str(e)[:150], meta={"function": s.kernel}))
        translated = False
        continue
      ex = R.ex
      if f_nefc not in R.params:
        continue
      allocs = [a for a in ex.st.log if a.kind == "atomic" and a.op == "add" and a.arr is R.params[f_nefc] and isinstance(a.value, tuple)]
      tag = f"{s.kernel.split(':')[1]}[{lab}]"
      if not allocs:
        continue  # not a row builder (reads nefc only)
      builder = True
      incs = {k: [a for a in ex.st.log if a.kind == "atomic" and a.op == "add" and cnt[k] and cnt[k] in R.params and a.arr is R.params[cnt[k]] and isinstance(a.value, tuple)] for k in KIND}
      used = [k for k in KIND if incs[k]]
      kinds_here |= set(used)
      ok_one = len(used) <= 1
      obs.append(Result(oid=f"{tag}#counts.one_kind", status="discharged" if ok_one else "violated", kind="COUNTS", func=s.kernel, backend="access-log analysis", meta={"function": s.kernel, "goal": "a row builder increments at most one of ne / nf / nl", "increments": used}))
      # equality builders: the equality whose activity flag is tested is the one whose id the rows carry
      f_act = inv.get("d.eq_active")
      f_id = inv.get("d.efc.id")
      if f_act in R.params and f_id in R.params:
        reads = [a for a in ex.st.log if a.kind == "r" and a.arr is R.params[f_act] and len(a.idx) == 2]
        stores = [a for a in ex.st.log if a.kind == "w" and a.arr is R.params[f_id]]
        if reads and stores:
          goals = []
          for st_ in stores:
            goals.append(z3.Implies(zb(st_.guard), z3.Or(*[z3.And(lift(rd.idx[1]) == lift(st_.value), lift(rd.idx[0]) == lift(st_.idx[0])) for rd in reads])))
          obs.append(R.obligation(f"{tag}#equality.active_flag_of_the_row_id", z3.And(*goals), meta={"goal": "rows are built for the equality whose own eq_active flag (same world) was tested: the efc.id stored is the index eq_active was read at", "int_projection": True, "timeout_ms": 8000}))
      is_contact = "d.nacon" in s.binding.values()
      if not is_contact:
        obs.append(Result(oid=f"{tag}#counts.kind_counted", status="discharged" if used else "violated", kind="COUNTS", func=s.kernel, backend="access-log analysis", meta={"function": s.kernel, "goal": "a non-contact row builder (equality / friction loss / limit) counts its rows in ne, nf or nl"}))
      if not used:
        continue  # contact rows: no kind counter
      kk = used[0]
      # total rows requested from nefc == total increment of the kind counter, under the same conditions:
      # sum over allocation sites of ite(guard, inc, 0), as two z3 terms
      tot = lambda accs: sum((z3.If(zb(a.guard), lift(a.value[0]), 0) for a in accs), z3.IntVal(0))
      obs.append(R.obligation(f"{tag}#counts.{kk}_equals_rows_allocated", tot(allocs) == tot(incs[kk]), meta={"goal": f"the thread adds to {kk} exactly the number of rows it allocates from nefc ({KIND[kk]} rows)", "int_projection": True, "timeout_ms": 8000}))
    if builder and translated:
      order.append((s.lineno, s.kernel, sorted(kinds_here)))
  # launch order: equality builders, then friction, then limit, then contact (no kind)
  rank = {"ne": 0, "nf": 1, "nl": 2}
  seq = [(ln, k, (rank[kinds[0]] if kinds else 3)) for ln, k, kinds in order]
  ok = all(seq[i][2] <= seq[i + 1][2] for i in range(len(seq) - 1)) and len(seq) >= 6
  obs.append(Result(oid="make_constraint#launch_order_by_kind", status="discharged" if ok else "violated", kind="host-order", func=mk, backend="launch-site analysis", meta={"function": mk, "goal": "row builders are launched in the order equality, friction, limit, contact", "sequence": [(k.split(":")[1], r) for _, k, r in seq]}))
  return obs


def groups(tier):
  return [("contact_init", g_init), ("contact_update", g_update), ("counts", g_counts)]
