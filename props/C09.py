"""C09 Worlds in a batch do not influence each other.

ISOLATION schema over every kernel (all closure specialisations): every access to an
nworld-led Data/Constraint field is provably indexed by the thread's owning world, the owning
world is a thread-id component or the world tag of the thread's own contact/collision slot,
and (SLOT) every access to the shared contact / collision buffers is to the thread's own slot.
Together with MODULO (C10) and the allocator axiom T4 these are the hypotheses of the
non-interference lemma (DESIGN.md C09).
"""
from wpv import census, schemas

INFO = {
  "trusted": [
    "formals are classified by the repo's naming convention (X_in/X_out <-> Data.X, efc_X <-> Constraint.X, contact_X <-> Contact.X)",
    "non-interference lemma: a thread that reads only Model, cells of its own world and its own slots, and writes only cells of its own world and its own slots, computes a function of its world's state (argued in DESIGN.md, not mechanised)",
    "launch extents: the thread-id component used as owning world ranges over d.nworld (launch-site text checked by obligation #launch.dim where resolvable)",
  ],
  "undecided": [
    "kernels listed in contracts/scope_C09.txt are unverified surroundings",
    "module set_const (model recomputation) and render/bvh (separate contexts) are not part of this claim",
    "sweep-and-prune kernels decode their world from a cumulative-sum table (owner kind 'work-package decode'): consistency of use is proved, the decode itself is C18",
  ],
}

EXCLUDED_MODULES = {"set_const", "render", "render_util", "bvh"}


def groups(tier):
  return [(k.key, schemas.kernel_group(k.key, ("ISOLATION", "SLOT", "COVER"))) for k in census.all_kernels() if k.module not in EXCLUDED_MODULES]
