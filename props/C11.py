"""C11 Results are independent of parallel thread order (race-freedom core).

RACE schema over every kernel (all closure specialisations; the real kernel body executed symbolically, two-thread
encoding): a plain store by one thread never hits a cell that a DIFFERENT thread of the same launch stores to, reads or
updates atomically -- so no result can depend on which of the two runs first. Atomic-against-atomic pairs are
commutative updates (order shows only in floating-point round-off, which the statement allows); blocks handed out by
atomic_add to different threads are disjoint (T4), which is what makes contact and row allocation order-independent up
to the listing order the statement allows. Stated for subscripts that are pure index arithmetic.
The sleep waking kernels are stated WITHOUT any injectivity assumption on the trees their contacts touch, because none
holds: two contacts may touch the same sleeping cycle (known finding D11).
"""
from wpv import census, schemas

INFO = {
  "trusted": [
    "T4, two-thread form: the blocks [ret, ret + inc) returned by atomic_add on one counter cell to two different threads are disjoint",
    "a read of the value returned by the thread's own atomic is not a shared read",
  ],
  "undecided": [
    "accesses through index tables (body / dof / tree tables, addresses stored in Data): need injectivity facts (MODEL_WF, e.g. all bodies of one level-parallel launch are distinct) -- the level-parallel tree kernels of smooth.py are in this class",
    "block-cooperative (tiled) kernels: their threads share cells by design, synchronised by the tile primitives",
    "flex collision kernels (collision_flex, constraint._efc_contact_init_flex): symbolic execution of their workspaces takes minutes; not included",
    "store/access pairs listed in contracts/race_needs_wf.txt (not provable from index arithmetic alone on the unchanged tree)",
    "round-off of reordered atomic float sums",
  ],
}

EXCLUDED_MODULES = {"set_const", "render", "render_util", "bvh", "collision_flex"}
EXCLUDED_KERNELS = {"constraint:_efc_contact_init_flex.kernel", "constraint:_efc_contact_jac_sparse_flex.kernel", "constraint:_efc_contact_update_flex.kernel"}


# the sleep waking kernels: every conflicting pair on tree_asleep, including those reached through the trees of a contact /
# equality / tendon (data-dependent indices), WITHOUT assuming that two threads touch different sleep cycles
WAKE = ["sleep:_wake_collision_kernel", "sleep:_wake_equality_kernel", "sleep:_wake_tendon_kernel"]


def g_branch_wf(tier):
  """bounded native audit of the MODEL_WF fact the branch kernels' race-freedom rests on (scenarios/c11_branch_wf.py)"""
  import os
  import subprocess

  from wpv.consts import REPO, VENV_PY
  from wpv.runner import Result

  here = os.path.dirname(os.path.dirname(os.path.abspath(__file__)))
  r = subprocess.run([VENV_PY, os.path.join(here, "scenarios", "c11_branch_wf.py")], capture_output=True, text=True, env=dict(os.environ, PYTHONPATH=REPO), cwd="/")
  out = [Result(oid="put_model#branches_are_root_to_leaf_chains.audit", status="bounded", kind="bounded", func="io:put_model", bound="3 synthetic trees (chain, bushy trunk with 6 leaves + free tree, forest)", cases=3, reason=(r.stdout + r.stderr)[-300:], meta={"function": "io:put_model", "goal": "bounded: Model.body_branches lists complete root-to-leaf chains"})]
  if r.returncode == 1:
    out.append(Result(oid="put_model#branches_are_root_to_leaf_chains", status="violated", kind="host", func="io:put_model", backend="native run", replay={"native_cmd": ["VENV_PYTHON", "scenarios/c11_branch_wf.py"], "exit": 1, "reproduced": True, "output": (r.stdout + r.stderr)[-1500:]}, meta={"function": "io:put_model", "goal": "every branch of Model.body_branches is a complete root-to-leaf chain (the branch tasks of _kinematics_branch / _comvel_branch / _cacc_branch read only parent cells they wrote themselves)", "output": (r.stdout + r.stderr)[-600:]}))
  elif r.returncode != 0:
    out.append(Result(oid="put_model#branches_are_root_to_leaf_chains", status="crash", reason=(r.stdout + r.stderr)[-800:]))
  return out


def groups(tier):
  gs = [("branch_wf", g_branch_wf)]
  gs += [(k.key, schemas.kernel_group(k.key, ("RACE",))) for k in census.all_kernels() if k.module not in EXCLUDED_MODULES and k.key not in EXCLUDED_KERNELS and k.key not in WAKE]
  gs += [(k, schemas.kernel_group(k, ("RACE_ALL",))) for k in WAKE]
  return gs
