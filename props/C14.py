"""C14 reset_data_keyframe semantics.

Host-level contract on io.reset_data_keyframe: the two nested kernels, the inlined call of
reset_data (its five kernels) and all launch sites are executed symbolically as one program.
"""
import z3

from wpv import modelwf
from wpv.hostexec import HostRun

from . import C13
from .common import Result, canary, int_world_array

INFO = {
  "trusted": C13.INFO["trusted"],
  "undecided": ["history buffers after a keyframe reset: see C13 known finding D2 (reset_data never writes Data.history)"],
}

KEYED = {
  "time": ("d.time[w]", "True", "m.key_time[KEY]"),
  "qpos": ("d.qpos[w, j]", "0 <= j and j < m.nq", "m.key_qpos[KEY, j]"),
  "qvel": ("d.qvel[w, j]", "0 <= j and j < m.nv", "m.key_qvel[KEY, j]"),
  "act": ("d.act[w, j]", "0 <= j and j < m.na", "m.key_act[KEY, j]"),
  "ctrl": ("d.ctrl[w, j]", "0 <= j and j < m.nu", "m.key_ctrl[KEY, j]"),
  "mocap_pos": ("d.mocap_pos[w, j]", "0 <= j and j < m.nmocap", "m.key_mpos[KEY, j]"),
  "mocap_quat": ("d.mocap_quat[w, j]", "0 <= j and j < m.nmocap", "m.key_mquat[KEY, j]"),
}


def _run(mode):
  def setup(R):
    R.qvars["mocap_bodyid"] = modelwf.mocap(R.ex)
    modelwf.nv_le_nq(R.ex)

  args = {"key": int_world_array("key")} if mode == "array" else {"key": lambda ex: z3.Int("key")}
  R = HostRun("io:reset_data_keyframe", args=args, host_contracts=C13.HOST_CONTRACTS, setup=setup)
  for v in ("w", "j", "e", "u", "k", "c"):
    R.var(v)
  R.require("d.nworld >= 1 and 0 <= w and w < d.nworld and m.nkey >= 0")
  return R


def g_values(mode):
  def gen(tier):
    R = _run(mode)
    tag = f"reset_data_keyframe[{mode}]"
    KEY = "key[w]" if mode == "array" else "key"
    valid = f"(0 <= {KEY} and {KEY} < m.nkey)"
    raised = R.raised()
    notraise = z3.BoolVal(True) if raised is False else z3.Not(raised)
    obs = [canary(R, f"{tag}#canary")]
    for name, (lhs, rng, val) in KEYED.items():
      g = R.term(f"implies({valid} and ({rng}), {lhs} == {val.replace('KEY', KEY)})")
      obs.append(R.obligation(f"{tag}#keyed.{name}", z3.Implies(notraise, g), meta={"goal": f"valid key: {lhs} == {val}"}))
    for name, lhs, rng, val in C13.FRESH:
      if name in KEYED:
        continue
      g = R.term(f"implies({valid} and ({rng}), {lhs} == {val})")
      obs.append(R.obligation(f"{tag}#fresh.{name}", z3.Implies(notraise, g), meta={"goal": f"valid key: {lhs} == {val} (fresh reset)"}))
    for name, lhs, rng, val in C13.FRESH_NOSLEEP:
      g = R.term(f"implies({valid} and ({rng}) and {C13.SLEEP_OFF}, {lhs} == {val})")
      obs.append(R.obligation(f"{tag}#fresh.{name}", z3.Implies(notraise, g), meta={"goal": f"valid key, SLEEP off: {lhs} == {val}"}))
    # bounds of the key table accesses (under the valid mask the row index is in range)
    # invalid index: world untouched
    ex = R.ex
    if mode == "array":
      for n in ex.written_arrays():
        if not n.startswith("d.") or n.startswith("d.contact.") or n == "d.nacon":
          continue
        ref = ex.resolve_path(n)
        nd = ref.full_ndim
        names = ["w"] + [f"i{t}" for t in range(1, nd)]
        for t in range(1, nd):
          R.var(f"i{t}")
        idx = tuple(R.qvars[x] for x in names)
        post = ex.st.arrs[ref.aid](idx)
        pre = ex.st.arrs0[ref.aid](idx)
        hyp = z3.Not(R.term(valid))
        if n in C13.UPDATE_SLEEP_FRAME:
          hyp = z3.And(hyp, R.term(C13.SLEEP_OFF))
        obs.append(R.obligation(f"{tag}#frame.invalid_key.{n[2:]}", z3.Implies(z3.And(notraise, hyp), post == pre), meta={"goal": f"world with invalid key index: {n} unchanged"}))
    else:
      bad = R.term("key < 0 or key >= m.nkey")
      obs.append(R.obligation(f"{tag}#rejects.invalid_scalar_key", z3.Implies(bad, raised if raised is not False else z3.BoolVal(False)), meta={"goal": "scalar key outside [0,nkey) -> ValueError"}))
      for i, L in enumerate(ex.launches):
        g = L.guard if L.guard is not True else z3.BoolVal(True)
        obs.append(R.obligation(f"{tag}#rejects.no_launch.{i}", z3.Not(z3.And(g, bad)), meta={"goal": "rejected call launches nothing"}))
    # key-table reads stay inside the tables (row index valid whenever a row is read)
    n_reads = 0
    for a in ex.st.log:
      if a.kind == "r" and a.arr.name.startswith("m.key_"):
        n_reads += 1
        row = a.idx[0]
        obs.append(
          R.obligation(
            f"{tag}#bounds.{a.arr.name[2:]}.{n_reads}",
            z3.Implies(a.guard if a.guard is not True else z3.BoolVal(True), z3.And(row >= 0, row < R.term("m.nkey"))),
            kind="bounds",
            meta={"goal": f"row index of {a.arr.name} in [0,nkey) whenever it is read"},
          )
        )
    written = ex.written_arrays()
    allowed = {"d." + f[0] for f in C13.FRESH + C13.FRESH_NOSLEEP} | {"d.M", "d.history", "d.nacon"} | {n for n in written if n.startswith("d.contact.")}
    extra = [n for n in written if (n.startswith("d.") or n.startswith("m.")) and n not in allowed]
    obs.append(
      Result(
        oid=f"{tag}#frame.only_declared_fields",
        status="discharged" if not extra else "violated",
        kind="frame",
        func="io:reset_data_keyframe",
        backend="host-analysis",
        meta={"goal": "reset_data_keyframe writes only the reset frame", "function": "io:reset_data_keyframe", "extra_written": extra},
      )
    )
    obs += R.side_obligations(tag + "#")
    return obs

  return gen


def g_rejects_array(tier):
  def wrong(ex):
    from wpv.sym import T_INT

    return ex.new_array("key", 1, T_INT)

  R = HostRun("io:reset_data_keyframe", args={"key": wrong}, host_contracts=C13.HOST_CONTRACTS)
  raised = R.raised()
  bad = R.term("key.shape[0] != d.nworld")
  obs = [R.obligation("reset_data_keyframe#rejects.key_shape", z3.Implies(bad, raised if raised is not False else z3.BoolVal(False)), meta={"goal": "key array of wrong shape -> ValueError"})]
  for i, L in enumerate(R.ex.launches):
    g = L.guard if L.guard is not True else z3.BoolVal(True)
    obs.append(R.obligation(f"reset_data_keyframe#rejects.key_shape.no_launch.{i}", z3.Not(z3.And(g, bad)), meta={"goal": "rejected call launches nothing"}))
  return obs


def groups(tier):
  return [("values[array]", g_values("array")), ("values[scalar]", g_values("scalar")), ("rejects[array]", g_rejects_array)]


def native_replay(oid, model):
  """counter-model -> command that drives the real API on a model of the same shape (scenarios/replay_native.py)"""
  from .common import native_cmd

  return native_cmd("key", model, masked=("none" not in oid.split("#")[0]))
