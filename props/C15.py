"""C15 State get/set is MuJoCo-compatible and lossless.

Contracts are stated at the level of the public functions support.get_state/set_state
(host function + the nested kernel it launches, bound through the real launch site).
Spec function off(sig,k) = sum of the element sizes of the set bits below k, sizes from
MuJoCo's documented mjtState layout (audited natively against mujoco.mj_stateSize).
"""
import z3

from .common import HostRun, Result, bool_world_mask, canary

INFO = {
  "trusted": [
    "mjtState element sizes (1,nq,nv,na,nhistory,nv,nu,nv,6*nbody,neq,3*nmocap,4*nmocap,nuserdata) are MuJoCo's documented layout; audited against mujoco.mj_stateSize in the thorough tier",
    "round-trip on eq_active cells is claimed for inputs in {0.0, 1.0} (the values get_state produces; MuJoCo stores mjtByte)",
  ],
  "undecided": [],
  "explanation": "get_state/set_state proved for symbolic signature, sizes, worlds and masks; launch-site binding is part of the proof (host-level contracts).",
}

# component k: (bit, field, size expr, accessor of element j of the field as float, arity)
COMPS = [
  (0, "time", "1", "d.time[w]"),
  (1, "qpos", "m.nq", "d.qpos[w, j]"),
  (2, "qvel", "m.nv", "d.qvel[w, j]"),
  (3, "act", "m.na", "d.act[w, j]"),
  (4, "history", "m.nhistory", "d.history[w, j]"),
  (5, "qacc_warmstart", "m.nv", "d.qacc_warmstart[w, j]"),
  (6, "ctrl", "m.nu", "d.ctrl[w, j]"),
  (7, "qfrc_applied", "m.nv", "d.qfrc_applied[w, j]"),
  (8, "xfrc_applied", "6 * m.nbody", "d.xfrc_applied[w, j // 6][j % 6]"),
  (9, "eq_active", "m.neq", "float(d.eq_active[w, j])"),
  (10, "mocap_pos", "3 * m.nmocap", "d.mocap_pos[w, j // 3][j % 3]"),
  (11, "mocap_quat", "4 * m.nmocap", "d.mocap_quat[w, j // 4][j % 4]"),
  (12, "userdata", "m.nuserdata", "d.userdata[w, j]"),
]
NBITS = 14  # audited == State.NSTATE


def off(k):
  return " + ".join(["0"] + [f"ite(bit(sig, {b}), {sz}, 0)" for b, _, sz, _ in COMPS[:k]])


PRE = ["d.nworld >= 1", "0 <= w", "w < d.nworld"]


def _active_args(mode):
  return {"active": None} if mode == "none" else {"active": bool_world_mask("active")}


def _is_active(mode):
  return "True" if mode == "none" else "active[w]"


def g_get_state(mode):
  def gen(tier):
    R = HostRun("support:get_state", args=_active_args(mode), pre=[])
    R.var("w")
    R.var("j")
    R.var("v")
    for p in PRE:
      R.require(p)
    valid = f"0 <= sig and sig < {1 << NBITS}"
    obs = [canary(R, f"get_state[{mode}]#canary")]
    act = _is_active(mode)
    for k, (b, name, sz, acc) in enumerate(COMPS):
      goal = f"implies({valid} and {act} and bit(sig, {b}) and 0 <= j and j < {sz}, state[w, {off(k)} + j] == old({acc}))"
      obs.append(R.obligation(f"get_state[{mode}]#value.{name}", goal))
    total = off(len(COMPS))
    obs.append(R.obligation(f"get_state[{mode}]#frame.beyond_size", f"implies({valid} and (j < 0 or j >= {total}), state[w, j] == old(state[w, j]))"))
    if mode != "none":
      obs.append(R.obligation(f"get_state[{mode}]#frame.inactive_world", f"implies(not active[w], state[w, j] == old(state[w, j]))"))
    # Data is not modified at all by get_state
    for _, name, _, acc in COMPS:
      obs.append(R.obligation(f"get_state[{mode}]#frame.data.{name}", f"{acc} == old({acc})"))
    obs.append(R.obligation(f"get_state[{mode}]#NSTATE", f"State.NSTATE.value == {NBITS} and State.USERDATA == {1 << 12} and State.INTEGRATION == {(1 << 13) - 1 + (1 << 13)}"))
    obs += R.side_obligations(f"get_state[{mode}]#")
    return obs

  return gen


def g_set_state(mode):
  def gen(tier):
    R = HostRun("support:set_state", args=_active_args(mode))
    R.var("w")
    R.var("j")
    for p in PRE:
      R.require(p)
    valid = f"0 <= sig and sig < {1 << NBITS}"
    act = _is_active(mode)
    obs = [canary(R, f"set_state[{mode}]#canary")]
    for k, (b, name, sz, acc) in enumerate(COMPS):
      src = f"old(state[w, {off(k)} + j])"
      if name == "eq_active":
        goal = f"implies({valid} and {act} and bit(sig, {b}) and 0 <= j and j < {sz}, d.eq_active[w, j] == ({src} != 0.0))"
      else:
        goal = f"implies({valid} and {act} and bit(sig, {b}) and 0 <= j and j < {sz}, {acc} == {src})"
      obs.append(R.obligation(f"set_state[{mode}]#value.{name}", goal))
      obs.append(R.obligation(f"set_state[{mode}]#frame.bit_clear.{name}", f"implies({valid} and not bit(sig, {b}), {acc} == old({acc}))"))
      if mode != "none":
        obs.append(R.obligation(f"set_state[{mode}]#frame.inactive_world.{name}", f"implies(not active[w], {acc} == old({acc}))"))
    obs.append(R.obligation(f"set_state[{mode}]#frame.state_unmodified", "state[w, j] == old(state[w, j])"))
    obs += R.side_obligations(f"set_state[{mode}]#")
    return obs

  return gen


def g_rejects(fn):
  def gen(tier):
    R = HostRun(f"support:{fn}", args={"active": None})
    raised = R.raised()
    obs = [canary(R, f"{fn}#rejects.canary")]
    obs.append(R.obligation(f"{fn}#rejects(sig>=2^NSTATE)", z3.Implies(R.term(f"sig >= {1 << NBITS}"), z3.BoolVal(True) if raised is True else raised), meta={"goal": "sig >= 2^NSTATE -> ValueError before any launch"}))
    obs.append(R.obligation(f"{fn}#rejects(sig<0)", z3.Implies(R.term("sig < 0"), z3.BoolVal(False) if raised is False else raised), meta={"goal": "sig < 0 -> ValueError before any launch"}))
    for i, L in enumerate(R.ex.launches):
      g = L.guard
      obs.append(R.obligation(f"{fn}#no_launch_after_raise.{i}", z3.Not(z3.And(g if g is not True else z3.BoolVal(True), raised if raised is not False else z3.BoolVal(False))), meta={"goal": "a rejected call launches nothing"}))
      obs.append(R.obligation(f"{fn}#launch_dim.{i}", z3.And(len(L.dim) == 1, L.dim[0] == R.term("d.nworld")) if len(L.dim) == 1 else z3.BoolVal(False), meta={"goal": "one thread per world"}))
    return obs

  return gen


def g_roundtrip(mode):
  """set_state(x) ; get_state -> x, proved by composing the two real host functions on one Data"""

  def gen(tier):
    from wpv.hostexec import HostRun as HR
    from wpv import extract
    from wpv.sym import Frame

    R = HR("support:set_state", args=_active_args(mode))
    ex = R.ex
    # second call on the same m, d, sig, active with a fresh output buffer
    info = extract.get_func("support:get_state")
    fr2 = Frame(info)
    from wpv.contracts import fresh_value, parse_type
    from wpv.sym import TArr, T_FLOAT

    out = ex.new_array("state2", 2, T_FLOAT)
    fr2.env = dict(R.params)
    fr2.env["state"] = out
    ex.exec_block(info.node.body, fr2)
    R.params["state2"] = out
    R.fr.env["state2"] = out
    R.var("w")
    R.var("j")
    for p in PRE:
      R.require(p)
    valid = f"0 <= sig and sig < {1 << NBITS}"
    act = _is_active(mode)
    obs = []
    for k, (b, name, sz, acc) in enumerate(COMPS):
      extra = ""
      if name == "eq_active":
        extra = f" and (old(state[w, {off(k)} + j]) == 0.0 or old(state[w, {off(k)} + j]) == 1.0)"
      goal = f"implies({valid} and {act} and bit(sig, {b}) and 0 <= j and j < {sz}{extra}, state2[w, {off(k)} + j] == old(state[w, {off(k)} + j]))"
      obs.append(R.obligation(f"roundtrip[{mode}]#{name}", goal))
    return obs

  return gen


def groups(tier):
  gs = []
  for mode in ("none", "mask"):
    gs.append((f"get_state[{mode}]", g_get_state(mode)))
    gs.append((f"set_state[{mode}]", g_set_state(mode)))
    gs.append((f"roundtrip[{mode}]", g_roundtrip(mode)))
  gs.append(("rejects.get_state", g_rejects("get_state")))
  gs.append(("rejects.set_state", g_rejects("set_state")))
  return gs


def native_replay(oid, model):
  """counter-model -> command that drives the real API on a model of the same shape (scenarios/replay_native.py)"""
  from .common import native_cmd

  return native_cmd("state", model, masked=("none" not in oid.split("#")[0]))
