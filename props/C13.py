"""C13 reset_data restores a fresh Data.

Host-level contract on io.reset_data (all five nested kernels bound through the real
launch sites). Postcondition taken from the property: for every selected world every
field of the integration state and every reported output equals the value a freshly
created Data holds (FRESH spec = MuJoCo's mj_resetData semantics, audited natively against
make_data); for every unselected world nothing changes, including its reported contacts.
"""
import z3

from wpv import modelwf
from wpv.hostexec import HostRun

from .common import Result, bool_world_mask, canary, int_world_array

INFO = {
  "trusted": [
    "FRESH spec (what a freshly created Data holds) is MuJoCo's documented mj_resetData state; make_data is audited natively against it (tools/audit_fresh.py), not proved (numpy host code)",
    "MODEL_WF.mocap (body_mocapid is a bijection onto [0,nmocap)) assumed, audited natively",
    "sleep.update_sleep is used through its frame contract only (proved as obligation update_sleep#frame); values of the sleep counters after it are claimed for SLEEP disabled only",
  ],
  "undecided": [
    "'same subsequent trajectory' beyond the listed fields rests on C12 (a step reads nothing else before writing it)",
    "sleep bookkeeping values (ntree_awake, body_awake, ...) when the SLEEP enable flag is set: recomputed by update_sleep with atomic counters (not functional in wpv)",
  ],
}

UPDATE_SLEEP_FRAME = ["d.ntree_awake", "d.nbody_awake", "d.nv_awake", "d.tree_awake", "d.body_awake", "d.body_awake_ind", "d.dof_awake_ind"]
HOST_CONTRACTS = {"sleep:update_sleep": {"modifies": UPDATE_SLEEP_FRAME}}

# field -> (lhs, index range condition, fresh value, only_if)
W = "w"
FRESH = [
  ("time", "d.time[w]", "True", "0.0"),
  ("qpos", "d.qpos[w, j]", "0 <= j and j < m.nq", "m.qpos0[w % m.qpos0.shape[0], j]"),
  ("qvel", "d.qvel[w, j]", "0 <= j and j < m.nv", "0.0"),
  ("act", "d.act[w, j]", "0 <= j and j < m.na", "0.0"),
  ("qacc_warmstart", "d.qacc_warmstart[w, j]", "0 <= j and j < m.nv", "0.0"),
  ("ctrl", "d.ctrl[w, j]", "0 <= j and j < m.nu", "0.0"),
  ("qfrc_applied", "d.qfrc_applied[w, j]", "0 <= j and j < m.nv", "0.0"),
  ("xfrc_applied", "d.xfrc_applied[w, j][e]", "0 <= j and j < m.nbody and 0 <= e and e < 6", "0.0"),
  ("eq_active", "d.eq_active[w, j]", "0 <= j and j < m.neq", "m.eq_active0[j]"),
  ("mocap_pos", "d.mocap_pos[w, j]", "0 <= j and j < m.nmocap", "m.body_pos[w % m.body_pos.shape[0], mocap_bodyid(j)]"),
  ("mocap_quat", "d.mocap_quat[w, j]", "0 <= j and j < m.nmocap", "m.body_quat[w % m.body_quat.shape[0], mocap_bodyid(j)]"),
  ("userdata", "d.userdata[w, j]", "0 <= j and j < m.nuserdata", "0.0"),
  ("qacc", "d.qacc[w, j]", "0 <= j and j < m.nv", "0.0"),
  ("act_dot", "d.act_dot[w, j]", "0 <= j and j < m.na", "0.0"),
  ("sensordata", "d.sensordata[w, j]", "0 <= j and j < m.nsensordata", "0.0"),
  ("energy", "d.energy[w][e]", "0 <= e and e < 2", "0.0"),
  ("ne", "d.ne[w]", "True", "0"),
  ("nf", "d.nf[w]", "True", "0"),
  ("nl", "d.nl[w]", "True", "0"),
  ("nefc", "d.nefc[w]", "True", "0"),
  ("solver_niter", "d.solver_niter[w]", "True", "0"),
  ("overflow", "d.overflow[w]", "True", "0"),
  ("tree_asleep", "d.tree_asleep[w, j]", "0 <= j and j < m.ntree", "-(1 + MJ_MINAWAKE)"),
]
# sleep bookkeeping: claimed when the SLEEP flag is off (otherwise recomputed by update_sleep)
FRESH_NOSLEEP = [
  ("ntree_awake", "d.ntree_awake[w]", "True", "m.ntree"),
  ("nbody_awake", "d.nbody_awake[w]", "True", "m.nbody"),
  ("nv_awake", "d.nv_awake[w]", "True", "m.nv"),
  ("tree_awake", "d.tree_awake[w, j]", "0 <= j and j < m.ntree", "1"),
  (
    "body_awake",
    "d.body_awake[w, j]",
    "0 <= j and j < m.nbody",
    "ite(m.body_treeid[j] < 0 and m.body_mocapid[j] < 0, int(SleepState.STATIC), int(SleepState.AWAKE))",
  ),
  ("body_awake_ind", "d.body_awake_ind[w, j]", "0 <= j and j < m.nbody", "j"),
  ("dof_awake_ind", "d.dof_awake_ind[w, j]", "0 <= j and j < m.nv", "j"),
]
SLEEP_OFF = "not bit(m.opt.enableflags, 4)"  # EnableBit.SLEEP == 16, checked by obligation #consts

# history buffers (MuJoCo initial content): actuator u with nsample n>0 at adr a:
#   [a]=0 (user), [a+1]=n-1 (cursor), [a+2+k] = -(n-k)*timestep, [a+2+n+k] = 0
HIST_ACT = [
  ("history.act.user", "d.history[w, m.actuator_historyadr[u]]", "0.0"),
  ("history.act.cursor", "d.history[w, m.actuator_historyadr[u] + 1]", "float(m.actuator_history[u][0] - 1)"),
  (
    "history.act.times",
    "d.history[w, m.actuator_historyadr[u] + 2 + k]",
    "-float(m.actuator_history[u][0] - k) * m.opt.timestep[w % m.opt.timestep.shape[0]]",
  ),
  ("history.act.values", "d.history[w, m.actuator_historyadr[u] + 2 + m.actuator_history[u][0] + k]", "0.0"),
]
HIST_ACT_PRE = "0 <= u and u < m.nu and m.actuator_history[u][0] > 0 and 0 <= k and k < m.actuator_history[u][0] and m.actuator_historyadr[u] >= 0"
HIST_SENS = [
  ("history.sensor.cursor", "d.history[w, m.sensor_historyadr[u] + 1]", "float(m.sensor_history[u][0] - 1)"),
  ("history.sensor.values", "d.history[w, m.sensor_historyadr[u] + 2 + m.sensor_history[u][0] + k]", "0.0"),
]
HIST_SENS_PRE = "0 <= u and u < m.nsensor and m.sensor_history[u][0] > 0 and 0 <= k and k < m.sensor_history[u][0] and m.sensor_historyadr[u] >= 0"

MODES = ["none", "mask", "intmask"]


def _args(mode):
  if mode == "none":
    return {"reset": None}
  if mode == "mask":
    return {"reset": bool_world_mask("reset")}
  return {"reset": int_world_array("reset")}


def _sel(mode):
  return {"none": "True", "mask": "reset[w]", "intmask": "reset[w] != 0"}[mode]


def _run(mode):
  def setup(R):
    R.qvars["mocap_bodyid"] = modelwf.mocap(R.ex)
    modelwf.nv_le_nq(R.ex)

  R = HostRun("io:reset_data", args=_args(mode), host_contracts=HOST_CONTRACTS, setup=setup)
  for v in ("w", "j", "e", "u", "k", "c", "v"):
    R.var(v)
  R.require("d.nworld >= 1 and 0 <= w and w < d.nworld")
  return R


def g_fresh(mode):
  def gen(tier):
    R = _run(mode)
    sel = _sel(mode)
    tag = f"reset_data[{mode}]"
    obs = [canary(R, f"{tag}#canary")]
    raised = R.raised()
    ok = "True" if raised is False else None
    notraise = z3.BoolVal(True) if raised is False else z3.Not(raised)
    for name, lhs, rng, val in FRESH:
      g = R.term(f"implies({sel} and ({rng}), {lhs} == {val})")
      obs.append(R.obligation(f"{tag}#fresh.{name}", z3.Implies(notraise, g), meta={"goal": f"selected world: {lhs} == {val}"}))
    for name, lhs, rng, val in FRESH_NOSLEEP:
      g = R.term(f"implies({sel} and ({rng}) and {SLEEP_OFF}, {lhs} == {val})")
      obs.append(R.obligation(f"{tag}#fresh.{name}", z3.Implies(notraise, g), meta={"goal": f"selected world, SLEEP off: {lhs} == {val}"}))
    for name, lhs, val in HIST_ACT:
      g = R.term(f"implies({sel} and {HIST_ACT_PRE}, {lhs} == {val})")
      obs.append(R.obligation(f"{tag}#fresh.{name}", z3.Implies(notraise, g), meta={"goal": f"selected world: {lhs} == {val} (MuJoCo initial delay buffer)"}))
    for name, lhs, val in HIST_SENS:
      g = R.term(f"implies({sel} and {HIST_SENS_PRE}, {lhs} == {val})")
      obs.append(R.obligation(f"{tag}#fresh.{name}", z3.Implies(notraise, g), meta={"goal": f"selected world: {lhs} == {val} (MuJoCo initial delay buffer)"}))
    # M is cleared too (make_data zero-initialises it)
    obs.append(R.obligation(f"{tag}#fresh.M", z3.Implies(notraise, R.term(f"implies({sel} and 0 <= j and j < d.M.shape[1], d.M[w, j] == 0.0)")), meta={"goal": "selected world: M row zero"}))
    # selected world reports no contact afterwards
    obs.append(
      R.obligation(
        f"{tag}#contacts.selected_world_has_none",
        z3.Implies(notraise, R.term(f"implies({sel} and 0 <= c and c < d.nacon[0] and c < d.naconmax and old(d.nacon[0]) <= d.naconmax, d.contact.worldid[c] != w or d.contact.dim[c] == 0)")),
        meta={"goal": "no live contact slot of a selected world keeps its contact"},
      )
    )
    obs.append(R.obligation(f"{tag}#consts", "int(EnableBit.SLEEP) == 16 and MJ_MINAWAKE >= 0"))
    obs += R.side_obligations(tag + "#")
    return obs

  return gen


def g_frame(mode):
  def gen(tier):
    R = _run(mode)
    tag = f"reset_data[{mode}]"
    sel = _sel(mode)
    obs = []
    ex = R.ex
    written = ex.written_arrays()
    spec_names = {"d." + f[0] for f in FRESH + FRESH_NOSLEEP} | {"d.M", "d.history", "d.nacon"} | {n for n in written if n.startswith("d.contact.")}
    # 1. nothing outside the declared reset frame is written at all
    extra = [n for n in written if n.startswith("d.") and n not in spec_names]
    obs.append(
      Result(
        oid=f"{tag}#frame.only_declared_fields",
        status="discharged" if not extra else "violated",
        kind="frame",
        func="io:reset_data",
        backend="host-analysis",
        meta={"goal": "reset_data writes only the fields of the reset frame", "function": "io:reset_data", "extra_written": extra},
      )
    )
    # 2. unselected worlds: every per-world field is unchanged
    if mode != "none":
      for n in written:
        if not n.startswith("d.") or n.startswith("d.contact.") or n == "d.nacon":
          continue
        ref = ex.resolve_path(n)
        nd = ref.full_ndim
        idx = ["w"] + [f"i{t}" for t in range(1, nd)]
        for t in range(1, nd):
          R.var(f"i{t}")
        post = ex.st.arrs[ref.aid](tuple(R.qvars[x] for x in idx))
        pre = ex.st.arrs0[ref.aid](tuple(R.qvars[x] for x in idx))
        hyp = z3.Not(R.term(sel))
        note = ""
        if n in UPDATE_SLEEP_FRAME:
          hyp = z3.And(hyp, R.term(SLEEP_OFF))
          note = " (SLEEP off)"
        obs.append(R.obligation(f"{tag}#frame.unselected.{n[2:]}", z3.Implies(hyp, post == pre), meta={"goal": f"unselected world: {n} unchanged{note}"}))
      # 3. reported contacts of unselected worlds are unchanged
      live_old = "0 <= c and c < old(d.nacon[0]) and c < d.naconmax"
      obs.append(
        R.obligation(
          f"{tag}#contacts.unselected.kept",
          f"implies(not ({sel}) and {live_old} and old(d.contact.worldid[c]) == w, c < d.nacon[0] and d.contact.worldid[c] == w and d.contact.dist[c] == old(d.contact.dist[c]) and d.contact.geom[c] == old(d.contact.geom[c]) and d.contact.dim[c] == old(d.contact.dim[c]))",
          meta={"goal": "a contact reported for an unselected world before reset is still reported, unchanged (incl. the live bound nacon)"},
        )
      )
      obs.append(
        R.obligation(
          f"{tag}#contacts.unselected.none_added",
          f"implies(not ({sel}) and 0 <= c and c < d.nacon[0] and c < d.naconmax and d.contact.worldid[c] == w, {live_old} and old(d.contact.worldid[c]) == w)",
          meta={"goal": "no contact slot is newly attributed to an unselected world"},
        )
      )
    return obs

  return gen


def g_update_sleep_frame(tier):
  R = HostRun("sleep:update_sleep")
  written = [n for n in R.ex.written_arrays() if n.startswith("d.") or n.startswith("m.")]
  extra = [n for n in written if n not in UPDATE_SLEEP_FRAME]
  return [
    Result(
      oid="update_sleep#frame",
      status="discharged" if not extra else "violated",
      kind="frame",
      func="sleep:update_sleep",
      backend="host-analysis",
      meta={"goal": f"update_sleep modifies only {UPDATE_SLEEP_FRAME}", "function": "sleep:update_sleep", "written": written},
    )
  ]


def g_rejects(tier):
  """invalid reset arguments raise before any launch"""

  def mk_wrong_shape(ex):
    from wpv.sym import T_BOOL

    return ex.new_array("reset", 1, T_BOOL)

  R = HostRun("io:reset_data", args={"reset": mk_wrong_shape}, host_contracts=HOST_CONTRACTS)
  raised = R.raised()
  obs = []
  bad = R.term("reset.shape[0] != d.nworld")
  obs.append(R.obligation("reset_data#rejects.shape", z3.Implies(bad, raised if raised is not False else z3.BoolVal(False)), meta={"goal": "reset of wrong shape -> ValueError"}))
  for i, L in enumerate(R.ex.launches):
    g = L.guard if L.guard is not True else z3.BoolVal(True)
    obs.append(R.obligation(f"reset_data#rejects.no_launch.{i}", z3.Not(z3.And(g, bad)), meta={"goal": "rejected call launches nothing"}))
  return obs


def groups(tier):
  gs = []
  for mode in MODES:
    gs.append((f"fresh[{mode}]", g_fresh(mode)))
    gs.append((f"frame[{mode}]", g_frame(mode)))
  gs.append(("update_sleep.frame", g_update_sleep_frame))
  gs.append(("rejects", g_rejects))
  return gs


def native_replay(oid, model):
  """counter-model -> command that drives the real API on a model of the same shape (scenarios/replay_native.py)"""
  from .common import native_cmd

  return native_cmd("reset", model, masked=("none" not in oid.split("#")[0]))
