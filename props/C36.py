"""C36 Results do not depend on what else ran in the process.

A function's result can depend on process history only through state that outlives the
call. Obligations over the real source of every module of mujoco_warp/_src:
 (G1) global-state frame: every module-level object that some function mutates (container
      method calls, subscript stores, `global` rebinding) is in the declared frame
      {warp_util._KERNEL_CACHE, warp_util._STACK}; anything else is history that a later model
      can observe.
 (G2) no hidden memoisation: functools.lru_cache / functools.cache (or hand-rolled cache dicts,
      covered by G1) on functions whose arguments are mutable or hashed by identity.
 (G3) memo soundness of @cache_kernel (the one declared cache): the cache key must distinguish
      everything the produced kernel depends on. Per factory: every parameter is a value that
      _hash_arg distinguishes (annotated bool/int/float/str/enum, a list of such/hashables, or
      an object used only through `.size`); factory names (part of the key) are unique; the
      factory body reads no module-level mutable object.
 (G4) warp_util.cache_kernel itself: the extracted function is executed (pure python) against
      its contract on a bounded set of factory shapes: equal arguments -> the same object,
      arguments differing in value / list content / size / factory name -> different objects.
      (bounded stand-in for the wrapper, labelled as such).
"""
import ast
import os

from wpv import extract
from wpv.runner import Result

INFO = {
  "trusted": [
    "python object semantics of module-level state (a name bound at module level lives for the whole process)",
    "Warp's own kernel/module cache is external",
  ],
  "undecided": ["numerical effects of warp's compilation cache, CUDA graph capture state"],
}

DECLARED_FRAME = {
  ("warp_util", "_KERNEL_CACHE"): "memo table of cache_kernel (soundness: G3/G4)",
  ("warp_util", "_STACK"): "event tracing stack (timing only, no effect on results)",
}
MUTATORS = {"append", "extend", "add", "update", "pop", "clear", "insert", "remove", "setdefault", "popitem", "discard", "sort", "reverse", "appendleft"}
MUTABLE_CTORS = {"list", "dict", "set", "defaultdict", "OrderedDict", "deque", "collections.defaultdict", "collections.OrderedDict", "collections.deque"}
MEMO_DECOS = ("functools.lru_cache", "lru_cache", "functools.cache", "cache", "functools.cached_property", "cached_property")
HASHABLE_ANN = {"bool", "int", "float", "str"}


def _module_globals(mi):
  """module-level names bound to a mutable container (or anything rebound via `global`)"""
  out = {}
  for n in mi.tree.body:
    tgts = []
    if isinstance(n, ast.Assign):
      tgts, v = [t for t in n.targets if isinstance(t, ast.Name)], n.value
    elif isinstance(n, ast.AnnAssign) and isinstance(n.target, ast.Name) and n.value is not None:
      tgts, v = [n.target], n.value
    else:
      continue
    mutable = isinstance(v, (ast.List, ast.Dict, ast.Set, ast.ListComp, ast.DictComp, ast.SetComp)) or (isinstance(v, ast.Call) and ast.unparse(v.func) in MUTABLE_CTORS)
    for t in tgts:
      out[t.id] = (mutable, n.lineno)
  return out


def _mutations(mi, gnames):
  """(global name, function qualname, lineno, how) for every mutation of a module-level name inside a function"""
  out = []
  for q, fi in mi.funcs.items():
    if fi.kind != "host":
      continue
    local_assigned = set()
    declared_global = set()
    for n in ast.walk(fi.node):
      if isinstance(n, ast.Global):
        declared_global |= set(n.names)
    for n in ast.walk(fi.node):
      if isinstance(n, ast.Name) and isinstance(n.ctx, ast.Store) and n.id not in declared_global:
        local_assigned.add(n.id)
    params = {a.arg for a in fi.node.args.args}
    shadow = local_assigned | params

    def is_g(e):
      return isinstance(e, ast.Name) and e.id in gnames and e.id not in shadow

    for n in ast.walk(fi.node):
      if isinstance(n, ast.Call) and isinstance(n.func, ast.Attribute) and n.func.attr in MUTATORS and is_g(n.func.value):
        out.append((n.func.value.id, q, n.lineno, f".{n.func.attr}()"))
      elif isinstance(n, (ast.Assign, ast.AugAssign, ast.AnnAssign)):
        tg = n.targets if isinstance(n, ast.Assign) else [n.target]
        for t in tg:
          if isinstance(t, ast.Subscript) and is_g(t.value):
            out.append((t.value.id, q, n.lineno, "subscript store"))
          elif isinstance(t, ast.Name) and t.id in declared_global and t.id in gnames:
            out.append((t.id, q, n.lineno, "global rebinding"))
      elif isinstance(n, ast.Delete):
        for t in n.targets:
          if isinstance(t, ast.Subscript) and is_g(t.value):
            out.append((t.value.id, q, n.lineno, "del"))
  return out


def g_global_frame(tier):
  out = []
  n_globals = 0
  for mod in extract.all_module_names():
    mi = extract.load_module(mod)
    gl = _module_globals(mi)
    n_globals += len(gl)
    muts = _mutations(mi, set(gl))
    by = {}
    for g, q, ln, how in muts:
      by.setdefault(g, []).append(f"{mod}.{q}:{how}")
    for g, sites in by.items():
      declared = (mod, g) in DECLARED_FRAME
      out.append(Result(oid=f"global_state#{mod}.{g}", status="discharged" if declared else "violated", kind="GLOBAL_FRAME", func=f"{mod}:{g}", backend="source analysis", meta={"function": f"{mod}:<module>", "goal": f"module-level object {mod}.{g} is mutated by functions only if it is in the declared process-state frame", "mutated_by": sorted(set(sites))[:6], "declared": DECLARED_FRAME.get((mod, g))}))
  # the declared frame must exist (anchors)
  for (mod, g), why in DECLARED_FRAME.items():
    mi = extract.load_module(mod)
    ok = g in _module_globals(mi)
    out.append(Result(oid=f"global_state#anchor.{mod}.{g}", status="discharged" if ok else "undecided", reason="declared frame object not found", kind="GLOBAL_FRAME", func=f"{mod}:{g}", backend="source analysis", meta={"function": f"{mod}:<module>", "goal": f"declared frame object {mod}.{g} exists ({why})"}))
  out.append(Result(oid="global_state#scanned", status="discharged" if n_globals > 20 else "crash", reason="too few module-level names scanned", kind="GLOBAL_FRAME", func="*", backend="source analysis", meta={"function": "*", "goal": "all modules scanned", "module_level_names": n_globals}))
  return out


def g_memo_decorators(tier):
  out = []
  n = 0
  for mod in extract.all_module_names():
    mi = extract.load_module(mod)
    for node in ast.walk(mi.tree):
      if not isinstance(node, (ast.FunctionDef,)):
        continue
      n += 1
      for d in node.decorator_list:
        name = ast.unparse(d.func) if isinstance(d, ast.Call) else ast.unparse(d)
        if name in MEMO_DECOS:
          bad = [a.arg for a in node.args.args if a.annotation is None or ast.unparse(a.annotation) not in HASHABLE_ANN]
          out.append(Result(oid=f"memo#{mod}.{node.name}", status="violated" if bad or not node.args.args else "discharged", kind="MEMO", func=f"{mod}:{node.name}", backend="source analysis", meta={"function": f"{mod}:{node.name}", "goal": "a memoised function takes only immutable value arguments (otherwise its first answer for an object is frozen for the process)", "decorator": name, "identity_hashed_or_mutable_params": bad}))
  out.append(Result(oid="memo#scanned", status="discharged" if n > 500 else "crash", reason="too few functions scanned", kind="MEMO", func="*", backend="source analysis", meta={"function": "*", "goal": "no functools memoisation on functions with mutable / identity-hashed arguments", "functions_scanned": n}))
  return out


def _enum_names():
  from wpv.consts import CONSTS

  return set(CONSTS["enums"].keys())


def g_cache_kernel_factories(tier):
  out = []
  enums = _enum_names()
  names = {}
  nf = 0
  for mod in extract.all_module_names():
    mi = extract.load_module(mod)
    gl = {g for g, (mutable, _) in _module_globals(mi).items() if mutable}
    for q, fi in mi.funcs.items():
      if not fi.cached_factory:
        continue
      nf += 1
      names.setdefault(fi.node.name, []).append(f"{mod}:{q}")
      problems = []
      for a in fi.node.args.args:
        ann = ast.unparse(a.annotation) if a.annotation is not None else None
        uses = [n for n in ast.walk(fi.node) if isinstance(n, ast.Name) and n.id == a.arg and isinstance(n.ctx, ast.Load)]
        if ann in HASHABLE_ANN or (ann and ann.split(".")[-1] in enums):
          continue  # hashed by value
        # object parameters: only `.size` may be used (that is all _hash_arg sees of them)
        attr_uses = set()
        other = 0
        for node in ast.walk(fi.node):
          if isinstance(node, ast.Attribute) and isinstance(node.value, ast.Name) and node.value.id == a.arg:
            attr_uses.add(node.attr)
        sized = ann is not None and ("TileSet" in ann or "array" in ann)
        if sized:
          if attr_uses - {"size"}:
            problems.append(f"{a.arg}: {ann} is keyed by .size only but the factory uses .{sorted(attr_uses - {'size'})}")
          continue
        if ann is None:
          # unannotated: accepted only for lists of hashables (hashed element-wise); the call sites must pass lists
          from wpv import launchsites

          kern = launchsites._kernel_of_factory(fi)
          sites = [s for s in launchsites.all_sites() if kern is not None and s.kernel == kern.key]
          ok = bool(sites)
          problems_local = []
          for s in sites:
            v = s.closure.get(a.arg, "")
            host = extract.get_func(s.host)
            # the actual must be a list built in the calling function (a literal or a local list)
            is_local_list = any(isinstance(n, ast.Assign) and any(isinstance(t, ast.Name) and t.id == v for t in n.targets) and isinstance(n.value, (ast.List, ast.ListComp)) for n in ast.walk(host.node))
            if not (v.startswith("[") or is_local_list):
              ok = False
              problems_local.append(f"{s.host} passes `{v}`")
          if not ok:
            problems.append(f"{a.arg}: unannotated parameter must be a list built by the caller (hashed by content): {problems_local[:2]}")
          continue
        problems.append(f"{a.arg}: {ann} is not a value type the cache key distinguishes")
      # the factory must not read module-level mutable state (not part of the key)
      reads = sorted({n.id for n in ast.walk(fi.node) if isinstance(n, ast.Name) and isinstance(n.ctx, ast.Load) and n.id in gl})
      if reads:
        problems.append(f"reads module-level mutable objects {reads} that are not part of the cache key")
      out.append(Result(oid=f"cache_kernel#{mod}.{q}", status="discharged" if not problems else "violated", kind="MEMO_SOUND", func=fi.key, backend="source analysis", meta={"function": fi.key, "source_hash": fi.source_hash, "goal": "everything the produced kernel depends on is distinguished by the cache key", "problems": problems}))
  dup = {n: v for n, v in names.items() if len(v) > 1}
  out.append(Result(oid="cache_kernel#unique_names", status="discharged" if not dup else "violated", kind="MEMO_SOUND", func="warp_util:cache_kernel", backend="source analysis", meta={"function": "warp_util:cache_kernel", "goal": "factory __name__ is part of the key: names are unique across modules", "duplicates": dup}))
  out.append(Result(oid="cache_kernel#scanned", status="discharged" if nf >= 10 else "crash", reason="cache_kernel factories not found", kind="MEMO_SOUND", func="*", backend="source analysis", meta={"function": "*", "goal": "all @cache_kernel factories scanned", "factories": nf}))
  return out


VALUE_TYPES = {"int", "bool", "float", "str", "enum"}


def _value_ok(e, host, seen, ft, why):
  """is expression `e` (ast) in host function `host` provably a plain python value (hashed BY VALUE by
  cache_kernel._hash_arg), as opposed to an object with a `.size` (numpy scalars have size 1 and would all share one
  cache slot)?"""
  if isinstance(e, ast.Constant):
    return True
  if isinstance(e, (ast.Compare,)):
    return True  # python comparison results used as flags (numpy bool from a numpy comparison is caught where that operand is judged)
  if isinstance(e, ast.BoolOp):
    return all(_value_ok(v, host, seen, ft, why) for v in e.values)
  if isinstance(e, ast.UnaryOp):
    return isinstance(e.op, ast.Not) or _value_ok(e.operand, host, seen, ft, why)
  if isinstance(e, ast.BinOp):
    return _value_ok(e.left, host, seen, ft, why) and _value_ok(e.right, host, seen, ft, why)
  if isinstance(e, ast.IfExp):
    return _value_ok(e.body, host, seen, ft, why) and _value_ok(e.orelse, host, seen, ft, why)
  if isinstance(e, ast.Call):
    f = ast.unparse(e.func)
    if f in ("bool", "int", "float", "str", "len"):
      return True
    if f in ("max", "min", "abs"):
      return all(_value_ok(a, host, seen, ft, why) for a in e.args)
    # a host function of the repo with a value return annotation
    from wpv import launchsites

    t = launchsites._resolve_host(host, e.func)
    if t is not None and t.node.returns is not None and ast.unparse(t.node.returns) in ("bool", "int", "float"):
      return True
    # any function of the repo (e.g. a @wp.func called from python) annotated to return a scalar, applied to python values
    if isinstance(e.func, ast.Name):
      r = extract.resolve_symbol(host.module, e.func.id)
      if r is not None and r[0] == "func" and r[1].node.returns is not None and ast.unparse(r[1].node.returns) in ("bool", "int", "float"):
        return all(_value_ok(a, host, seen, ft, why) for a in e.args)
    why.append(f"call {f}(..) of unknown result type")
    return False
  if isinstance(e, ast.Subscript):
    b = ast.unparse(e.value)
    if b.endswith(".shape"):
      return True  # warp array shapes are tuples of python ints
    why.append(f"subscript {ast.unparse(e)}")
    return False
  if isinstance(e, ast.Attribute):
    t = ast.unparse(e)
    if t.split(".")[0] in ("types",) or t.split(".")[-2:-1] in (["ConeType"], ["SolverType"], ["GeomType"]):
      return True  # module constant / enum member
    if t.endswith(".size") or ".block_dim." in t:
      return True  # TileSet.size / BlockDim fields: python ints of frozen dataclasses
    if t.endswith(".value"):
      return True  # value of an enum member
    root = t.split(".")[0]
    if root in ("m", "d", "mfull", "dfull"):
      key = ("m" if root.startswith("m") else "d") + t[len(root):]
      tys = ft.get(key)
      if tys is None:
        why.append(f"{t}: runtime type not audited")
        return False
      bad = sorted(set(tys) - VALUE_TYPES)
      if bad:
        why.append(f"{t} is a {bad[0]} at run time (numpy scalar: keyed by .size == 1, not by value)")
        return False
      return True
    why.append(f"attribute {t}")
    return False
  if isinstance(e, ast.Name):
    if e.id in ("True", "False", "None"):
      return True
    if e.id in seen:
      return True
    seen = seen | {e.id}
    # parameter of the host function with a value annotation
    allp = list(host.node.args.args + host.node.args.kwonlyargs)
    pp = getattr(host, "parent", None)
    while pp is not None:
      allp += list(pp.node.args.args + pp.node.args.kwonlyargs)
      pp = getattr(pp, "parent", None)
    for a in allp:
      if a.arg == e.id:
        ann = ast.unparse(a.annotation) if a.annotation is not None else ""
        if ann in ("bool", "int", "float", "str") or ann.split(".")[-1] in _enum_names():
          return True
        why.append(f"parameter {e.id}: {ann or 'unannotated'}")
        return False
    vals = []
    scopes = [host]
    pp = getattr(host, "parent", None)
    while pp is not None:
      scopes.append(pp)  # a nested function also sees the locals of the functions around it
      pp = getattr(pp, "parent", None)
    for n in (x for sc in scopes for x in ast.walk(sc.node)):
      if isinstance(n, ast.Assign):
        for tg in n.targets:
          if isinstance(tg, ast.Name) and tg.id == e.id:
            vals.append(n.value)
          elif isinstance(tg, ast.Tuple) and any(isinstance(x, ast.Name) and x.id == e.id for x in tg.elts):
            # a, b = f(..): judge the matching element of f's returned tuple, in f's own scope
            pos = [i for i, x in enumerate(tg.elts) if isinstance(x, ast.Name) and x.id == e.id][0]
            got = None
            if isinstance(n.value, ast.Call) and isinstance(n.value.func, ast.Name):
              callee = None
              for sc in scopes:
                callee = sc.nested.get(n.value.func.id) if hasattr(sc, "nested") else None
                if callee is not None:
                  break
              if callee is None:
                from wpv import launchsites

                callee = launchsites._resolve_host(host, n.value.func)
              if callee is not None:
                rets = [r.value for r in ast.walk(callee.node) if isinstance(r, ast.Return) and isinstance(r.value, ast.Tuple) and len(r.value.elts) > pos]
                if rets and all(_value_ok(r.elts[pos], callee, frozenset(), ft, why) for r in rets):
                  got = ast.Constant(0)
            elif isinstance(n.value, ast.Tuple) and len(n.value.elts) > pos:
              got = n.value.elts[pos]
            vals.append(got)
      elif isinstance(n, ast.AugAssign) and isinstance(n.target, ast.Name) and n.target.id == e.id:
        vals.append(n.value)
      elif isinstance(n, (ast.For,)) and isinstance(n.target, ast.Name) and n.target.id == e.id:
        it = ast.unparse(n.iter)
        vals.append(ast.Constant(0) if it.startswith("range(") else None)
    if not vals:
      # module-level constant of the host's module
      r = extract.resolve_symbol(host.module, e.id)
      if r is not None:
        return True
      why.append(f"name {e.id} has no visible definition")
      return False
    ok = True
    for v in vals:
      if v is None or not _value_ok(v, host, seen, ft, why):
        ok = False
    return ok
  why.append(f"expression {ast.unparse(e)[:40]}")
  return False


def g_factory_call_args(tier):
  """(G3b) at every call of a @cache_kernel factory, the actual argument of each value-typed parameter is a plain
  python value (so that the cache key distinguishes its values)"""
  from wpv import launchsites
  from wpv.consts import CONSTS

  ft = CONSTS.get("field_types") or {}
  enums = _enum_names()
  out = []
  n = 0
  if not ft:
    return [Result(oid="cache_kernel_args#audit", status="crash", reason="runtime field types were not dumped: " + str(CONSTS.get("field_types_error")))]
  for mod in extract.all_module_names():
    mi = extract.load_module(mod)
    for q, host in mi.funcs.items():
      for node in ast.walk(host.node):
        if not isinstance(node, ast.Call):
          continue
        tgt = launchsites._resolve_host(host, node.func)
        if tgt is None or not tgt.cached_factory or tgt.key == host.key:
          continue
        params = tgt.node.args.args
        for a, actual in zip(params, node.args):
          ann = ast.unparse(a.annotation) if a.annotation is not None else None
          if not (ann in HASHABLE_ANN or (ann and ann.split(".")[-1] in enums)):
            continue
          n += 1
          why = []
          ok = _value_ok(actual, host, frozenset(), ft, why)
          out.append(Result(oid=f"cache_kernel_args#{mod}.{q}@{node.lineno}.{tgt.node.name}.{a.arg}", status="discharged" if ok else "violated", kind="MEMO_SOUND", func=host.key, backend="source analysis + runtime type audit of Model/Data fields", meta={"function": host.key, "source_hash": host.source_hash, "goal": f"the argument `{ast.unparse(actual)[:60]}` for the value parameter {a.arg}: {ann} of {tgt.node.name} is a plain python value (hashed by value)", "why_not": why[:3]}))
  out.append(Result(oid="cache_kernel_args#scanned", status="discharged" if n >= 50 else "crash", reason="factory call sites not found", kind="MEMO_SOUND", func="*", backend="source analysis", meta={"function": "*", "goal": "value arguments at factory call sites scanned", "arguments": n}))
  return out


def g_cache_kernel_wrapper(tier):
  """G4 bounded: run the extracted cache_kernel (pure python) against its contract"""
  mi = extract.load_module("warp_util")
  fi = mi.funcs.get("cache_kernel")
  if fi is None:
    return [Result(oid="cache_kernel#wrapper.anchor", status="undecided", reason="warp_util.cache_kernel not found")]
  src = ast.get_source_segment(mi.source, fi.node)
  ns = {"functools": __import__("functools"), "_KERNEL_CACHE": {}}
  exec(src, ns)  # the function uses functools and the module-level dict only
  ck = ns["cache_kernel"]

  class Sized:
    def __init__(self, size, tag):
      self.size, self.tag = size, tag

  def mk(name):
    def factory(*args):
      return object()

    factory.__name__ = name
    return ck(factory)

  f, g = mk("f"), mk("g")
  cases = []
  fails = []

  def expect(desc, a, b, same):
    cases.append(desc)
    if (a is b) != same:
      fails.append(desc)

  expect("same ints", f(1, 2), f(1, 2), True)
  expect("different int", f(1, 2), f(1, 3), False)
  expect("bool vs other bool", f(True, 2), f(False, 2), False)
  expect("same list content", f([1, 2]), f([1, 2]), True)
  expect("different list content", f([1, 2]), f([1, 3]), False)
  expect("different list length", f([1, 2]), f([1, 2, 3]), False)
  expect("sized objects, same size", f(Sized(4, "a")), f(Sized(4, "b")), True)
  expect("sized objects, different size", f(Sized(4, "a")), f(Sized(5, "a")), False)
  expect("different factory name, same args", f(1, 2), g(1, 2), False)
  expect("argument order", f(1, 2), f(2, 1), False)
  expect("arity", f(1), f(1, 1), False)
  st = "bounded" if not fails else "violated"
  return [Result(oid="cache_kernel#wrapper.contract", status=st, kind="MEMO_SOUND", func="warp_util:cache_kernel", backend="native execution of the extracted function (bounded)", bound="11 argument shapes", cases=len(cases), meta={"function": "warp_util:cache_kernel", "source_hash": fi.source_hash, "goal": "equal arguments -> same kernel object; arguments that differ in value, list content, size or factory name -> different objects", "failed_cases": fails})]


def g_fresh_memory(tier):
  """(G5) bounded native probe: forward() on a fresh Data does not depend on the content of freed device memory
  (scenarios/c36_fresh_memory.py). Three configurations; a failing one is a concrete witness."""
  import subprocess

  from wpv.consts import REPO, VENV_PY

  here = os.path.dirname(os.path.dirname(os.path.abspath(__file__)))
  out = []
  for jac, sleep in (("sparse", "1"), ("dense", "1"), ("sparse", "0")):
    cmd = [VENV_PY, os.path.join(here, "scenarios", "c36_fresh_memory.py"), jac, sleep]
    r = subprocess.run(cmd, capture_output=True, text=True, env=dict(os.environ, PYTHONPATH=REPO), cwd="/")
    tag = f"fresh_memory[jacobian={jac},sleep={sleep}]"
    tail = (r.stdout + r.stderr).strip().splitlines()[-1:] or [""]
    out.append(Result(oid=f"{tag}.probe", status="bounded", kind="bounded", func="forward:forward", bound="4 free bodies, no constraints, 8 trials with NaN-poisoned freed memory", cases=8, reason=tail[0][:200], meta={"function": "forward:forward", "goal": "bounded: forward() on a fresh Data is independent of freed-memory content"}))
    if r.returncode == 1:
      out.append(Result(oid=tag, status="violated", kind="host", func="forward:forward", backend="native run", replay={"native_cmd": ["VENV_PYTHON", "scenarios/c36_fresh_memory.py", jac, sleep], "exit": 1, "reproduced": True, "output": (r.stdout + r.stderr)[-1200:]}, meta={"function": "forward:forward", "goal": "the result of forward() on a fresh Data does not depend on what freed device memory contains (what ran earlier in the process)", "output": tail[0][:300]}))
    elif r.returncode != 0:
      out.append(Result(oid=tag, status="crash", reason=(r.stdout + r.stderr)[-600:]))
  return out


def g_sparse_init(tier):
  """(G6) the obligation behind D15: the constraint-force buffer is defined before the solver's first gradient reads it,
  whatever memory it was allocated in. The sparse update kernels leave qfrc_constraint untouched for a world without
  active rows, so _solve must select the sparse initialisation (_solve_init_dof, which zeroes such worlds) under exactly
  the condition under which _update_constraint selects the sparse update kernels."""
  import z3

  from wpv.contracts import Obligation, Run
  from wpv.sym import lift, zb

  out = []
  solve = extract.get_func("solver:_solve")
  upd = extract.get_func("solver:_update_constraint")
  atoms = {}

  def cond(e, env):
    if isinstance(e, ast.BoolOp):
      vs = [cond(v, env) for v in e.values]
      return z3.And(*vs) if isinstance(e.op, ast.And) else z3.Or(*vs)
    if isinstance(e, ast.UnaryOp) and isinstance(e.op, ast.Not):
      return z3.Not(cond(e.operand, env))
    if isinstance(e, ast.Name) and e.id in env:
      return cond(env[e.id], env)
    return atoms.setdefault(ast.unparse(e), z3.Bool(ast.unparse(e)))

  def local_defs(fn):
    return {s.targets[0].id: s.value for s in fn.node.body if isinstance(s, ast.Assign) and len(s.targets) == 1 and isinstance(s.targets[0], ast.Name)}

  calls = [n for n in ast.walk(solve.node) if isinstance(n, ast.Call) and ast.unparse(n.func) == "_solve_init_dof"]
  ifs = [n for n in upd.node.body if isinstance(n, ast.If) and "_zero_qfrc_constraint_sparse" in ast.unparse(n.body)]
  if len(calls) != 1 or len(calls[0].args) != 2 or len(ifs) != 1:
    raise KeyError("solver:_solve / _update_constraint: _solve_init_dof call or sparse update branch not found")
  a = cond(calls[0].args[1], local_defs(solve))
  b = cond(ifs[0].test, local_defs(upd))
  out.append(Obligation("_solve#sparse_init_iff_sparse_update", [], a == b, func="solver:_solve", kind="host", meta={"function": "solver:_solve", "source_hash": solve.source_hash, "goal": f"_solve_init_dof is specialised as sparse ({ast.unparse(calls[0].args[1])}) exactly when _update_constraint runs the sparse update kernels ({ast.unparse(ifs[0].test)})", "atoms": sorted(atoms)}))
  # the sparse initialisation zeroes qfrc_constraint of a world without active rows; the two sparse update kernels do not touch it there
  R = Run("solver:_solve_init_dof.kernel", closure={"WARMSTART": True, "SPARSE": True})
  ws = [x for x in R.ex.st.log if x.kind == "w" and x.arr is R.params["qfrc_constraint_out"]]
  goal = z3.Or(*[z3.And(zb(x.guard), lift(x.idx[0]) == R.ex.tids[0], lift(x.idx[1]) == R.ex.tids[1], lift(x.value, "float") == 0) for x in ws]) if ws else z3.BoolVal(False)
  out.append(R.obligation("_solve_init_dof[SPARSE]#zeroes_unconstrained_worlds", z3.Implies(R.term("nefc_in[tid0] == 0"), goal), meta={"goal": "with the sparse specialisation, qfrc_constraint[world, dof] = 0 for a world with nefc == 0"}))
  for key in ("solver:_zero_qfrc_constraint_sparse", "solver:_update_constraint_init_qfrc_constraint_sparse.kernel"):
    for comp in ((False, True) if key.endswith(".kernel") else (None,)):
      R = Run(key, closure={} if comp is None else {"COMPACT": comp})
      tag = key.split(":")[1].replace(".kernel", "") + ("" if comp is None else f"[COMPACT={comp}]")
      touched = [x for x in R.ex.st.log if x.kind in ("w", "atomic") and x.arr is R.params["qfrc_constraint_out"]]
      out.append(R.obligation(f"{tag}#untouched_when_nothing_changed", z3.Implies(R.term("state_changed_count_in[tid0] == 0"), z3.Not(z3.Or(*[zb(x.guard) for x in touched]) if touched else z3.BoolVal(False))), meta={"goal": "a world whose change / row count is 0 is left untouched (so its value must have been defined by the initialisation)"}))
  return out


def groups(tier):
  return [("sparse_init", g_sparse_init), ("fresh_memory", g_fresh_memory), ("global_frame", g_global_frame), ("memo_decorators", g_memo_decorators), ("cache_kernel_factories", g_cache_kernel_factories), ("factory_call_args", g_factory_call_args), ("cache_kernel_wrapper", g_cache_kernel_wrapper)]
