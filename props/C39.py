"""C39 contact_force reports the contact wrench.

Host-level contract on support.contact_force (the real kernel and the wp.funcs it inlines,
bound through the real launch site). Spec function: MuJoCo's documented mj_contactForce /
mju_decodePyramid: condim 1 -> (f0,0,..); pyramidal condim k -> normal = sum of the 2(k-1)
pyramid forces, tangent i = (f[2i] - f[2i+1]) * mu[i]; elliptic -> copy of condim rows; the
adhesive pull is subtracted from the normal; optional rotation by the contact frame.
The contact dimension is fixed per run (H_K: all contacts have condim K, K in {1,3,4,6});
the kernel reads dim only at the requested contact's own slot (SLOT obligation of C09), so
the per-contact claim does not depend on the other contacts' dimensions.
"""
import z3

from wpv.hostexec import HostRun
from wpv.runner import Result
from wpv.sym import T_INT, Ghost

from .common import canary

INFO = {
  "trusted": [
    "spec = MuJoCo's documented mj_contactForce/mju_decodePyramid (not the C implementation)",
    "exact over the reals (T2)",
  ],
  "undecided": ["contacts with a row address outside [0, njmax) (row overflow) are outside the claim: the code then reports partial sums"],
}

CONES = {"PYRAMIDAL": "ConeType.PYRAMIDAL", "ELLIPTIC": "ConeType.ELLIPTIC"}


def _run(K, cone):
  def setup(R):
    ex = R.ex
    d = ex.roots["d"] if "d" in ex.roots else ex.root("d", "Data")
    dim = ex.host_attr(ex.host_attr(d, "contact"), "dim")
    ex.st.arrs[dim.aid] = lambda idx: K  # python int: loop bounds on condim unroll
    ex.st.arrs0[dim.aid] = ex.st.arrs[dim.aid]
    m = ex.roots["m"] if "m" in ex.roots else ex.root("m", "Model")
    opt = ex.host_attr(m, "opt")
    from wpv.consts import enum_namespace

    opt.fields["cone"] = int(getattr(enum_namespace().ConeType, cone))

  R = HostRun("support:contact_force", setup=setup)
  for v in ("t", "c", "w", "i"):
    R.var(v)
  return R


def g_force(K, cone):
  def gen(tier):
    R = _run(K, cone)
    tag = f"contact_force[{cone},condim={K}]"
    live = "0 <= t and t < contact_ids.shape[0] and c == contact_ids[t] and 0 <= c and c < d.nacon[0] and w == d.contact.worldid[c] and d.njmax >= 0"
    nrows = 1 if K == 1 else (2 * (K - 1) if cone == "PYRAMIDAL" else K)
    if cone == "PYRAMIDAL" or K == 1:
      rows_ok = " and ".join([f"d.contact.efc_address[c, 0] >= 0", f"d.contact.efc_address[c, 0] + {nrows} <= d.njmax"])
      adr = lambda k: f"d.contact.efc_address[c, 0] + {k}"
    else:
      rows_ok = " and ".join([f"d.contact.efc_address[c, {k}] >= 0 and d.contact.efc_address[c, {k}] < d.njmax" for k in range(K)])
      adr = lambda k: f"d.contact.efc_address[c, {k}]"
    f = lambda k: f"d.efc.force[w, {adr(k)}]"
    spec = ["0.0"] * 6
    if K == 1:
      spec[0] = f"{f(0)}"
    elif cone == "PYRAMIDAL":
      spec[0] = " + ".join(f"{f(2 * i)} + {f(2 * i + 1)}" for i in range(K - 1))
      for i in range(K - 1):
        spec[i + 1] = f"({f(2 * i)} - {f(2 * i + 1)}) * d.contact.friction[c][{i}]"
    else:
      for i in range(K):
        spec[i] = f(i)
    spec[0] = f"({spec[0]}) - d.contact.adhesion[c]"
    obs = [canary(R, f"{tag}#canary")]
    pre = f"{live} and {rows_ok}"
    for j in range(6):
      obs.append(R.obligation(f"{tag}#contact_frame.comp{j}", f"implies({pre} and not to_world_frame, force[t][{j}] == {spec[j]})", meta={"goal": f"component {j} of the wrench in the contact frame equals the mj_contactForce spec"}))
    # world frame: top and bottom rotated by the contact frame (row-vector times matrix)
    for part, base in (("top", 0), ("bottom", 3)):
      for j in range(3):
        rot = " + ".join(f"({spec[base + r]}) * d.contact.frame[c][{r}, {j}]" for r in range(3))
        obs.append(R.obligation(f"{tag}#world_frame.{part}{j}", f"implies({pre} and to_world_frame, force[t][{base + j}] == {rot})", meta={"goal": f"{part} part rotated by the contact frame"}))
    # requests beyond the live contacts leave the output untouched; other outputs are not written by this thread
    obs.append(R.obligation(f"{tag}#stale_id_untouched", "implies(0 <= t and t < contact_ids.shape[0] and contact_ids[t] >= d.nacon[0], force[t][i] == old(force[t][i]))", meta={"goal": "a request for a slot beyond nacon writes nothing"}))
    obs.append(R.obligation(f"{tag}#frame.beyond_request", "implies(t < 0 or t >= contact_ids.shape[0], force[t][i] == old(force[t][i]))"))
    # not-included contact (efc_address[0] < 0): zero wrench in the contact frame
    obs.append(R.obligation(f"{tag}#inactive_contact_zero", f"implies({live} and d.contact.efc_address[c, 0] < 0 and not to_world_frame and 0 <= i and i < 6, force[t][i] == 0.0)", meta={"goal": "a contact without rows reports zero force"}))
    obs += R.side_obligations(tag + "#")
    written = [n for n in R.ex.written_arrays() if n.startswith(("d.", "m."))]
    obs.append(Result(oid=f"{tag}#frame.data_unmodified", status="discharged" if not written else "violated", kind="frame", func="support:contact_force", backend="host-analysis", meta={"function": "support:contact_force", "goal": "contact_force writes only its output argument", "written": written}))
    return obs

  return gen


def groups(tier):
  gs = []
  for cone in CONES:
    for K in (1, 3, 4, 6):
      gs.append((f"force[{cone},{K}]", g_force(K, cone)))
  return gs
