"""C10 Per-world model parameters take effect only in their world.

MODULO schema over every kernel of the repository (all closure specialisations): each
access to a '*'-batched Model/Option/Statistic field is provably indexed by
(owning world) % field.shape[0]. Semantic (SMT) equality, no ignore list. Closure integers
that stand for a batch size (`ngeom_aabb`, ...) are tied to the array's shape by a
launch-site obligation (every launch passes `<array>.shape[0]` for them).
"""
from wpv import census, schemas

INFO = {
  "trusted": [
    "formals are classified by the repo's naming convention (X / opt_X / stat_X <-> Model/Option/Statistic field X of types.py with leading '*')",
    "put_model/_create_array giving a batched field leading dimension batch_sizes[name] is numpy host code: audited natively, not proved",
  ],
  "undecided": [
    "kernels listed in contracts/scope_C10.txt (bvh/mesh/texture intrinsics, a few constructs outside the dialect) are unverified surroundings",
    "module set_const (kernels that WRITE derived Model fields per world) is C33's concern and not part of this claim",
  ],
  "explanation": "A kernel added or renamed later is in scope by default (the census enumerates /repo on every run).",
}

EXCLUDED_MODULES = {"set_const"}


def groups(tier):
  return [(k.key, schemas.kernel_group(k.key, ("MODULO",))) for k in census.all_kernels() if k.module not in EXCLUDED_MODULES]
