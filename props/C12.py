"""C12 The next step depends only on the integration state (no stale information).

Host-level data-flow analysis of the real orchestration code (events of forward() and step() in source order, calls
inlined, conditions as atoms; every launch joined with the access summary of the real kernel):
 (A) ACC_INIT over step(): every array a kernel accumulates into (`+=`, atomic_*) is (re)initialised earlier in the same
     step under conditions implied by the accumulation's own conditions -- otherwise the previous step's content leaks in.
 (S) STALE_READ over forward() and step(): a Data field (or solver-context array) that a launch READS and that is neither
     part of the integration state nor a per-model constant seeded by make_data must have been written earlier in the same
     call (fill, copy, or a launch that stores into it) under conditions covering the read's conditions. A read with no
     earlier writer is information from whatever the Data object did before.
 (C) the allocator counters (nefc, ne, nf, nl, nacon, ncollision, efc_nnz, jtdaj_nblock) are zeroed before their first
     use in the step.
Cell-level coverage (does the writer cover every cell the reader reads) is not decided here; for the two shared
buffers it is the live-range discipline checked under C09 (SLOT) and C17 (BOUNDS).
"""
import os

from wpv import census, extract, hostflow
from wpv.runner import Result

from .C37 import INTEGRATION, SLEEP_ATOM, _atoms, _covers, _live, summaries

INPROCESS = True

INFO = {
  "trusted": [
    "host conditions are compared as uninterpreted atoms by their source text after parameter substitution",
    "a store / fill / copy into an array counts as (re)initialisation of the cells the later reader uses (cell coverage: C09 SLOT / C17 BOUNDS live-range discipline, not decided here)",
    "claimed with sleeping disabled: tree_asleep and the sleep bookkeeping are state that the statement's integration-state list does not contain",
    "user callbacks (m.callback.*) are outside the claim",
  ],
  "undecided": [
    "bit-identity of floating-point results (order of atomic accumulation)",
    "kernels outside the dialect (their access summaries fall back to a syntactic summary)",
    "fields listed in contracts/stale_read_reviewed.txt are per-model constants seeded by make_data / put_data or are read only below a live bound written this step (reviewed by hand, with reasons)",
  ],
}

HERE = os.path.dirname(os.path.dirname(os.path.abspath(__file__)))


def _reviewed(name):
  out = {}
  p = os.path.join(HERE, "contracts", name)
  if os.path.exists(p):
    for line in open(p):
      line = line.strip()
      if line and not line.startswith("#"):
        k, _, why = line.partition("#")
        out[k.strip().split()[0]] = why.strip()
  return out


def _facts(integ):
  f = {SLEEP_ATOM: False, "m.opt.enableflags & types.EnableBit.SLEEP": False, "bool(m.opt.enableflags & EnableBit.SLEEP)": False, "m.opt.enableflags & EnableBit.SLEEP": False, "enable_sleep": False}
  if integ == "EULER":
    f["m.opt.integrator == IntegratorType.EULER"] = True
  elif integ == "RK4":
    f["m.opt.integrator == IntegratorType.EULER"] = False
    f["m.opt.integrator == IntegratorType.RK4"] = True
  else:
    f["m.opt.integrator == IntegratorType.EULER"] = False
    f["m.opt.integrator == IntegratorType.RK4"] = False
    f["m.opt.integrator in (IntegratorType.IMPLICITFAST, IntegratorType.IMPLICIT)"] = True
  return f


def _cond(e):
  """condition atoms of an event, plus: a launch whose extent has a component `m.X` / `d.X` only does anything when that
  size is positive (a launch over zero threads neither reads nor writes)"""
  out = {x for x in _atoms(e) if not x[0].startswith("loop:")}
  if e.kind == "launch" and e.dim:
    from wpv.schemas import _dim_components

    for c in _dim_components(e.dim) or []:
      if c.startswith(("m.", "d.")) and c.count(".") == 1 and c.replace(".", "").replace("_", "").isalnum() and c != "d.nworld":
        out.add((f"{c} > 0", True))
  return out


def _is_state(a):
  return a.startswith("d.") and a[2:] in INTEGRATION


def _writes(e, S, a):
  """does event e write array `a` (any store)?"""
  if e.kind in ("fill", "copy", "alloc") and e.target == a:
    return True
  if e.kind == "launch" and e.kernel:
    sm = S[e.kernel]["formals"]
    return any(act == a and sm.get(f, {}).get("w") for f, act in e.binding.items())
  return False


def g_stale(root, integ):
  def gen(tier):
    ev = [e for e in hostflow.flow(root) if _live(e, _facts(integ))]
    S = summaries([e.kernel for e in ev if e.kind == "launch"])
    rev = _reviewed("stale_read_reviewed.txt")
    out = []
    seen = set()
    n = 0
    tag = f"{root.split(':')[1]}[{integ}]"
    for i, e in enumerate(ev):
      if e.kind != "launch" or e.kernel is None:
        continue
      sm = S[e.kernel]["formals"]
      for f, a in e.binding.items():
        if not sm.get(f, {}).get("r"):
          continue
        if not (a.startswith("d.") or a.startswith("ctx.")):
          continue  # Model fields; temporaries are fresh allocations of this call
        if _is_state(a):
          continue
        sig = (a,)
        if sig in seen:
          continue  # the FIRST read of the field in the call decides
        seen.add(sig)
        n += 1
        need = _cond(e)
        writers = [q for q in ev[:i] if _writes(q, S, a)]
        ok = bool(writers) and _covers(need, [{x for x in _atoms(q) if not x[0].startswith("loop:")} for q in writers])
        why = ""
        if not ok and _writes(e, S, a):
          # the first reader is itself a producer of the field (a kernel that stores a cell and reads it back, or reads
          # cells it wrote in an earlier loop iteration: _kinematics_branch and xquat): not a read of older content at
          # event level
          ok = True
          why = "first reader also writes the field (in-place producer)"
        if not ok and a in rev:
          kind, _, reason = rev[a].partition(":")
          # 'conditions': the earlier writers exist but their host conditions are not propositionally implied by the
          # reader's (the reason says why they cover it); still REQUIRES an earlier writer, so removing the producer
          # is reported. 'no-writer': the field is not produced in this call by design (reason).
          if kind.strip() == "no-writer" or (kind.strip() == "conditions" and writers):
            ok = True
            why = "reviewed (contracts/stale_read_reviewed.txt): " + rev[a]
        out.append(Result(oid=f"{tag}#STALE_READ.{a}", status="discharged" if ok else "violated", kind="STALE_READ", func=e.kernel, backend="host-flow analysis" + (", reviewed list" if why else ""), meta={"function": e.kernel, "goal": f"{a} is written earlier in {root.split(':')[1]}() whenever {e.kernel.split(':')[1]} (first reader) reads it", "first_reader": f"{e.kernel} via {e.host}:{e.lineno}", "writers_before": len(writers), "note": why}))
    if n == 0:
      out.append(Result(oid=f"{tag}#STALE_READ.none", status="crash", reason="no reads found: analysis is vacuous"))
    return out

  return gen


def g_acc(integ):
  """(A) as C37's ACC_INIT, over step()"""

  def gen(tier):
    root = "forward:step"
    ev = [e for e in hostflow.flow(root) if _live(e, _facts(integ))]
    S = summaries([e.kernel for e in ev if e.kind == "launch"])
    rev = _reviewed("acc_init_reviewed.txt")
    out = []
    seen = set()
    n_acc = 0
    for i, e in enumerate(ev):
      if e.kind != "launch" or e.kernel is None:
        continue
      sm = S[e.kernel]["formals"]
      for f, a in e.binding.items():
        s_ = sm.get(f, {})
        if not s_.get("acc") or s_.get("plain"):
          continue
        if not (a.startswith("d.") or a.startswith("ctx.")):
          continue
        if _is_state(a):
          continue  # integration state is carried over by definition (qvel += dt*qacc ...)
        n_acc += 1
        need = {x for x in _atoms(e) if not x[0].startswith("loop:")}
        inits = []
        for q in ev[:i]:
          init = False
          if q.kind in ("fill", "copy", "alloc") and q.target == a:
            init = True
          elif q.kind == "launch" and q.kernel:
            qs = S[q.kernel]["formals"]
            for qf, qa in q.binding.items():
              t = qs.get(qf, {})
              if qa == a and t.get("plain") and not t.get("acc") and (not t.get("nonzero_store", True) or not t.get("impure_store", True)):
                init = True
          if init:
            inits.append(q)
        ok = bool(inits) and _covers(need, [{x for x in _atoms(q) if not x[0].startswith("loop:")} for q in inits])
        why = ""
        k = f"{e.kernel.split(':')[1]}.{f}->{a}"
        if not ok and k in rev:
          ok, why = True, "reviewed seeding kernel (contracts/acc_init_reviewed.txt): " + rev[k]
        sig = (e.kernel, f, a)
        if sig in seen:
          continue
        seen.add(sig)
        out.append(Result(oid=f"step[{integ}]#ACC_INIT.{k}", status="discharged" if ok else "violated", kind="ACC_INIT", func=e.kernel, backend="host-flow analysis" + (", reviewed list" if why else ""), meta={"function": e.kernel, "goal": f"{a} is (re)initialised earlier in step() whenever {e.kernel} accumulates into it", "initialisers": len(inits), "note": why}))
    if n_acc == 0:
      out.append(Result(oid=f"step[{integ}]#ACC_INIT.none", status="crash", reason="no accumulating launch found: analysis is vacuous"))
    return out

  return gen


COUNTERS = ["d.nefc", "d.ne", "d.nf", "d.nl", "d.nacon", "d.ncollision", "d.efc.jtdaj_nblock"]


def g_counters(tier):
  ev = [e for e in hostflow.flow("forward:forward") if _live(e, {SLEEP_ATOM: False})]
  S = summaries([e.kernel for e in ev if e.kind == "launch"])
  out = []
  for c in COUNTERS:
    first_use = None
    zeros = []
    for i, e in enumerate(ev):
      if e.kind == "fill" and e.target == c and first_use is None:
        zeros.append(e)
      if e.kind == "launch" and e.kernel:
        sm = S[e.kernel]["formals"]
        for f, a in e.binding.items():
          if a != c:
            continue
          t = sm.get(f, {})
          zeroing = t.get("plain") and not t.get("acc") and not t.get("nonzero_store", True)
          if zeroing and first_use is None:
            zeros.append(e)
          elif (t.get("acc") or t.get("r")) and first_use is None and not zeroing:
            first_use = e
    strip = lambda e: {x for x in _atoms(e) if not x[0].startswith("loop:")}
    ok = bool(zeros) and (first_use is None or _covers(strip(first_use), [strip(z) for z in zeros]))
    out.append(Result(oid=f"forward#counter_zeroed.{c}", status="discharged" if ok else "violated", kind="ACC_INIT", func="forward:forward", backend="host-flow analysis", meta={"function": "forward:forward", "goal": f"the allocator counter {c} is zeroed before its first use in forward(), on every path that reaches that use", "zeroed_by": [(z.kernel or z.kind) for z in zeros][:4], "first_use": first_use.kernel if first_use else None}))
  return out


def g_slot_complete(tier):
  """(W) collision_core.write_contact defines EVERY field of the contact slot it allocates, including every column of
  efc_address (-1 = no row yet): a recycled slot carries nothing of the contact that used it before"""
  import z3

  from wpv.contracts import Run
  from wpv.sym import ArrRef, lift, zb

  key = "collision_core:write_contact"
  R = Run(key)
  ex = R.ex
  i = R.var("i")
  allocs = [a for a in ex.st.log if a.kind == "atomic" and a.op == "add" and a.arr is R.params["nacon_out"] and isinstance(a.value, tuple)]
  out = []
  if len(allocs) != 1:
    return [Result(oid="write_contact#one_allocation", status="violated", kind="post", func=key, backend="analysis", meta={"function": key, "goal": "write_contact allocates exactly one slot", "found": len(allocs)})]
  cid = allocs[0].value[1]
  written = z3.And(zb(allocs[0].guard), cid < R.params["naconmax_in"], cid >= 0)
  ea = R.params["contact_efc_address_out"]
  post = ex.st.arrs[ea.aid]((cid, i))
  out.append(R.obligation("write_contact#efc_address_all_columns_cleared", z3.Implies(z3.And(written, i >= 0, i < ex.shape_sym(ea, 1)), post == -1), meta={"goal": "every column of contact.efc_address of the allocated slot is set to -1 (no stale row address of the slot's previous contact survives)"}))
  fields = [n for n, v in R.params.items() if isinstance(v, ArrRef) and n.startswith("contact_") and n.endswith("_out") and n != "contact_efc_address_out"]
  for n in fields:
    ws = [a for a in ex.st.log if a.kind == "w" and a.arr is R.params[n] and a.idx and lift(a.idx[0]).eq(cid)]
    g = z3.Or(*[zb(a.guard) for a in ws]) if ws else z3.BoolVal(False)
    out.append(R.obligation(f"write_contact#slot_field_written.{n[8:-4]}", z3.Implies(written, g), meta={"goal": f"contact.{n[8:-4]} of the allocated slot is written whenever the slot is"}))
  out.append(Result(oid="write_contact#fields_found", status="discharged" if len(fields) >= 12 else "crash", reason="contact output fields not found", kind="post", func=key, backend="analysis", meta={"function": key, "goal": "the contact fields of write_contact were enumerated", "fields": len(fields)}))
  return out


def groups(tier):
  gs = [("counters", g_counters), ("slot_complete", g_slot_complete)]
  for integ in ("EULER", "IMPLICIT", "RK4"):
    gs.append((f"acc[{integ}]", g_acc(integ)))
  gs.append(("stale[forward]", g_stale("forward:forward", "EULER")))
  for integ in ("EULER", "IMPLICIT", "RK4"):
    gs.append((f"stale[step,{integ}]", g_stale("forward:step", integ)))
  return gs
