"""C25 Solver termination is correctly reported and transparent.

(A) Transition contracts on the real termination kernels solver._solve_done.kernel and
    solver._solve_cg_finalize.kernel (bound as at their launch site: ctx.done is passed for
    both ctx_done_in and ctx_done_out): per world, iteration count, done flag, ITERATIONS
    overflow bit and the nsolving counter. "The bit is set exactly when the world stops
    without meeting the tolerance test" is stated relationally, without naming the test:
    the bit is set in this transition iff the world stops now but would NOT have stopped had
    the limit been larger (two runs of the kernel that differ only in opt_iterations).
(B) Initialisation and the two host loop forms (graph-conditional capture_while / plain
    range loop) against the contract invariant  not done => niter < iterations.
(C) Transparency: DONE_GUARD for every kernel launched from solver._solver_iteration
    (transitively): when its world is done the kernel writes no result-relevant cell of
    that world and does not touch the nsolving counter.
"""
import ast

import z3

from wpv import census, extract, launchsites, schemas
from wpv.contracts import Obligation, Run
from wpv.runner import Result
from wpv.sym import ArrRef, Unsupported, lift, zb

from .common import canary

INFO = {
  "trusted": [
    "T4 (allocator axiom) for the nsolving counter: one atomic decrement per world that becomes done, hence nsolving = number of worlds not done",
    "wp.capture_while(c, body) repeats body while c[0] != 0 (Warp semantics, external)",
  ],
  "undecided": [
    "iterations < 0 is outside the precondition (put_model does not reject it; with graph conditionals the loop would then stop on convergence only)",
    "iterations == 0: no transition happens, niter = 0 and no bit is set (the reading taken for 'limit 0')",
  ],
}

ITER_BIT = "OverflowType.ITERATIONS"


def _itb():
  from wpv.consts import enum_namespace

  v = int(enum_namespace().OverflowType.ITERATIONS)
  assert v > 0 and v & (v - 1) == 0
  return v.bit_length() - 1, v
TERMINATORS = ["solver:_solve_done.kernel", "solver:_solve_cg_finalize.kernel"]


def _site_of(kernel):
  ss = [s for s in launchsites.all_sites() if s.kernel == kernel]
  if len(ss) != 1:
    raise Unsupported(f"{kernel}: expected exactly one launch site, found {len(ss)}")
  return ss[0]


def g_transition(kernel, warn):
  def gen(tier):
    site = _site_of(kernel)
    tag = f"{kernel.split(':')[1]}[warn_overflow={warn}]"
    obs = []
    # launch-site facts the contract relies on
    b = site.binding
    ok_alias = b.get("ctx_done_in") == b.get("ctx_done_out") == "ctx.done"
    ok_fields = b.get("solver_niter_out") == "d.solver_niter" and b.get("overflow_out") == "d.overflow" and b.get("opt_iterations") == "m.opt.iterations" and b.get("nsolving_out") == "nsolving"
    ok_dim = site.dim.replace(" ", "") in ("d.nworld", "(d.nworld,)")
    for name, ok, goal in (
      ("alias", ok_alias, "ctx.done is bound to both ctx_done_in and ctx_done_out"),
      ("fields", ok_fields, "solver_niter/overflow/opt.iterations/nsolving are bound to d.solver_niter/d.overflow/m.opt.iterations/nsolving"),
      ("dim", ok_dim, "one thread per world"),
    ):
      obs.append(Result(oid=f"{tag}#launch.{name}", status="discharged" if ok else "violated", kind="launch-binding", func=kernel, backend="launch-site analysis", meta={"function": kernel, "goal": goal, "binding": {k: b.get(k) for k in ("ctx_done_in", "ctx_done_out", "solver_niter_out", "overflow_out", "opt_iterations", "nsolving_out")}}))
    ITB, ITV = _itb()
    R = Run(kernel, closure={"warn_overflow": warn}, args={"$alias": {"ctx_done_out": "ctx_done_in"}})
    w = R.ex.tids[0]
    R.var("v")
    I = R.params["opt_iterations"]
    R.require("opt_iterations >= 1")
    R.require("implies(not old(ctx_done_in[tid0]), old(solver_niter_out[tid0]) < opt_iterations)")  # loop invariant (B)
    obs.append(canary(R, f"{tag}#canary"))
    was_done = "old(ctx_done_in[tid0])"
    obs.append(R.obligation(f"{tag}#E1.done_world_untouched", f"implies({was_done}, solver_niter_out[tid0] == old(solver_niter_out[tid0]) and ctx_done_out[tid0] and overflow_out[tid0] == old(overflow_out[tid0]))"))
    obs.append(R.obligation(f"{tag}#E2.niter_incremented_and_bounded", f"implies(not {was_done}, solver_niter_out[tid0] == old(solver_niter_out[tid0]) + 1 and solver_niter_out[tid0] <= opt_iterations)"))
    obs.append(R.obligation(f"{tag}#E3.limit_forces_done", f"implies(not {was_done} and solver_niter_out[tid0] == opt_iterations, ctx_done_out[tid0])"))
    obs.append(R.obligation(f"{tag}#E6.invariant_preserved", "implies(not ctx_done_out[tid0], solver_niter_out[tid0] < opt_iterations)"))
    obs.append(R.obligation(f"{tag}#E7.frame_other_worlds", "implies(v != tid0, solver_niter_out[v] == old(solver_niter_out[v]) and ctx_done_out[v] == old(ctx_done_in[v]) and overflow_out[v] == old(overflow_out[v]))"))
    obs.append(R.obligation(f"{tag}#E8.only_iterations_bit_changes", f"overflow_out[tid0] == old(overflow_out[tid0]) or overflow_out[tid0] == old(overflow_out[tid0]) + int({ITER_BIT}) and not bit(old(overflow_out[tid0]), {ITB})"))
    # E4 (relational): the bit is newly set  <=>  the world stops now, but would not stop with a larger limit
    done1 = R.term("ctx_done_out[tid0]")
    bit1 = R.term(f"bit(overflow_out[tid0], {ITB})")
    bit0 = R.term(f"bit(old(overflow_out[tid0]), {ITB})")
    I2 = z3.Int("opt_iterations@larger")
    done2 = z3.substitute(done1, (I, I2))
    niter1 = R.term("solver_niter_out[tid0]")
    hyp = z3.And(z3.Not(R.term(was_done)), I2 > niter1)
    obs.append(R.obligation(f"{tag}#E4.bit_iff_stopped_only_by_limit", z3.Implies(hyp, (z3.And(bit1, z3.Not(bit0))) == z3.And(done1, z3.Not(done2), z3.Not(bit0))), meta={"goal": "ITERATIONS bit newly set <=> world stops in this transition but would not stop with a larger iteration limit (same inputs)"}))
    obs.append(R.obligation(f"{tag}#E4b.bit_never_cleared", z3.Implies(bit0, bit1), meta={"goal": "a set ITERATIONS bit stays set"}))
    # E5: nsolving is decremented exactly when the world becomes done in this transition
    decs = [a for a in R.ex.st.log if a.kind == "atomic" and a.arr is R.params["nsolving_out"]]
    g = z3.Or(*[zb(a.guard) for a in decs]) if decs else z3.BoolVal(False)
    becomes_done = z3.And(z3.Not(R.term(was_done)), done1)
    obs.append(R.obligation(f"{tag}#E5.nsolving_decremented_iff_becomes_done", g == becomes_done, meta={"goal": "atomic_add(nsolving, 0, -1) executes <=> the world becomes done in this transition"}))
    okdec = len(decs) == 1 and decs[0].op == "add" and isinstance(decs[0].value, tuple) and str(decs[0].value[0]) == "-1" and str(decs[0].idx[0]) == "0"
    obs.append(Result(oid=f"{tag}#E5b.single_decrement_by_one", status="discharged" if okdec else "violated", kind="post", func=kernel, backend="access-log analysis", meta={"function": kernel, "goal": "exactly one atomic_add(nsolving, 0, -1) site", "found": [(a.op, str(a.value), str(a.idx)) for a in decs]}))
    # no other write to nsolving
    others = [a for a in R.ex.st.log if a.kind == "w" and a.arr is R.params["nsolving_out"]]
    obs.append(Result(oid=f"{tag}#E5c.no_plain_store_to_nsolving", status="discharged" if not others else "violated", kind="post", func=kernel, backend="access-log analysis", meta={"function": kernel, "goal": "nsolving is only changed by the atomic decrement"}))
    return obs

  return gen


def g_init(tier):
  """(B) the kernel that initialises the solve sets niter = 0 and done = False for every world"""
  obs = []
  k = "solver:_solve_init_efc"
  try:
    info = extract.get_func(k)
  except KeyError:
    # located by behaviour instead of by name: any kernel storing False into a ctx_done_out formal
    info = None
  cands = []
  for fi in census.all_kernels(["solver"]):
    names = [a.arg for a in fi.node.args.args]
    if "ctx_done_out" in names and "solver_niter_out" in names and fi.key not in TERMINATORS:
      cands.append(fi)
  if len(cands) != 1:
    return [Result(oid="init#anchor", status="undecided", reason=f"expected one initialising kernel, found {[c.key for c in cands]}")]
  fi = cands[0]
  for cl in census.specialisations(fi):
    R = Run(fi.key, closure={k: v for k, v in cl.items() if k != "$label"})
    lab = census.spec_label(cl)
    obs.append(R.obligation(f"init[{lab}]#niter_zero_done_false", "solver_niter_out[tid0] == 0 and not ctx_done_out[tid0]"))
  sites = [s for s in launchsites.all_sites() if s.kernel == fi.key]
  ok = len(sites) >= 1 and all(s.binding.get("ctx_done_out") == "ctx.done" and s.binding.get("solver_niter_out") == "d.solver_niter" for s in sites)
  okdim = all(s.dim.replace(" ", "").startswith(("d.nworld", "(d.nworld")) for s in sites)
  obs.append(Result(oid="init#launch.binding", status="discharged" if ok and okdim else "violated", kind="launch-binding", func=fi.key, backend="launch-site analysis", meta={"function": fi.key, "goal": "initialising kernel is launched over all worlds on ctx.done / d.solver_niter", "sites": [(s.host, s.dim) for s in sites]}))
  # it is launched before the iteration loop: init_context is called by _solve before the loop
  solve = extract.get_func("solver:_solve")
  order = []
  for n in ast.walk(solve.node):
    if isinstance(n, ast.Call):
      f = ast.unparse(n.func)
      if f in ("init_context", "wp.capture_while", "_solver_iteration"):
        order.append((n.lineno, f))
  order.sort()
  init_hosts = {s.host for s in sites}
  reach = set(launchsites.reachable_hosts("solver:init_context"))
  ok2 = bool(order) and order[0][1] == "init_context" and (init_hosts & reach)
  obs.append(Result(oid="init#before_loop", status="discharged" if ok2 else "violated", kind="host-order", func="solver:_solve", backend="host analysis", meta={"function": "solver:_solve", "goal": "init_context (which launches the initialising kernel) precedes the iteration loop in _solve", "order": order}))
  return obs


def g_host_loop(tier):
  """(B) both loop forms of solver._solve"""
  from wpv.hostexec import HostExec
  from wpv.sym import Frame

  solve = extract.get_func("solver:_solve")
  obs = []
  src = ast.unparse(solve.node)
  # structural obligations on the real text of _solve (anchored on the AST, not on line numbers)
  loops = [n for n in ast.walk(solve.node) if isinstance(n, ast.For)]
  whiles = [n for n in ast.walk(solve.node) if isinstance(n, ast.Call) and ast.unparse(n.func) == "wp.capture_while"]
  ok_for = len(loops) == 1 and ast.unparse(loops[0].iter) == "range(m.opt.iterations)" and any(isinstance(c, ast.Call) and ast.unparse(c.func) == "_solver_iteration" for c in ast.walk(loops[0]))
  obs.append(Result(oid="host_loop#range_form", status="discharged" if ok_for else "violated", kind="host-loop", func=solve.key, backend="host analysis", meta={"function": solve.key, "goal": "the plain loop runs _solver_iteration exactly m.opt.iterations times, so with E2/E6 niter <= iterations"}))
  ok_wh = len(whiles) == 1 and ast.unparse(whiles[0].args[0]) == "nsolving" and any(kw.arg == "while_body" and ast.unparse(kw.value) == "_solver_iteration" for kw in whiles[0].keywords) and any(kw.arg == "nsolving" and ast.unparse(kw.value) == "nsolving" for kw in whiles[0].keywords)
  obs.append(Result(oid="host_loop#capture_while_form", status="discharged" if ok_wh else "violated", kind="host-loop", func=solve.key, backend="host analysis", meta={"function": solve.key, "goal": "capture_while is conditioned on the same nsolving array that _solver_iteration decrements"}))
  # guard of the capture_while branch: iterations != 0 (otherwise no world would ever become done)
  iff = [n for n in ast.walk(solve.node) if isinstance(n, ast.If) and any(w in ast.walk(n) for w in whiles)]
  ok_g = bool(iff) and "m.opt.iterations != 0" in ast.unparse(iff[0].test)
  obs.append(Result(oid="host_loop#while_only_if_iterations_nonzero", status="discharged" if ok_g else "violated", kind="host-loop", func=solve.key, backend="host analysis", meta={"function": solve.key, "goal": "capture_while is entered only when iterations != 0"}))
  # nsolving initial value = number of worlds
  init = [n for n in ast.walk(solve.node) if isinstance(n, ast.Assign) and ast.unparse(n.targets[0]) == "nsolving"]
  ok_n = len(init) == 1 and "value=d.nworld" in ast.unparse(init[0].value).replace(" ", "") and "wp.full" in ast.unparse(init[0].value)
  obs.append(Result(oid="host_loop#nsolving_initialised_to_nworld", status="discharged" if ok_n else "violated", kind="host-loop", func=solve.key, backend="host analysis", meta={"function": solve.key, "goal": "nsolving starts at d.nworld (all worlds not done)"}))
  # the termination kernels are the only writers of ctx.done / nsolving / solver_niter inside the iteration
  bs = launchsites.bound_sites("solver:_solver_iteration")
  bad = []
  for s in bs:
    if s.kernel in TERMINATORS:
      continue
    for f, a in s.binding.items():
      if a in ("ctx.done", "nsolving", "d.solver_niter") and f.endswith("_out"):
        bad.append((s.kernel, f, a))
  obs.append(Result(oid="host_loop#single_writer_of_done_niter_nsolving", status="discharged" if not bad else "violated", kind="host-loop", func="solver:_solver_iteration", backend="launch-site analysis", meta={"function": "solver:_solver_iteration", "goal": "only the termination kernels receive ctx.done / nsolving / d.solver_niter as outputs", "bad": bad}))
  # exactly one termination kernel runs per iteration, selected by the solver type
  it = extract.get_func("solver:_solver_iteration")
  term_sites = [s for s in launchsites.all_sites() if s.host == it.key and s.kernel in TERMINATORS]
  obs.append(Result(oid="host_loop#terminator_each_iteration", status="discharged" if len(term_sites) == 2 else "violated", kind="host-loop", func=it.key, backend="launch-site analysis", meta={"function": it.key, "goal": "_solver_iteration launches _solve_done (Newton) or _solve_cg_finalize (CG)", "sites": [(s.kernel, s.lineno) for s in term_sites]}))
  return obs


# --------------------------------------------------------------------------- (C) DONE_GUARD

RESULT_PREFIXES = ("d.",)
RESULT_EXACT = ("ctx.grad", "ctx.grad_scale", "ctx.done", "nsolving")


def _is_result(actual):
  a = actual.strip()
  return a.startswith(RESULT_PREFIXES) or a in RESULT_EXACT


def g_done_guard(kernel):
  def gen(tier):
    info = extract.get_func(kernel)
    sites = [s for s in launchsites.bound_sites("solver:_solver_iteration") if s.kernel == kernel]
    obs = []
    seen_b = set()
    for s in sites:
      sig = tuple(sorted(s.binding.items()))
      if sig in seen_b:
        continue
      seen_b.add(sig)
      dones = [f for f, a in s.binding.items() if a == "ctx.done"]
      outs = [f for f, a in s.binding.items() if _is_result(a) and f.endswith("_out")]
      if not outs and not any(a == "nsolving" for a in s.binding.values()):
        obs.append(Result(oid=f"{kernel}@{s.lineno}#DONE_GUARD.scratch_only", status="discharged", kind="DONE_GUARD", func=kernel, backend="launch-site analysis", meta={"function": kernel, "goal": "kernel receives no result-relevant array as output (ctx scratch only)", "outputs": {f: a for f, a in s.binding.items() if f.endswith("_out")}}))
        continue
      for cl in census.specialisations(info):
        lab = census.spec_label(cl)
        try:
          R = Run(kernel, closure={k: v for k, v in cl.items() if k != "$label"}, args={"$alias": launchsites.site_aliases(s)}, fast=True)
        except Unsupported as e:
          obs.append(Result(oid=f"{kernel}[{lab}]#translate", status="out-of-scope", kind="scope", func=kernel, reason=str(e)[:160], meta={"function": kernel}))
          continue
        if not dones:
          obs.append(Result(oid=f"{kernel}@{s.lineno}[{lab}]#DONE_GUARD.no_done_flag", status="violated", kind="DONE_GUARD", func=kernel, backend="launch-site analysis", meta={"function": kernel, "goal": "a kernel of the iteration that writes result-relevant arrays must receive ctx.done", "outputs": {f: s.binding[f] for f in outs}}))
          continue
        dref = R.params[dones[0]]
        formals = {v.aid: n for n, v in R.params.items() if isinstance(v, ArrRef)}
        n = 0
        for a in R.ex.st.log:
          if a.kind == "r" or a.arr.aid not in formals:
            continue
          f = formals[a.arr.aid]
          act = s.binding.get(f, "")
          # aliased formals: take any formal name bound to the same array
          acts = {s.binding.get(fn, "") for fn, v in R.params.items() if isinstance(v, ArrRef) and v.aid == a.arr.aid}
          if not any(_is_result(x) for x in acts) or a.guard is False:
            continue
          if acts == {"ctx.done"} or "ctx.done" in acts and a.kind == "w":
            pass
          n += 1
          # owning world of the write: first index for per-world arrays; the counter has none
          if any(x == "nsolving" for x in acts) or not a.idx:
            wterm = None
          else:
            wterm = lift(a.idx[0])
          if wterm is None:
            # shared counter: the write must be impossible for a thread whose world is done.
            # world of the thread = index used to read the done flag on this path
            dreads = [r for r in R.ex.st.log if r.kind == "r" and r.arr.aid == dref.aid]
            if not dreads:
              obs.append(Result(oid=f"{kernel}@{s.lineno}[{lab}]#DONE_GUARD.{f}@{a.lineno}", status="violated", kind="DONE_GUARD", func=kernel, backend="analysis", meta={"function": kernel, "goal": "counter changed by a kernel that never reads the done flag"}))
              continue
            wterm = lift(dreads[0].idx[0])
          done_w = R.ex.st.arrs0[dref.aid]((wterm,))
          obs.append(Obligation(f"{kernel}@{s.lineno}[{lab}]#DONE_GUARD.{f}@{a.lineno}.{n}", list(R.ex.assumes) + [done_w], z3.Not(zb(a.guard)), func=kernel, kind="DONE_GUARD", meta={"function": kernel, "source_hash": info.source_hash, "goal": f"world done => no write to {f} (bound to {sorted(acts)}) at that world", "int_projection": True, "timeout_ms": 5000}))
    return obs

  return gen


def groups(tier):
  gs = []
  for k in TERMINATORS:
    for warn in (False, True):
      gs.append((f"transition:{k}:{warn}", g_transition(k, warn)))
    # "the tolerance test" is the world's own: every per-world / batched parameter the termination kernel
    # reads (opt.tolerance, stat.meaninertia, ctx.*) is indexed by the thread's world (modulo the batch size)
    gs.append((f"own_world:{k}", schemas.kernel_group(k, ("MODULO", "ISOLATION"))))
  gs.append(("init", g_init))
  gs.append(("host_loop", g_host_loop))
  kernels = sorted({s.kernel for s in launchsites.bound_sites("solver:_solver_iteration") if s.kernel})
  for k in kernels:
    gs.append((f"done_guard:{k}", g_done_guard(k)))
  return gs
