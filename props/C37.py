"""C37 Pipeline stages compose consistently.

Host-level analysis of the real orchestration code: forward(), step(), step1(), step2() are
walked in source order (calls inlined, parameters substituted, conditions kept as atoms), every
launch is bound to the kernel's access summary (read / plain write / accumulate per formal,
from the symbolic execution of the real kernel).
 (F) FRAME      forward() writes no field of the integration state.
 (A) ACC_INIT   every array that a kernel of forward() accumulates into (`+=`, atomic_*) is
                (re)initialised earlier in the same forward() under a condition implied by the
                accumulation's condition -- otherwise a second forward() adds to the first one's
                result (idempotence clause).
 (S) SPLIT      step1();step2() launches the same kernels with the same bindings as step() for
                the Euler / implicit integrators (sleep disabled), and every pair of launches
                that share an array (one writing it) runs in the same relative order.
"""
import multiprocessing as mp

from wpv import census, extract, hostflow
from wpv.runner import Result

INPROCESS = True

INFO = {
  "trusted": [
    "host conditions are compared as uninterpreted atoms by their source text after parameter substitution",
    "a plain (non-accumulating) store or a fill/zero_ counts as initialisation of the array it targets (cell coverage of initialising kernels is not proved here)",
    "user callbacks (m.callback.*) are outside the claim",
  ],
  "undecided": [
    "bit-identity of floating-point results; tree_asleep evolution under SLEEP (forward may wake trees: not integration state)",
    "RK4 (step uses rungekutta4, the split API does not claim it)",
  ],
}

INTEGRATION = ["time", "qpos", "qvel", "act", "history", "qacc_warmstart", "ctrl", "qfrc_applied", "xfrc_applied", "eq_active", "mocap_pos", "mocap_quat", "userdata"]
SLEEP_ATOM = "bool(m.opt.enableflags & EnableBit.SLEEP) and (not bool(m.opt.disableflags & DisableBit.ISLAND))"

_SUM = {}


def summaries(keys):
  need = sorted({k for k in keys if k and k not in _SUM})
  if need:
    with mp.get_context("fork").Pool(16) as pool:
      for s in pool.imap_unordered(census.kernel_summary, need, chunksize=2):
        _SUM[s["key"]] = s
  return _SUM


def _live(e, facts):
  """drop events whose condition stack is statically false / contradicts the given facts"""
  for text, pol in e.conds:
    t = text.strip()
    if t in ("True", "False"):
      if (t == "True") != pol:
        return False
    if t in facts and facts[t] != pol:
      return False
  return True


def _atoms(e):
  return {(t, p) for t, p in e.conds if t.strip() not in ("True", "False")}


def g_frame(tier):
  ev = hostflow.flow("forward:forward")
  S = summaries([e.kernel for e in ev if e.kind == "launch"])
  writers = {f: [] for f in INTEGRATION}
  unresolved = []
  for e in ev:
    if e.kind == "launch":
      if e.kernel is None:
        unresolved.append((e.host, e.lineno, e.text))
        continue
      sm = S[e.kernel]["formals"]
      for f, a in e.binding.items():
        if a.startswith("d.") and a[2:] in writers and sm.get(f, {}).get("w"):
          writers[a[2:]].append(f"{e.kernel} via {' > '.join(x.split(':')[1] for x in e.chain[1:] + (e.host,))}")
    elif e.kind in ("fill", "copy") and e.target.startswith("d.") and e.target[2:] in writers:
      writers[e.target[2:]].append(f"{e.kind} in {e.host}")
  out = []
  for f, ws in writers.items():
    ws = sorted(set(ws))
    out.append(Result(oid=f"forward#frame.{f}", status="discharged" if not ws else "violated", kind="FRAME", func="forward:forward", backend="host-flow analysis", meta={"function": "forward:forward", "goal": f"forward() does not write Data.{f}", "writers": ws[:8]}))
  out.append(Result(oid="forward#launches_resolved", status="discharged" if not unresolved else "undecided", reason=str(unresolved[:3]), kind="FRAME", func="forward:forward", backend="host-flow analysis", meta={"function": "forward:forward", "goal": "every launch reachable from forward() is resolved to a kernel", "launches": sum(1 for e in ev if e.kind == "launch")}))
  return out


_REV = None


def _reviewed():
  global _REV
  if _REV is None:
    import os

    _REV = {}
    p = os.path.join(os.path.dirname(os.path.dirname(os.path.abspath(__file__))), "contracts", "acc_init_reviewed.txt")
    for line in open(p):
      line = line.strip()
      if line and not line.startswith("#"):
        k, _, why = line.partition("#")
        _REV[k.strip()] = why.strip()
  return _REV


def _covers(need, alts):
  """propositional check over condition atoms: need => (alt_1 or alt_2 or ...)"""
  import ast

  import z3

  names = {}

  def form(n):
    # boolean structure of a host condition; leaves are uninterpreted atoms (by source text)
    if isinstance(n, ast.BoolOp):
      fs = [form(v) for v in n.values]
      return z3.And(*fs) if isinstance(n.op, ast.And) else z3.Or(*fs)
    if isinstance(n, ast.UnaryOp) and isinstance(n.op, ast.Not):
      return z3.Not(form(n.operand))
    if isinstance(n, ast.Constant) and isinstance(n.value, bool):
      return z3.BoolVal(n.value)
    if isinstance(n, ast.Compare) and len(n.ops) == 1 and isinstance(n.ops[0], (ast.Is, ast.IsNot)):
      l, r = ast.unparse(n.left), ast.unparse(n.comparators[0])
      if l == "None" and r == "None":
        return z3.BoolVal(isinstance(n.ops[0], ast.Is))
    t = ast.unparse(n)
    return names.setdefault(t, z3.Bool("atom!%d" % len(names)))

  def lit(a):
    t, p = a
    try:
      v = form(ast.parse(t, mode="eval").body)
    except SyntaxError:
      v = names.setdefault(t, z3.Bool("atom!%d" % len(names)))
    return v if p else z3.Not(v)

  s = z3.Solver()
  s.add(z3.And(*[lit(a) for a in need]) if need else z3.BoolVal(True))
  s.add(z3.Not(z3.Or(*[z3.And(*[lit(a) for a in alt]) if alt else z3.BoolVal(True) for alt in alts])))
  return s.check() == z3.unsat


def g_acc_init(tier):
  ev = hostflow.flow("forward:forward")
  S = summaries([e.kernel for e in ev if e.kind == "launch"])
  out = []
  seen = set()
  n_acc = 0
  for i, e in enumerate(ev):
    if e.kind != "launch" or e.kernel is None:
      continue
    sm = S[e.kernel]["formals"]
    for f, a in e.binding.items():
      if not sm.get(f, {}).get("acc"):
        continue
      if not (a.startswith("d.") or a.startswith("ctx.") or a.startswith("tmp:")):
        continue
      if sm.get(f, {}).get("plain"):
        continue  # the kernel also plain-stores into this array: it initialises what it accumulates
      n_acc += 1
      need = _atoms(e)
      ok = None
      inits = []
      for p in range(i - 1, -1, -1):
        q = ev[p]
        init = False
        if q.kind == "fill" and q.target == a:
          init = True
        elif q.kind == "copy" and q.target == a:
          init = True
        elif q.kind == "alloc" and q.target == a:
          init = True
        elif q.kind == "launch" and q.kernel:
          qs = S[q.kernel]["formals"]
          for qf, qa in q.binding.items():
            # a kernel (re)initialises an accumulator only if all it ever stores there is zero
            # or every thread of its grid overwrites "its" cell (stores indexed by bare thread ids)
            s_ = qs.get(qf, {})
            if qa == a and s_.get("plain") and not s_.get("acc") and (not s_.get("nonzero_store", True) or not s_.get("impure_store", True)):
              init = True
        if init:
          inits.append(q)
          if _atoms(q) <= need:
            ok = q
            break
      if ok is None and inits and _covers(need, [_atoms(q) for q in inits]):
        ok = inits[0]
      if a.startswith("tmp:") and ok is None:
        # temporaries created by wp.zeros in the same call are initialised by construction
        ok = "alloc"
      if ok is None and f"{e.kernel.split(':')[1]}.{f}->{a}" in _reviewed():
        ok = "reviewed seeding kernel (contracts/acc_init_reviewed.txt): " + _reviewed()[f"{e.kernel.split(':')[1]}.{f}->{a}"]
      sig = (e.kernel, f, a, tuple(sorted(need)))
      if sig in seen:
        continue
      seen.add(sig)
      where = f"{e.kernel.split(':')[1]}.{f}->{a}"
      out.append(
        Result(
          oid=f"forward#ACC_INIT.{where}",
          status="discharged" if ok is not None else "violated",
          kind="ACC_INIT",
          func=e.kernel,
          backend="host-flow analysis",
          meta={
            "function": e.kernel,
            "goal": f"{a} is (re)initialised earlier in forward() whenever {e.kernel} accumulates into it",
            "accumulate_conditions": sorted(map(str, need))[:6],
            "initialised_by": (f"{ok.kind} {ok.kernel or ok.target} in {ok.host}" if hasattr(ok, "kind") else ok),
          },
        )
      )
  if n_acc == 0:
    out.append(Result(oid="forward#ACC_INIT.none", status="crash", reason="no accumulating launch found in forward(): analysis is vacuous"))
  return out


def _launch_seq(root, facts):
  ev = [e for e in hostflow.flow(root) if _live(e, facts)]
  return ev


def g_split(integ):
  def gen(tier):
    facts = {SLEEP_ATOM: False}
    if integ == "EULER":
      facts["m.opt.integrator == IntegratorType.EULER"] = True
      facts["m.opt.integrator in (IntegratorType.IMPLICITFAST, IntegratorType.IMPLICIT)"] = False
    else:
      facts["m.opt.integrator == IntegratorType.EULER"] = False
      facts["m.opt.integrator == IntegratorType.RK4"] = False
      facts["m.opt.integrator in (IntegratorType.IMPLICITFAST, IntegratorType.IMPLICIT)"] = True
    def keep(e):
      hosts = list(e.chain) + [e.host]
      # the inertia factorisation / back-substitution path is fused in step() (factorize+solve in
      # one kernel inside fwd_acceleration) and separate in step1()/step2(): outside this claim
      return not any(h.startswith("smooth:") and ("factor" in h or "solve" in h) for h in hosts)

    full_a = _launch_seq("forward:step", facts)
    full_b = _launch_seq("forward:step1", facts) + _launch_seq("forward:step2", facts)
    a = [e for e in full_a if keep(e)]
    b = [e for e in full_b if keep(e)]
    S = summaries([e.kernel for e in full_a + full_b if e.kind == "launch"])

    def key(e):
      if e.kind == "launch":
        return ("launch", e.kernel, tuple(sorted(e.binding.items())), tuple(sorted(e.closure.items())))
      return (e.kind, e.target, e.source)

    def index(seq):
      cnt = {}
      out = []
      for e in seq:
        k = key(e)
        cnt[k] = cnt.get(k, 0) + 1
        out.append((k, cnt[k]))
      return out

    ia, ib = index(a), index(b)
    sa, sb = set(ia), set(ib)
    only_a = [x for x in ia if x not in sb]
    only_b = [x for x in ib if x not in sa]
    tag = f"split[{integ}]"
    out = []

    def show(x):
      k = x[0]
      return f"{k[0]} {k[1]}" + (f" #{x[1]}" if x[1] > 1 else "")

    out.append(Result(oid=f"{tag}#same_events", status="discharged" if not only_a and not only_b else "violated", kind="SPLIT", func="forward:step", backend="host-flow analysis", meta={"function": "forward:step", "goal": "step() and step1();step2() perform the same launches / fills with the same bindings and closure arguments", "only_in_step": [show(x) for x in only_a][:10], "only_in_step1_step2": [show(x) for x in only_b][:10], "events": len(ia)}))
    # dependency order: pairs sharing an array with at least one writer keep their relative order
    pos_b = {x: i for i, x in enumerate(ib)}

    def touched(e):
      r, w = set(), set()
      if e.kind == "launch" and e.kernel:
        sm = S[e.kernel]["formals"]
        for f, act in e.binding.items():
          if sm.get(f, {}).get("w"):
            w.add(act)
          if sm.get(f, {}).get("r"):
            r.add(act)
      elif e.kind in ("fill", "copy", "alloc"):
        w.add(e.target)
        if e.source:
          r.add(e.source)
      return r, w

    ta = [touched(e) for e in a]
    bad = []
    for i in range(len(a)):
      if ia[i] not in pos_b:
        continue
      for j in range(i + 1, len(a)):
        if ia[j] not in pos_b:
          continue
        ri, wi = ta[i]
        rj, wj = ta[j]
        if (wi & (rj | wj)) or (wj & ri):
          if pos_b[ia[i]] > pos_b[ia[j]]:
            bad.append((show(ia[i]), show(ia[j])))
            if len(bad) > 5:
              break
      if len(bad) > 5:
        break
    # the fused / separate factorisation path itself is not compared launch by launch, but what it CONSUMES
    # is: for every Data array such a launch reads (and no launch of the path writes), the launches and fills
    # that wrote it earlier in the step must be the same in both forms (reaching definitions)
    def reaching(full):
      path_w = set()
      for e in full:
        if not keep(e):
          path_w |= touched(e)[1]
      res = {}
      for i, e in enumerate(full):
        if keep(e):
          continue
        for x in touched(e)[0]:
          if not x.startswith("d.") or x in path_w:
            continue
          ws = tuple(key(p)[:2] if p.kind == "launch" else key(p) for p in full[:i] if keep(p) and x in touched(p)[1])
          res.setdefault(x, set()).add(ws)
      return res

    ra, rb = reaching(full_a), reaching(full_b)
    diff = []
    for x in sorted(set(ra) & set(rb)):
      if ra[x] != rb[x]:
        da = sorted({w for ws in ra[x] for w in ws} ^ {w for ws in rb[x] for w in ws}, key=str)
        diff.append(f"{x}: writers seen by the factor/solve path differ: {[str(w[1]) for w in da][:4]}")
    out.append(Result(oid=f"{tag}#factor_path_inputs", status="discharged" if not diff and (set(ra) & set(rb)) else ("violated" if diff else "crash"), reason="no common input of the factor/solve path found", kind="SPLIT", func="forward:step", backend="host-flow analysis (reaching definitions)", meta={"function": "forward:step", "goal": "every Data array consumed by the (fused in step / separate in step1;step2) inertia factor-solve path has been produced by the same launches in both forms", "inputs_compared": sorted(set(ra) & set(rb)), "differences": diff[:5]}))
    out.append(Result(oid=f"{tag}#dependency_order", status="discharged" if not bad else "violated", kind="SPLIT", func="forward:step", backend="host-flow analysis", meta={"function": "forward:step", "goal": "launches that share an array (one of them writing) run in the same relative order in step() and in step1();step2()", "reordered": bad}))
    return out

  return gen


def groups(tier):
  return [("frame", g_frame), ("acc_init", g_acc_init), ("split[EULER]", g_split("EULER")), ("split[IMPLICIT]", g_split("IMPLICIT"))]
