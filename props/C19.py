"""C19 Contact pair filtering -- the kernel side (what is done with a pair-table entry).

The pair table (Model.nxn_pairid[:, 0], built by put_model with vectorised numpy) is read pointwise for one symbolic geom
pair (group pair_table, wpv/npflow.py); the other groups state what the device code does with an entry (pairid[0]: >= 0 explicit pair id, -1 ordinary geom pair that passed the filters, -2
filtered out; pairid[1] >= 0: collision-sensor pair):
 (W) collision_core.write_contact: a pair filtered out (pairid[0] == -2) that no sensor asks for allocates nothing and
     reports no contact; a reported contact carries the CONSTRAINT type bit exactly when pairid[0] >= -1 and the geoms are
     within margin + gap, the SENSOR bit exactly when pairid[1] >= 0.
 (P) collision_core.contact_margin_gap / contact_material_params: an explicit pair (pairid > -1) takes margin, gap,
     condim, solref, solreffriction, solimp, adhesion and friction from the pair's own row (of the world's own batch
     row) -- the geoms' parameters are not used; an ordinary pair takes the sum of the geoms' margins / gaps, the
     condim and friction of the higher-priority geom (maximum on equal priority), and friction is floored at MJ_MINMU.
"""
import z3

from wpv.contracts import Run
from wpv.runner import Result
from wpv.sym import Vec, lift, zb

from .common import canary

INFO = {
  "trusted": ["semantics of the pair-id codes as documented in io.put_model (-2 filtered, -1 geom pair, >= 0 explicit pair)"],
  "undecided": [
    "the pair table: np.triu_indices enumerating the pairs g1 < g2 in the order upper_tri_index addresses (numpy semantics, trusted); the collision-sensor column; flex / height-field special cases",
    "that the broadphase kernels copy the table entry unchanged (kernels with closure-built filter functions are outside the dialect)",
    "solref / solimp mixing weights of ordinary pairs (compared with MuJoCo numerics)",
  ],
}

WC = "collision_core:write_contact"
MG = "collision_core:contact_margin_gap"
MP = "collision_core:contact_material_params"


def _ct(name):
  from wpv.consts import enum_namespace

  return int(getattr(enum_namespace().ContactType, name))


def g_write_contact(tier):
  R = Run(WC)
  ex = R.ex
  obs = [canary(R, "write_contact#canary")]
  allocs = [a for a in ex.st.log if a.kind == "atomic" and a.op == "add" and a.arr is R.params["nacon_out"] and isinstance(a.value, tuple)]
  ok = len(allocs) == 1
  obs.append(Result(oid="write_contact#one_allocation", status="discharged" if ok else "violated", kind="post", func=WC, backend="analysis", meta={"function": WC, "goal": "one slot allocation site"}))
  if not ok:
    return obs
  alloc = zb(allocs[0].guard)
  detected = "dist_in < margin_in + gap_in"
  obs.append(R.obligation("write_contact#filtered_pair_reports_nothing", z3.Implies(R.term("pairid_in[0] == -2 and pairid_in[1] == -1"), z3.Not(alloc)), meta={"goal": "a filtered-out pair that no sensor asks for allocates no contact slot"}))
  obs.append(R.obligation("write_contact#undetected_reports_nothing", z3.Implies(R.term(f"not ({detected}) and pairid_in[1] == -1"), z3.Not(alloc)), meta={"goal": "geoms farther apart than margin + gap report nothing (unless a sensor asks)"}))
  obs.append(R.obligation("write_contact#reported_when_kept_and_detected", z3.Implies(R.term(f"pairid_in[0] >= -1 and {detected}"), alloc), meta={"goal": "a pair that passed the filters (or is explicit) and is within margin + gap is reported"}))
  tw = [a for a in ex.st.log if a.kind == "w" and a.arr is R.params["contact_type_out"]]
  if len(tw) != 1:
    obs.append(Result(oid="write_contact#type_store", status="violated", kind="post", func=WC, backend="analysis", meta={"function": WC, "goal": "one store of contact.type"}))
    return obs
  ty = lift(tw[0].value)
  C, S = _ct("CONSTRAINT"), _ct("SENSOR")
  g = zb(tw[0].guard)
  cons = z3.Or(ty == C, ty == C + S) if (C & S) == 0 else z3.BoolVal(False)
  sens = z3.Or(ty == S, ty == C + S)
  obs.append(R.obligation("write_contact#constraint_bit", z3.Implies(g, cons == R.term(f"pairid_in[0] >= -1 and {detected}")), meta={"goal": "type has the CONSTRAINT bit exactly when the pair is explicit or passed the filters, and is within margin + gap"}))
  obs.append(R.obligation("write_contact#sensor_bit", z3.Implies(g, sens == R.term("pairid_in[1] >= 0")), meta={"goal": "type has the SENSOR bit exactly when a collision sensor asks for the pair"}))
  obs.append(R.obligation("write_contact#type_is_bits", z3.Implies(g, z3.Or(ty == 0, ty == C, ty == S, ty == C + S)), meta={"goal": "type is a combination of the two bits"}))
  return obs


def g_margin_gap(tier):
  R = Run(MG)
  obs = [canary(R, "contact_margin_gap#canary")]
  w = "worldid"
  obs.append(R.obligation("contact_margin_gap#explicit_pair", f"implies(pairid > -1, result[0] == pair_margin[{w} % pair_margin.shape[0], pairid] and result[1] == pair_gap[{w} % pair_gap.shape[0], pairid])", meta={"goal": "an explicit pair uses the pair's margin and gap (own batch row)"}))
  obs.append(R.obligation("contact_margin_gap#geom_pair", f"implies(pairid <= -1, result[0] == geom_margin[{w} % geom_margin.shape[0], geoms[0]] + geom_margin[{w} % geom_margin.shape[0], geoms[1]] and result[1] == geom_gap[{w} % geom_gap.shape[0], geoms[0]] + geom_gap[{w} % geom_gap.shape[0], geoms[1]])", meta={"goal": "an ordinary pair uses the sum of the geoms' margins and gaps"}))
  return obs


def g_material(tier):
  R = Run(MP)
  obs = [canary(R, "contact_material_params#canary")]
  MINMU = __import__("wpv.consts", fromlist=["x"]).CONSTS["consts"]["MJ_MINMU"]
  w = "worldid"
  row = lambda a: f"{a}[{w} % {a}.shape[0], pairid]"
  ex = "pairid > -1"
  o = lambda n, t, g: obs.append(R.obligation(f"contact_material_params#{n}", t, meta={"goal": g}))
  o("explicit.condim", f"implies({ex}, result[0] == pair_dim[pairid])", "explicit pair: condim of the pair")
  for k in range(5):
    o(f"explicit.friction{k}", f"implies({ex}, result[1][{k}] == max({MINMU}, {row('pair_friction')}[{k}]))", "explicit pair: the pair's friction, floored at MJ_MINMU")
  for k in range(2):
    o(f"explicit.solref{k}", f"implies({ex}, result[2][{k}] == {row('pair_solref')}[{k}] and result[3][{k}] == {row('pair_solreffriction')}[{k}])", "explicit pair: the pair's solref / solreffriction")
  for k in range(5):
    o(f"explicit.solimp{k}", f"implies({ex}, result[4][{k}] == {row('pair_solimp')}[{k}])", "explicit pair: the pair's solimp")
  o("explicit.adhesion", f"implies({ex}, result[5] == {row('pair_adhesion')})", "explicit pair: the pair's adhesion")
  # ordinary pair: priority rule for condim and friction
  g1, g2 = "geoms[0]", "geoms[1]"
  fr = lambda g, c: f"geom_friction[{w} % geom_friction.shape[0], {g}][{c}]"
  nex = "pairid <= -1"
  o("geom.condim", f"implies({nex}, result[0] == ite(geom_priority[{g1}] > geom_priority[{g2}], geom_condim[{g1}], ite(geom_priority[{g2}] > geom_priority[{g1}], geom_condim[{g2}], max(geom_condim[{g1}], geom_condim[{g2}]))))", "ordinary pair: condim of the higher-priority geom, maximum on equal priority")
  comp = {0: 0, 1: 0, 2: 1, 3: 2, 4: 2}
  for k, c in comp.items():
    mixed = f"ite(geom_priority[{g1}] > geom_priority[{g2}], {fr(g1, c)}, ite(geom_priority[{g2}] > geom_priority[{g1}], {fr(g2, c)}, max({fr(g1, c)}, {fr(g2, c)})))"
    o(f"geom.friction{k}", f"implies({nex}, result[1][{k}] == max({MINMU}, {mixed}))", "ordinary pair: friction of the higher-priority geom (maximum on equal priority), sliding/torsional/rolling expanded to five entries, floored at MJ_MINMU")
  o("geom.solreffriction", f"implies({nex}, result[3][0] == 0.0 and result[3][1] == 0.0)", "ordinary pair: no separate friction solref")
  return obs


def g_filter_bypass(tier):
  """(F) an explicit pair is never rejected by the bounding-volume filters (they only know the geoms' margins, the pair
  has its own): at every place where collision_driver applies _broadphase_filter to a candidate pair, the acceptance
  condition is a disjunction that also accepts `pairid[0] >= 0` (repaired defect D9). Source obligation on the real
  kernels (their filter is a closure-built function, outside the symbolic dialect)."""
  import ast

  from wpv import extract

  mi = extract.load_module("collision_driver")
  sites = []
  for n in ast.walk(mi.tree):
    if isinstance(n, ast.If) and "_broadphase_filter(" in ast.unparse(n.test):
      sites.append(n)
  out = []
  for n in sites:
    t = n.test
    disj = [ast.unparse(v).replace(" ", "") for v in (t.values if isinstance(t, ast.BoolOp) and isinstance(t.op, ast.Or) else [t])]
    explicit = any(d.endswith("[0]>=0") and "pairid" in d for d in disj)
    sensor = any(d.endswith("[1]>=0") and "pairid" in d for d in disj)
    out.append(Result(oid=f"broadphase_filter@{n.lineno}#explicit_pairs_bypass", status="discharged" if explicit else "violated", kind="host", func="collision_driver:_broadphase_filter", backend="source analysis", meta={"function": "collision_driver:_broadphase_filter", "goal": "a candidate pair is kept if the bounding-volume filter accepts it OR it is an explicit pair (pairid[0] >= 0) OR a sensor pair", "condition": disj[-3:], "sensor_bypass": sensor}))
  out.append(Result(oid="broadphase_filter#sites_found", status="discharged" if len(sites) >= 2 else "crash", reason="filter application sites not found", kind="host", func="collision_driver:_broadphase_filter", backend="source analysis", meta={"function": "collision_driver:_broadphase_filter", "goal": "the places where the broadphase filter decides about a pair were found", "sites": len(sites)}))
  return out


def g_pair_table(tier):
  """(T) the filter table itself: the numpy slice of io.put_model that computes Model.nxn_pairid[:, 0], read pointwise
  for one symbolic geom pair g1 < g2 (wpv/npflow.py), against the rule of the statement."""
  import ast

  from wpv.consts import enum_namespace
  from wpv.contracts import Obligation
  from wpv.npflow import Pointwise

  key = "io:put_model"
  P = Pointwise(key, enums={"types.DisableBit.FILTERPARENT": int(enum_namespace().DisableBit.FILTERPARENT)})
  P.run_slice("filterparent", "nxn_pairid_contact")
  T = P.i(P.env["nxn_pairid_contact"])
  g1, g2 = P.g1, P.g2
  f = P.uf
  I2 = lambda x: z3.Int2BV(x, 32)
  b1, b2 = f("geom_bodyid")(g1), f("geom_bodyid")(g2)
  w1, w2 = f("body_weldid")(b1), f("body_weldid")(b2)
  wp_ = lambda w: f("body_weldid")(f("body_parentid")(w))
  fp = (I2(z3.Int("mjm.opt.disableflags")) & z3.BitVecVal(P.enums["types.DisableBit.FILTERPARENT"], 32)) == z3.BitVecVal(0, 32)
  compatible = ((I2(f("geom_contype")(g1)) & I2(f("geom_conaffinity")(g2))) | (I2(f("geom_contype")(g2)) & I2(f("geom_conaffinity")(g1)))) != z3.BitVecVal(0, 32)
  parent_child = z3.And(fp, w1 != 0, w2 != 0, z3.Or(w1 == wp_(w2), w2 == wp_(w1)))
  if "in_exclude_signature" not in P.ufs:
    raise KeyError("exclude test (np.isin(..., mjm.exclude_signature)) not found in the slice")
  excluded = P.ufs["in_exclude_signature"](b1 * 65536 + b2)
  keep = z3.And(compatible, w1 != w2, z3.Not(parent_child), z3.Not(excluded))
  def search(model, ob):
    from wpv import replay as rp

    cmd = ["VENV_PYTHON", "scenarios/c19_pair_table_search.py"]
    rc, out = rp.run_native(cmd)
    return {"native_cmd": cmd, "exit": rc, "reproduced": rc == 1, "meaning": "exit 1: the real put_model builds a table entry that contradicts the rule on one of the enumerated small models; 0: none found", "output": out[-2000:]}

  meta = lambda g: {"function": key, "source_hash": P.info.source_hash, "goal": g, "statements": P.executed, "replay": search}
  obs = [Obligation("put_model#pair_table.canary", list(P.facts), z3.BoolVal(False), func=key, kind="canary", expect="refutable", meta={"function": key})]
  obs.append(Obligation("put_model#pair_table.kept_iff_rule", list(P.facts), (T == -1) == keep, func=key, kind="post", meta=meta("an ordinary pair is kept (-1) exactly if the geoms pass the contype/conaffinity test, belong to different weld bodies, are not weld-parent and weld-child (unless parent filtering is disabled) and are not excluded")))
  obs.append(Obligation("put_model#pair_table.filtered_otherwise", list(P.facts), z3.Or(T == -1, T == -2), func=key, kind="post", meta=meta("every other pair is marked filtered (-2)")))
  # after the slice: entries change only through the explicit-pair loop, which stores the pair's own id
  stores = []
  for st in P.rest:
    for n in ast.walk(st):
      if isinstance(n, (ast.Assign, ast.AugAssign)):
        for t in n.targets if isinstance(n, ast.Assign) else [n.target]:
          if isinstance(t, ast.Subscript) and isinstance(t.value, ast.Name) and t.value.id == "nxn_pairid_contact":
            stores.append((st, n))
      if isinstance(n, ast.Assign) and any(isinstance(t, ast.Name) and t.id == "nxn_pairid_contact" for t in n.targets):
        stores.append((st, n))
  ok = len(stores) == 1 and isinstance(stores[0][0], ast.For) and ast.unparse(stores[0][0].iter) == "range(mjm.npair)" and ast.unparse(stores[0][1].value) == ast.unparse(stores[0][0].target) and ast.unparse(stores[0][1].targets[0].slice).replace(" ", "") == f"upper_tri_index(mjm.ngeom,mjm.pair_geom1[{ast.unparse(stores[0][0].target)}],mjm.pair_geom2[{ast.unparse(stores[0][0].target)}])"
  obs.append(Result(oid="put_model#pair_table.only_explicit_pairs_overwrite", status="discharged" if ok else "violated", kind="host", func=key, backend="host analysis", meta={"function": key, "goal": "after the filter rule the column is changed only by the loop over the explicit pairs, which stores pair i at the table position of (pair_geom1[i], pair_geom2[i])", "stores": [ast.unparse(n)[:120] for _, n in stores]}))
  hs = [n for n in ast.walk(P.info.node) if isinstance(n, ast.Call) and ast.unparse(n.func) == "np.hstack" and "nxn_pairid_contact" in ast.unparse(n)]
  ok2 = len(hs) == 1 and ast.unparse(hs[0].args[0]).replace(" ", "").startswith("[nxn_pairid_contact.reshape((-1,1)),")
  obs.append(Result(oid="put_model#pair_table.column_zero_of_nxn_pairid", status="discharged" if ok2 else "violated", kind="host", func=key, backend="host analysis", meta={"function": key, "goal": "that column is column 0 of Model.nxn_pairid"}))
  return obs


def groups(tier):
  return [("pair_table", g_pair_table), ("write_contact", g_write_contact), ("margin_gap", g_margin_gap), ("material", g_material), ("filter_bypass", g_filter_bypass)]
