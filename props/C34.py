"""C34 Ray casting -- eligibility and the closed-form sphere / plane intersections.

 (E) ray._ray_eliminate implements the statement's eligibility predicate: a geom is skipped exactly if its body is the
     excluded body, it is invisible (its own alpha 0 without a material, or its material's alpha 0), it is static while
     static geoms are not wanted, or a group mask is given and the geom's (clamped) group is switched off.
 (Q) ray._ray_quad (a > 0): -1 when there is no real root or both roots are negative; otherwise the returned x is a
     root of a*x^2 + 2*b*x + c, non-negative, and no smaller non-negative root exists.
 (S) ray.ray_sphere, run against the contract of _ray_quad: a returned x >= 0 puts the point pnt + x*vec on the sphere,
     no smaller non-negative x does, and the normal is the unit outward normal there.
 (P) ray.ray_plane: a returned x >= 0 puts the point on the plane (local z == 0) within the rendered rectangle, the ray
     comes from the front side, and the normal is the plane's z axis.
"""
import z3

from wpv.contracts import FuncContract, Run
from wpv.runner import Result
from wpv.sym import lift, zb

from .common import canary

INFO = {
  "trusted": ["exact over the reals (T2); the ray direction is non-zero (a = |vec|^2 > 0)"],
  "undecided": [
    "agreement with mujoco.mj_ray (numeric oracle); capsule, ellipsoid, cylinder, box, mesh, height-field and flex intersections; the nearest-hit reduction of _ray (tile reduction) and the BVH-accelerated path (wp.bvh_* intrinsics)",
    "the MJ_MINVAL slivers of _ray_quad (discriminant below 1e-15) and of ray_plane (rays almost parallel to the plane)",
  ],
}

QUAD = "ray:_ray_quad"
POLY = "a*result[0]*result[0] + 2.0*b*result[0] + c"


def quad_contract():
  MINVAL = __import__("wpv.consts", fromlist=["x"]).CONSTS["consts"]["MJ_MINVAL"]
  return FuncContract(
    QUAD,
    requires=["a > 0.0"],
    ensures=[
      "result[0] == -1.0 or result[0] >= 0.0",
      f"implies(result[0] >= 0.0, {POLY} == 0.0)",
      f"implies(b*b - a*c < {MINVAL}, result[0] == -1.0)",
    ],
  )


def g_eliminate(tier):
  key = "ray:_ray_eliminate"
  R = Run(key)
  obs = [canary(R, "_ray_eliminate#canary")]
  b = "geom_bodyid[geomid]"
  invisible = "((geom_matid[geomid] < 0 and geom_rgba[geomid][3] == 0.0) or (geom_matid[geomid] >= 0 and mat_rgba[geom_matid[geomid]][3] == 0.0))"
  static = f"(not flg_static and body_weldid[{b}] == 0)"
  nomask = " and ".join(f"geomgroup[{i}] == -1" for i in range(6))
  grp = "min(5, max(0, geom_group[geomid]))"
  off = " or ".join(f"({grp} == {i} and geomgroup[{i}] == 0)" for i in range(6))
  spec = f"({b} == bodyexclude) or {invisible} or {static} or (not ({nomask}) and ({off}))"
  obs.append(R.obligation("_ray_eliminate#eligibility", f"result == ({spec})", meta={"goal": "skipped exactly if: excluded body, invisible, static and static geoms not wanted, or group mask given and the geom's clamped group switched off"}))
  return obs


def g_quad(tier):
  C = quad_contract()
  obs = C.verify(prefix="_ray_quad", timeout_ms=30000)
  R = Run(QUAD, pre=["a > 0.0"])
  y = R.var("y", "float")
  obs.append(R.obligation("_ray_quad#smallest_nonnegative_root", f"implies(result[0] >= 0.0 and y >= 0.0 and a*y*y + 2.0*b*y + c == 0.0, y >= result[0])", meta={"goal": "no non-negative root is smaller than the returned one", "timeout_ms": 30000}))
  MINVAL = __import__("wpv.consts", fromlist=["x"]).CONSTS["consts"]["MJ_MINVAL"]
  obs.append(R.obligation("_ray_quad#minus_one_means_no_nonnegative_root", f"implies(result[0] == -1.0 and b*b - a*c >= {MINVAL} and y >= 0.0, a*y*y + 2.0*b*y + c != 0.0)", meta={"goal": "-1 (with a real discriminant) means both roots are negative", "timeout_ms": 30000}))
  return obs


def g_sphere(tier):
  key = "ray:ray_sphere"
  C = quad_contract()
  R = Run(key, contracts={QUAD: C}, pre=["vec[0]*vec[0] + vec[1]*vec[1] + vec[2]*vec[2] > 0.0", "dist_sqr > 0.0"])
  obs = [canary(R, "ray_sphere#canary", hints=[["pos[0] == 0.0", "pos[1] == 0.0", "pos[2] == 0.0", "pnt[0] == -2.0", "pnt[1] == 0.0", "pnt[2] == 0.0", "vec[0] == 1.0", "vec[1] == 0.0", "vec[2] == 0.0", "dist_sqr == 1.0"]])]
  obs += R.side_obligations("ray_sphere#")
  hit = ["(pnt[%d] + vec[%d]*result[0] - pos[%d])" % (i, i, i) for i in range(3)]
  on = " + ".join(f"{h}*{h}" for h in hit)
  obs.append(R.obligation("ray_sphere#hit_on_sphere", f"implies(result[0] >= 0.0, ({on}) == dist_sqr)", meta={"goal": "the returned point lies on the sphere", "timeout_ms": 30000}))
  obs.append(R.obligation("ray_sphere#normal_unit_outward", f"implies(result[0] >= 0.0, result[1][0]*result[1][0] + result[1][1]*result[1][1] + result[1][2]*result[1][2] == 1.0 and result[1][0]*{hit[1]} == result[1][1]*{hit[0]} and result[1][0]*{hit[2]} == result[1][2]*{hit[0]} and result[1][0]*{hit[0]} + result[1][1]*{hit[1]} + result[1][2]*{hit[2]} > 0.0)", meta={"goal": "the normal is the unit vector from the centre to the hit point", "timeout_ms": 60000}))
  obs.append(Result(oid="ray_sphere#uses_ray_quad", status="discharged" if C.uses == 1 else "violated", kind="contract", func=key, backend="analysis", meta={"function": key, "goal": "the distance is the root returned by _ray_quad for a = |vec|^2, b = vec.(pnt-pos), c = |pnt-pos|^2 - r^2"}))
  return obs


def g_plane(tier):
  key = "ray:ray_plane"
  MINVAL = __import__("wpv.consts", fromlist=["x"]).CONSTS["consts"]["MJ_MINVAL"]
  R = Run(key)
  obs = [canary(R, "ray_plane#canary")]
  # local coordinates of the hit point: mat^T (pnt + x*vec - pos)
  h = [f"(pnt[{i}] + vec[{i}]*result[0] - pos[{i}])" for i in range(3)]
  loc = lambda k: "(" + " + ".join(f"mat[{i}, {k}]*{h[i]}" for i in range(3)) + ")"
  lvz = "(" + " + ".join(f"mat[{i}, 2]*vec[{i}]" for i in range(3)) + ")"
  obs.append(R.obligation("ray_plane#hit_on_plane", f"implies(result[0] >= 0.0, {loc(2)} == 0.0)", meta={"goal": "the returned point lies on the plane", "timeout_ms": 30000}))
  obs.append(R.obligation("ray_plane#front_side_only", f"implies(result[0] >= 0.0, {lvz} <= -{MINVAL})", meta={"goal": "only rays heading towards the front face hit"}))
  obs.append(R.obligation("ray_plane#within_rectangle", f"implies(result[0] >= 0.0, (size[0] <= 0.0 or abs({loc(0)}) <= size[0]) and (size[1] <= 0.0 or abs({loc(1)}) <= size[1]))", meta={"goal": "the hit lies within the rendered rectangle (unbounded when the size is 0)", "timeout_ms": 30000}))
  obs.append(R.obligation("ray_plane#normal_is_plane_z", "implies(result[0] >= 0.0, result[1][0] == mat[0, 2] and result[1][1] == mat[1, 2] and result[1][2] == mat[2, 2])", meta={"goal": "the normal is the plane's z axis"}))
  obs.append(R.obligation("ray_plane#miss_is_minus_one", "result[0] == -1.0 or result[0] >= 0.0", meta={"goal": "a miss is reported as -1"}))
  return obs


def groups(tier):
  return [("eliminate", g_eliminate), ("quad", g_quad), ("sphere", g_sphere), ("plane", g_plane)]
