"""C34 Ray casting -- eligibility and the closed-form sphere / plane intersections.

 (E) ray._ray_eliminate implements the statement's eligibility predicate: a geom is skipped exactly if its body is the
     excluded body, it is invisible (its own alpha 0 without a material, or its material's alpha 0), it is static while
     static geoms are not wanted, or a group mask is given and the geom's (clamped) group is switched off.
 (Q) ray._ray_quad (a > 0): -1 when there is no real root or both roots are negative; otherwise the returned x is a
     root of a*x^2 + 2*b*x + c, non-negative, and no smaller non-negative root exists.
 (S) ray.ray_sphere, run against the contract of _ray_quad: a returned x >= 0 puts the point pnt + x*vec on the sphere,
     no smaller non-negative x does, and the normal is the unit outward normal there.
 (P) ray.ray_plane: a returned x >= 0 puts the point on the plane (local z == 0) within the rendered rectangle, the ray
     comes from the front side, and the normal is the plane's z axis.
"""
import z3

from wpv.contracts import FuncContract, Run
from wpv.runner import Result
from wpv.sym import lift, zb

from .common import canary

INFO = {
  "trusted": ["exact over the reals (T2); the ray direction is non-zero (a = |vec|^2 > 0)"],
  "undecided": [
    "agreement with mujoco.mj_ray (numeric oracle); nearest-hit on the capsule's cylinder side; cylinder, box, mesh, height-field and flex intersections; normals of capsule and ellipsoid; the nearest-hit reduction of _ray (tile reduction) and the BVH-accelerated path (wp.bvh_* intrinsics)",
    "the MJ_MINVAL slivers of _ray_quad (discriminant below 1e-15) and of ray_plane (rays almost parallel to the plane)",
  ],
}

QUAD = "ray:_ray_quad"
POLY = "a*result[0]*result[0] + 2.0*b*result[0] + c"


def quad_contract():
  MINVAL = __import__("wpv.consts", fromlist=["x"]).CONSTS["consts"]["MJ_MINVAL"]
  return FuncContract(
    QUAD,
    requires=["a > 0.0"],
    ensures=[
      "result[0] == -1.0 or result[0] >= 0.0",
      f"implies(result[0] >= 0.0, {POLY} == 0.0)",
      f"implies(b*b - a*c < {MINVAL}, result[0] == -1.0)",
    ],
  )


X0, X1 = "result[1][0]", "result[1][1]"


def quad2_contract():
  """_ray_quad with BOTH roots described (what ray_capsule's end caps consume); a may be 0 (ray parallel to the axis)"""
  MINVAL = __import__("wpv.consts", fromlist=["x"]).CONSTS["consts"]["MJ_MINVAL"]
  real = f"(a > 0.0 and b*b - a*c >= {MINVAL})"
  return FuncContract(
    QUAD,
    requires=["a >= 0.0"],
    ensures=[
      "result[0] == -1.0 or result[0] >= 0.0",
      f"implies(b*b - a*c < {MINVAL}, result[0] == -1.0 and {X0} == -1.0 and {X1} == -1.0)",
      f"implies({real}, {X0} < {X1})",
      f"implies({real}, a*({X0} + {X1}) == -2.0*b)",
      f"implies({real}, a*{X0}*{X1} == c)",
      f"implies({real}, a*{X0}*{X0} + 2.0*b*{X0} + c == 0.0 and a*{X1}*{X1} + 2.0*b*{X1} + c == 0.0)",
      f"implies(a > 0.0 and result[0] >= 0.0, {POLY} == 0.0)",
      f"implies({real}, result[0] == wp.where({X0} >= 0.0, {X0}, wp.where({X1} >= 0.0, {X1}, -1.0)))",
    ],
  )


def g_eliminate(tier):
  key = "ray:_ray_eliminate"
  R = Run(key)
  obs = [canary(R, "_ray_eliminate#canary")]
  b = "geom_bodyid[geomid]"
  invisible = "((geom_matid[geomid] < 0 and geom_rgba[geomid][3] == 0.0) or (geom_matid[geomid] >= 0 and mat_rgba[geom_matid[geomid]][3] == 0.0))"
  static = f"(not flg_static and body_weldid[{b}] == 0)"
  nomask = " and ".join(f"geomgroup[{i}] == -1" for i in range(6))
  grp = "min(5, max(0, geom_group[geomid]))"
  off = " or ".join(f"({grp} == {i} and geomgroup[{i}] == 0)" for i in range(6))
  spec = f"({b} == bodyexclude) or {invisible} or {static} or (not ({nomask}) and ({off}))"
  obs.append(R.obligation("_ray_eliminate#eligibility", f"result == ({spec})", meta={"goal": "skipped exactly if: excluded body, invisible, static and static geoms not wanted, or group mask given and the geom's clamped group switched off"}))
  return obs


def g_quad(tier):
  C = quad_contract()
  obs = C.verify(prefix="_ray_quad", timeout_ms=30000)
  R = Run(QUAD, pre=["a > 0.0"])
  y = R.var("y", "float")
  obs.append(R.obligation("_ray_quad#smallest_nonnegative_root", f"implies(result[0] >= 0.0 and y >= 0.0 and a*y*y + 2.0*b*y + c == 0.0, y >= result[0])", meta={"goal": "no non-negative root is smaller than the returned one", "timeout_ms": 30000}))
  MINVAL = __import__("wpv.consts", fromlist=["x"]).CONSTS["consts"]["MJ_MINVAL"]
  obs.append(R.obligation("_ray_quad#minus_one_means_no_nonnegative_root", f"implies(result[0] == -1.0 and b*b - a*c >= {MINVAL} and y >= 0.0, a*y*y + 2.0*b*y + c != 0.0)", meta={"goal": "-1 (with a real discriminant) means both roots are negative", "timeout_ms": 30000}))
  return obs


def g_sphere(tier):
  key = "ray:ray_sphere"
  C = quad_contract()
  R = Run(key, contracts={QUAD: C}, pre=["vec[0]*vec[0] + vec[1]*vec[1] + vec[2]*vec[2] > 0.0", "dist_sqr > 0.0"])
  obs = [canary(R, "ray_sphere#canary", hints=[["pos[0] == 0.0", "pos[1] == 0.0", "pos[2] == 0.0", "pnt[0] == -2.0", "pnt[1] == 0.0", "pnt[2] == 0.0", "vec[0] == 1.0", "vec[1] == 0.0", "vec[2] == 0.0", "dist_sqr == 1.0"]])]
  obs += R.side_obligations("ray_sphere#")
  hit = ["(pnt[%d] + vec[%d]*result[0] - pos[%d])" % (i, i, i) for i in range(3)]
  on = " + ".join(f"{h}*{h}" for h in hit)
  obs.append(R.obligation("ray_sphere#hit_on_sphere", f"implies(result[0] >= 0.0, ({on}) == dist_sqr)", meta={"goal": "the returned point lies on the sphere", "timeout_ms": 30000}))
  obs.append(R.obligation("ray_sphere#normal_unit_outward", f"implies(result[0] >= 0.0, result[1][0]*result[1][0] + result[1][1]*result[1][1] + result[1][2]*result[1][2] == 1.0 and result[1][0]*{hit[1]} == result[1][1]*{hit[0]} and result[1][0]*{hit[2]} == result[1][2]*{hit[0]} and result[1][0]*{hit[0]} + result[1][1]*{hit[1]} + result[1][2]*{hit[2]} > 0.0)", meta={"goal": "the normal is the unit vector from the centre to the hit point", "timeout_ms": 60000}))
  obs.append(Result(oid="ray_sphere#uses_ray_quad", status="discharged" if C.uses == 1 else "violated", kind="contract", func=key, backend="analysis", meta={"function": key, "goal": "the distance is the root returned by _ray_quad for a = |vec|^2, b = vec.(pnt-pos), c = |pnt-pos|^2 - r^2"}))
  return obs


def g_plane(tier):
  key = "ray:ray_plane"
  MINVAL = __import__("wpv.consts", fromlist=["x"]).CONSTS["consts"]["MJ_MINVAL"]
  R = Run(key)
  obs = [canary(R, "ray_plane#canary")]
  # local coordinates of the hit point: mat^T (pnt + x*vec - pos)
  h = [f"(pnt[{i}] + vec[{i}]*result[0] - pos[{i}])" for i in range(3)]
  loc = lambda k: "(" + " + ".join(f"mat[{i}, {k}]*{h[i]}" for i in range(3)) + ")"
  lvz = "(" + " + ".join(f"mat[{i}, 2]*vec[{i}]" for i in range(3)) + ")"
  obs.append(R.obligation("ray_plane#hit_on_plane", f"implies(result[0] >= 0.0, {loc(2)} == 0.0)", meta={"goal": "the returned point lies on the plane", "timeout_ms": 30000}))
  obs.append(R.obligation("ray_plane#front_side_only", f"implies(result[0] >= 0.0, {lvz} <= -{MINVAL})", meta={"goal": "only rays heading towards the front face hit"}))
  obs.append(R.obligation("ray_plane#within_rectangle", f"implies(result[0] >= 0.0, (size[0] <= 0.0 or abs({loc(0)}) <= size[0]) and (size[1] <= 0.0 or abs({loc(1)}) <= size[1]))", meta={"goal": "the hit lies within the rendered rectangle (unbounded when the size is 0)", "timeout_ms": 30000}))
  obs.append(R.obligation("ray_plane#normal_is_plane_z", "implies(result[0] >= 0.0, result[1][0] == mat[0, 2] and result[1][1] == mat[1, 2] and result[1][2] == mat[2, 2])", meta={"goal": "the normal is the plane's z axis"}))
  obs.append(R.obligation("ray_plane#miss_is_minus_one", "result[0] == -1.0 or result[0] >= 0.0", meta={"goal": "a miss is reported as -1"}))
  return obs


def g_quad2(tier):
  return quad2_contract().verify(prefix="_ray_quad[both roots]", timeout_ms=30000)


def g_map(tier):
  return map_contract().verify(prefix="_ray_map", timeout_ms=30000)


def map_contract():
  d = [f"(pnt[{i}] - pos[{i}])" for i in range(3)]
  ens = []
  for k in range(3):
    ens.append(f"result[0][{k}] == " + " + ".join(f"mat[{i}, {k}]*{d[i]}" for i in range(3)))
    ens.append(f"result[1][{k}] == " + " + ".join(f"mat[{i}, {k}]*vec[{i}]" for i in range(3)))
  return FuncContract("ray:_ray_map", ensures=ens)


def g_capsule(tier):
  """(C) ray.ray_capsule in the geom's local frame, run against the contracts of _ray_map (fresh local ray), ray_sphere
  (bounding test: only the sign convention) and _ray_quad (both roots). P(t) = lp + t*lv; r = size[0], h = size[1].
  The nonlinear argument is cut into steps; every step is an obligation, later steps assume the statements of earlier
  ones: (1) polynomial identities linking each quadratic the code solves to its surface, proved from no hypotheses;
  (2) the abstract fact "a root of a*t^2+2*b*t+c is one of the two numbers with that sum and product"; (3) the
  program-structural facts (which candidates the code looks at), (4) the conclusions."""
  from wpv.contracts import Obligation
  from wpv.sym import tobool

  key = "ray:ray_capsule"
  MINVAL = __import__("wpv.consts", fromlist=["x"]).CONSTS["consts"]["MJ_MINVAL"]
  Q = quad2_contract()
  M = FuncContract("ray:_ray_map", ensures=[])
  S = FuncContract("ray:ray_sphere", ensures=["result[0] == -1.0 or result[0] >= 0.0"])
  R = Run(key, contracts={QUAD: Q, "ray:_ray_map": M, "ray:ray_sphere": S}, pre=["size[0] > 0.0", "size[1] >= 0.0"])
  obs = []
  ok = Q.uses == 3 and M.uses == 1 and S.uses == 1
  obs.append(Result(oid="ray_capsule#structure", status="discharged" if ok else "undecided", kind="contract", func=key, backend="analysis", reason="" if ok else f"calls: _ray_quad {Q.uses}, _ray_map {M.uses}, ray_sphere {S.uses}", meta={"function": key, "goal": "the capsule test maps the ray once, tests the bounding sphere once and solves three quadratics (side, top cap, bottom cap)"}))
  if not ok:
    return obs
  R.qvars["lp"], R.qvars["lv"] = M.results[0]
  R.qvars["bound"] = S.results[0][0]
  for n, tag in enumerate("stb"):  # side, top, bottom
    for k in "abc":
      R.qvars[k + "_" + tag] = Q.call_args[n][k]
    R.qvars["r_" + tag], R.qvars["x_" + tag] = Q.results[n]
  y = R.var("y", "float")
  T = lambda text: zb(tobool(R.term(text)))
  pure = lambda oid, text, goal: Obligation(oid, [], T(text), func=key, kind="lemma", meta={"function": key, "source_hash": R.info.source_hash, "goal": goal + ": " + text[:200], "timeout_ms": 30000})
  pt = lambda t: [f"(lp[{i}] + {t}*lv[{i}])" for i in range(3)]
  a3 = "(lv[0]*lv[0] + lv[1]*lv[1] + lv[2]*lv[2])"
  pre = f"bound >= 0.0 and {a3} > 0.0"
  hints = [["lp[0] == 0.0", "lp[1] == 0.0", "lp[2] == -5.0", "lv[0] == 0.0", "lv[1] == 0.0", "lv[2] == 1.0", "size[0] == 1.0", "size[1] == 1.0", "bound == 1.0"]]
  obs.append(canary(R, "ray_capsule#canary", hints=hints))
  obs += R.side_obligations("ray_capsule#")
  # where a counter-model is looked for first when a proof fails (a model of query + hint is a model of the query):
  # rays along / oblique to the axis, starting inside the cylinder section and outside
  starts = [("0.0", "0.0", "0.0"), ("0.0", "0.0", "5.0"), ("0.5", "0.0", "0.0"), ("0.0", "0.0", "-5.0"), ("3.0", "0.0", "0.0")]
  dirs = [("0.0", "0.0", "1.0"), ("0.0", "0.0", "-1.0"), ("1.0", "0.0", "1.0"), ("-1.0", "0.0", "0.0")]
  search = [[T(f"lp[{i}] == {p[i]}") for i in range(3)] + [T(f"lv[{i}] == {d[i]}") for i in range(3)] + [T("size[0] == 1.0"), T("size[1] == 2.0"), T("bound == 1.0")] for p in starts for d in dirs]

  def native(clause):
    """replay of a counter-model: the real ray_capsule on the local ray itself (pos = 0, mat = identity)"""
    import json
    import os

    from wpv.contracts import _num
    from wpv.sym import lift

    text = clause.replace("lp[", "pnt[").replace("lv[", "vec[").replace("bound >= 0.0 and ", "")

    def run(model, ob):
      if model is None:
        return {"reproduced": None, "note": "no model object"}
      from wpv import replay as rp

      val = lambda t: _num(model, lift(t, "float"))
      params = [["pos", "vec3", [0.0, 0.0, 0.0]], ["mat", "mat33", [1.0, 0, 0, 0, 1.0, 0, 0, 0, 1.0]], ["size", "vec3", [val(c) for c in R.params["size"].comps]], ["pnt", "vec3", [val(c) for c in R.qvars["lp"].comps]], ["vec", "vec3", [val(c) for c in R.qvars["lv"].comps]]]
      here = os.path.dirname(os.path.dirname(os.path.abspath(__file__)))
      os.makedirs(os.path.join(here, "replay"), exist_ok=True)
      safe = "".join(ch if ch.isalnum() or ch in "._-" else "_" for ch in ob.oid)[:100]
      path = os.path.join("replay", f"func_{safe}.input.json")
      with open(os.path.join(here, path), "w") as f:
        json.dump({"module": "ray", "func": "ray_capsule", "params": params, "ret": ["float", "vec3"], "requires": ["size[0] > 0.0", "size[1] >= 0.0"], "clause": text, "extra": {"y": val(y)}}, f, indent=1)
      cmd = ["VENV_PYTHON", "scenarios/replay_func.py", path]
      rc, out = rp.run_native(cmd)
      return {"native_cmd": cmd, "exit": rc, "reproduced": rc == 1, "meaning": "exit 1: the real ray_capsule violates the clause on the ray of the counter-model (local frame = world frame); 0: it does not; 2: not executable", "output": out[-2000:]}

    return run

  obs.append(R.obligation("ray_capsule#miss_is_minus_one", "result[0] == -1.0 or result[0] >= 0.0", meta={"goal": "a miss is reported as -1"}))

  def capq(t, sgn):  # |P(t) - (0,0,+-h)|^2 - r^2
    p = pt(t)
    zc = f"({p[2]} - ({sgn}size[1]))"
    return f"({p[0]}*{p[0]} + {p[1]}*{p[1]} + {zc}*{zc} - size[0]*size[0])"

  sideq = lambda t: f"({pt(t)[0]}*{pt(t)[0]} + {pt(t)[1]}*{pt(t)[1]} - size[0]*size[0])"
  poly = lambda tag, t: f"(a_{tag}*{t}*{t} + 2.0*b_{tag}*{t} + c_{tag})"
  real = lambda tag: f"(a_{tag} > 0.0 and b_{tag}*b_{tag} - a_{tag}*c_{tag} >= {MINVAL})"
  # (1) identities, for a generic parameter y
  ids = {}
  for tag, nm, q in (("s", "side", sideq("y")), ("t", "top", capq("y", "")), ("b", "bottom", capq("y", "-"))):
    ids[tag] = f"{q} == {poly(tag, 'y')}"
    obs.append(pure(f"ray_capsule#identity.{nm}", ids[tag], f"the {nm} quadratic the code solves is the {nm} surface equation along the ray"))
  obs.append(pure("ray_capsule#identity.leading_coefficients", f"a_t == {a3} and a_b == {a3}", "the cap quadratics have leading coefficient |lv|^2"))
  # (2) abstract root lemma, instantiated by substitution
  A, B, C, U, V, Y = z3.Reals("A B C U V Y")
  lem = z3.Implies(z3.And(A > 0, A * (U + V) == -2 * B, A * U * V == C, A * Y * Y + 2 * B * Y + C == 0), z3.Or(Y == U, Y == V))
  obs.append(Obligation("ray_capsule#lemma.root_is_one_of_two", [], lem, func=key, kind="lemma", meta={"function": key, "goal": "a > 0, a(u+v) = -2b, a u v = c, a y^2 + 2 b y + c = 0  ->  y = u or y = v", "timeout_ms": 30000}))
  inst = lambda tag, t: z3.substitute(lem, (A, R.term("a_" + tag)), (B, R.term("b_" + tag)), (C, R.term("c_" + tag)), (U, R.term(f"x_{tag}[0]")), (V, R.term(f"x_{tag}[1]")), (Y, R.term(t)))
  # (3)+(4) the caps: every point of the ray on the outer hemisphere is a hit and bounds the reported distance
  for tag, nm, sgn in (("t", "top", ""), ("b", "bottom", "-")):
    on = f"({capq('y', sgn)} == 0.0 and {sgn}{pt('y')[2]} >= size[1])"
    hyp = f"{pre} and y >= 0.0 and {on} and b_{tag}*b_{tag} - a_{tag}*c_{tag} >= {MINVAL}"
    is_root = f"implies({hyp}, y == x_{tag}[0] or y == x_{tag}[1])"
    obs.append(R.obligation(f"ray_capsule#{nm}_cap.point_is_a_candidate", is_root, extra_assume=[T(ids[tag]), T(f"a_t == {a3} and a_b == {a3}"), inst(tag, "y")], meta={"goal": f"a point of the ray on the {nm} cap sphere is one of the two roots the code examines", "timeout_ms": 60000}))
    nat = f"implies({a3} > 0.0 and y >= 0.0 and {on}, result[0] >= 0.0 and result[0] <= y)"
    obs.append(R.obligation(f"ray_capsule#{nm}_cap.nearest", f"implies({hyp}, result[0] >= 0.0 and result[0] <= y)", extra_assume=[T(is_root)], meta={"goal": f"every point of the ray on the outer {nm} hemisphere (y >= 0) is a hit, and the reported distance is not beyond it", "timeout_ms": 20000, "sat_hints": [h + [y == v] for h in search for v in (1, 3, 7)], "replay": native(nat)}))
  # soundness of a reported hit
  z = lambda t: f"(lp[2] + {t}*lv[2])"
  cands = [f"(result[0] == r_s and r_s >= 0.0 and abs({z('r_s')}) <= size[1])"]
  for tag, sgn in (("t", ""), ("b", "-")):
    for i in range(2):
      cands.append(f"(result[0] == x_{tag}[{i}] and x_{tag}[{i}] >= 0.0 and {sgn}{z(f'x_{tag}[{i}]')} >= size[1] and {real(tag)})")
  s1 = f"implies({pre} and result[0] >= 0.0, " + " or ".join(cands) + ")"
  obs.append(R.obligation("ray_capsule#hit.is_an_accepted_candidate", s1, meta={"goal": "a reported distance is the side root between the caps or a cap root on the outer half", "timeout_ms": 60000}))
  roots = [f"implies(r_s >= 0.0, {poly('s', 'r_s')} == 0.0)"] + [f"implies({real(tag)}, {poly(tag, f'x_{tag}[{i}]')} == 0.0)" for tag in "tb" for i in range(2)]
  for n, rt in enumerate(roots):
    obs.append(R.obligation(f"ray_capsule#hit.candidate_is_a_root.{n}", f"implies({pre}, {rt})", extra_assume=[T("implies(lv[0]*lv[0] + lv[1]*lv[1] == 0.0, lv[0] == 0.0 and lv[1] == 0.0)")], meta={"goal": "each candidate solves its quadratic", "timeout_ms": 60000}))
  obs.append(pure("ray_capsule#lemma.sum_of_squares_zero", "implies(lv[0]*lv[0] + lv[1]*lv[1] == 0.0, lv[0] == 0.0 and lv[1] == 0.0)", "a ray parallel to the axis has no side quadratic"))
  X = "result[0]"
  surf_at = lambda t: (f"({sideq(t)} == 0.0 and abs({z(t)}) <= size[1])", f"({capq(t, '')} == 0.0 and {z(t)} >= size[1])", f"({capq(t, '-')} == 0.0 and -{z(t)} >= size[1])")
  surf = " or ".join(surf_at(X))
  # per candidate: identity at the candidate + "the candidate is a root" -> the candidate's point is on its surface part;
  # these small obligations carry no hypotheses other than the statements of earlier ones
  cs = [("r_s", "s", 0, f"r_s >= 0.0 and abs({z('r_s')}) <= size[1]", sideq("r_s"), roots[0])]
  n = 1
  for tag, sgn, part in (("t", "", 1), ("b", "-", 2)):
    for i in range(2):
      t = f"x_{tag}[{i}]"
      cs.append((t, tag, part, f"{t} >= 0.0 and {sgn}{z(t)} >= size[1] and {real(tag)}", capq(t, sgn), roots[n]))
      n += 1
  stmts = []
  for k, (t, tag, part, cond, q, rt) in enumerate(cs):
    ident = f"{q} == {poly(tag, t)}"
    obs.append(pure(f"ray_capsule#identity.at_candidate.{k}", ident, "the identity at the candidate"))
    st = f"implies({pre} and {cond}, {surf_at(t)[part]})"
    obs.append(Obligation(f"ray_capsule#hit.candidate_on_surface.{k}", [T(ident), T(f"implies({pre}, {rt})")], T(st), func=key, kind="post", meta={"function": key, "source_hash": R.info.source_hash, "goal": "an accepted candidate's point lies on its part of the surface: " + t, "timeout_ms": 30000}))
    stmts.append(T(st))
  obs.append(Obligation("ray_capsule#hit_on_surface", [T(s1)] + stmts, T(f"implies({pre} and result[0] >= 0.0, {surf})"), func=key, kind="post", meta={"function": key, "source_hash": R.info.source_hash, "goal": "a reported hit lies on the cylinder side between the caps or on the outer half of a cap sphere", "timeout_ms": 30000, "sat_hints": search, "replay": native(f"implies({a3} > 0.0 and result[0] >= 0.0, {surf})")}))
  return obs


def g_ellipsoid(tier):
  """(L) ray.ray_ellipsoid in the local frame, against the contracts of _ray_map and _ray_quad (both roots):
  E(t) = sum_i s_i * (lp_i + t*lv_i)^2 - 1 with s_i * size_i^2 = 1. A reported distance is -1 or >= 0; a reported hit lies
  on the ellipsoid; every point of the ray (y >= 0) on the ellipsoid is a hit and the reported distance is not beyond it."""
  from wpv.contracts import Obligation
  from wpv.sym import tobool

  key = "ray:ray_ellipsoid"
  MINVAL = __import__("wpv.consts", fromlist=["x"]).CONSTS["consts"]["MJ_MINVAL"]
  Q = quad2_contract()
  M = FuncContract("ray:_ray_map", ensures=[])
  R = Run(key, contracts={QUAD: Q, "ray:_ray_map": M}, pre=["size[0] > 0.0", "size[1] > 0.0", "size[2] > 0.0"])
  obs = []
  ok = Q.uses == 1 and M.uses == 1
  obs.append(Result(oid="ray_ellipsoid#structure", status="discharged" if ok else "undecided", kind="contract", func=key, backend="analysis", reason="" if ok else f"calls: _ray_quad {Q.uses}, _ray_map {M.uses}", meta={"function": key, "goal": "the ellipsoid test maps the ray once and solves one quadratic"}))
  if not ok:
    return obs
  R.qvars["lp"], R.qvars["lv"] = M.results[0]
  for k in "abc":
    R.qvars[k + "_e"] = Q.call_args[0][k]
  R.qvars["r_e"], R.qvars["x_e"] = Q.results[0]
  y = R.var("y", "float")
  T = lambda text: zb(tobool(R.term(text)))
  pure = lambda oid, text, goal: Obligation(oid, [], T(text), func=key, kind="lemma", meta={"function": key, "source_hash": R.info.source_hash, "goal": goal + ": " + text[:200], "timeout_ms": 30000})
  try:
    R.term("s[0]")
  except Exception:
    obs.append(Result(oid="ray_ellipsoid#anchor", status="undecided", kind="contract", func=key, reason="local `s` (inverse squared semi-axes) not found", meta={"function": key}))
    return obs
  a3 = "(lv[0]*lv[0] + lv[1]*lv[1] + lv[2]*lv[2])"
  E = lambda t: "(" + " + ".join(f"s[{i}]*(lp[{i}] + {t}*lv[{i}])*(lp[{i}] + {t}*lv[{i}])" for i in range(3)) + " - 1.0)"
  poly = lambda t: f"(a_e*{t}*{t} + 2.0*b_e*{t} + c_e)"
  real = f"(a_e > 0.0 and b_e*b_e - a_e*c_e >= {MINVAL})"
  obs.append(canary(R, "ray_ellipsoid#canary", hints=[["lp[0] == -3.0", "lp[1] == 0.0", "lp[2] == 0.0", "lv[0] == 1.0", "lv[1] == 0.0", "lv[2] == 0.0", "size[0] == 1.0", "size[1] == 1.0", "size[2] == 1.0"]]))
  obs += R.side_obligations("ray_ellipsoid#")
  inv = [f"s[{i}]*size[{i}]*size[{i}] == 1.0" for i in range(3)]
  for i in range(3):
    obs.append(R.obligation(f"ray_ellipsoid#inverse_squared_axis.{i}", inv[i], meta={"goal": "s_i is 1 / size_i^2", "timeout_ms": 30000}))
  ident = f"{E('y')} == {poly('y')}"
  obs.append(pure("ray_ellipsoid#identity", ident, "the quadratic the code solves is the ellipsoid equation along the ray"))
  lead = "a_e == " + " + ".join(f"s[{i}]*lv[{i}]*lv[{i}]" for i in range(3))
  obs.append(pure("ray_ellipsoid#identity.leading_coefficient", lead, "leading coefficient"))
  # a_e > 0 for a non-zero direction: each s_i > 0 (from s_i * size_i^2 = 1), squares are non-negative, one is positive
  S = z3.Reals("S0 S1 S2")
  Z = z3.Reals("Z0 Z1 Z2")
  V = z3.Reals("V0 V1 V2")
  pos_lem = z3.Implies(z3.And(*[z3.And(S[i] * Z[i] * Z[i] == 1, Z[i] > 0) for i in range(3)], z3.Or(*[V[i] != 0 for i in range(3)])), S[0] * V[0] * V[0] + S[1] * V[1] * V[1] + S[2] * V[2] * V[2] > 0)
  obs.append(Obligation("ray_ellipsoid#lemma.positive_leading_coefficient", [], pos_lem, func=key, kind="lemma", meta={"function": key, "goal": "s_i z_i^2 = 1, z_i > 0, v != 0 -> sum s_i v_i^2 > 0", "timeout_ms": 30000}))
  sub = [(S[i], R.term(f"s[{i}]")) for i in range(3)] + [(Z[i], R.term(f"size[{i}]")) for i in range(3)] + [(V[i], R.term(f"lv[{i}]")) for i in range(3)]
  pre = f"{a3} > 0.0"
  apos = f"implies({pre}, a_e > 0.0)"
  obs.append(R.obligation("ray_ellipsoid#leading_coefficient_positive", apos, extra_assume=[T(t) for t in inv] + [T(lead), z3.substitute(pos_lem, *sub), T(f"implies({a3} > 0.0, lv[0] != 0.0 or lv[1] != 0.0 or lv[2] != 0.0)")], meta={"goal": "for a non-zero direction the quadratic is genuinely quadratic", "timeout_ms": 30000}))
  obs.append(pure("ray_ellipsoid#lemma.nonzero_direction", f"implies({a3} > 0.0, lv[0] != 0.0 or lv[1] != 0.0 or lv[2] != 0.0)", "a vector with positive squared length has a non-zero component"))
  obs.append(R.obligation("ray_ellipsoid#distance_is_the_quad_result", "result[0] == r_e", meta={"goal": "the reported distance is the root selected by _ray_quad"}))
  obs.append(R.obligation("ray_ellipsoid#miss_is_minus_one", "result[0] == -1.0 or result[0] >= 0.0", meta={"goal": "a miss is reported as -1"}))
  root_r = f"implies({pre} and r_e >= 0.0, {poly('r_e')} == 0.0)"
  obs.append(R.obligation("ray_ellipsoid#hit.selected_root_solves_the_quadratic", root_r, extra_assume=[T(apos)], meta={"goal": "the selected root solves the quadratic", "timeout_ms": 30000}))
  id_r = f"{E('r_e')} == {poly('r_e')}"
  obs.append(pure("ray_ellipsoid#identity.at_selected_root", id_r, "the identity at the selected root"))
  obs.append(Obligation("ray_ellipsoid#hit_on_surface", [T("result[0] == r_e"), T(root_r), T(id_r)], T(f"implies({pre} and result[0] >= 0.0, {E('result[0]')} == 0.0)"), func=key, kind="post", meta={"function": key, "source_hash": R.info.source_hash, "goal": "a reported hit lies on the ellipsoid", "timeout_ms": 30000, "raw_first": True, "sat_hints": _pinned_rays(T, ["size[0] == 1.0", "size[1] == 2.0", "size[2] == 3.0"]), "replay": _local_replay(R, "ray_ellipsoid", y, "implies(" + a3 + " > 0.0 and result[0] >= 0.0, (" + " + ".join(f"(lp[{i}] + result[0]*lv[{i}])*(lp[{i}] + result[0]*lv[{i}])/(size[{i}]*size[{i}])" for i in range(3)) + " - 1.0) == 0.0)", ["size[0] > 0.0", "size[1] > 0.0", "size[2] > 0.0"])}))
  # nearest
  A, B, C, U, W_, Y = z3.Reals("A B C U V Y")
  lem = z3.Implies(z3.And(A > 0, A * (U + W_) == -2 * B, A * U * W_ == C, A * Y * Y + 2 * B * Y + C == 0), z3.Or(Y == U, Y == W_))
  obs.append(Obligation("ray_ellipsoid#lemma.root_is_one_of_two", [], lem, func=key, kind="lemma", meta={"function": key, "goal": "a > 0, a(u+v) = -2b, a u v = c, a y^2 + 2 b y + c = 0  ->  y = u or y = v", "timeout_ms": 30000}))
  inst = z3.substitute(lem, (A, R.term("a_e")), (B, R.term("b_e")), (C, R.term("c_e")), (U, R.term("x_e[0]")), (W_, R.term("x_e[1]")), (Y, R.term("y")))
  hyp = f"{pre} and y >= 0.0 and {E('y')} == 0.0 and b_e*b_e - a_e*c_e >= {MINVAL}"
  is_root = f"implies({hyp}, y == x_e[0] or y == x_e[1])"
  obs.append(R.obligation("ray_ellipsoid#nearest.point_is_a_root", is_root, extra_assume=[T(ident), T(apos), inst], meta={"goal": "a point of the ray on the ellipsoid is one of the two roots", "timeout_ms": 60000}))
  En = lambda t: "(" + " + ".join(f"(lp[{i}] + {t}*lv[{i}])*(lp[{i}] + {t}*lv[{i}])/(size[{i}]*size[{i}])" for i in range(3)) + " - 1.0)"
  req = ["size[0] > 0.0", "size[1] > 0.0", "size[2] > 0.0"]
  search = _pinned_rays(T, ["size[0] == 1.0", "size[1] == 2.0", "size[2] == 3.0"])
  obs.append(R.obligation("ray_ellipsoid#nearest", f"implies({hyp}, result[0] >= 0.0 and result[0] <= y)", extra_assume=[T(is_root), T(apos), T("result[0] == r_e")], meta={"goal": "every point of the ray (y >= 0) on the ellipsoid is a hit and the reported distance is not beyond it", "timeout_ms": 30000, "sat_hints": [h + [y == v] for h in search for v in (1, 2, 4)], "replay": _local_replay(R, "ray_ellipsoid", y, f"implies({a3} > 0.0 and y >= 0.0 and {En('y')} == 0.0, result[0] >= 0.0 and result[0] <= y)", req)}))
  return obs


def _pinned_rays(T, sizes):
  """where a counter-model is looked for first when a proof fails (a model of query + hint is a model of the query):
  rays along / oblique to the axis, starting inside and outside"""
  starts = [("0.0", "0.0", "0.0"), ("0.0", "0.0", "5.0"), ("0.5", "0.0", "0.0"), ("0.0", "0.0", "-5.0"), ("3.0", "0.0", "0.0")]
  dirs = [("0.0", "0.0", "1.0"), ("0.0", "0.0", "-1.0"), ("1.0", "0.0", "1.0"), ("-1.0", "0.0", "0.0")]
  return [[T(f"lp[{i}] == {p[i]}") for i in range(3)] + [T(f"lv[{i}] == {d[i]}") for i in range(3)] + [T(z) for z in sizes] for p in starts for d in dirs]


def _local_replay(R, func, yv, clause, requires):
  """replay of a counter-model on the real function with the local ray itself (pos = 0, mat = identity)"""
  import json
  import os

  from wpv.contracts import _num
  from wpv.sym import lift

  text = clause.replace("lp[", "pnt[").replace("lv[", "vec[").replace("bound >= 0.0 and ", "")

  def run(model, ob):
    if model is None:
      return {"reproduced": None, "note": "no model object"}
    from wpv import replay as rp

    val = lambda t: _num(model, lift(t, "float"))
    params = [["pos", "vec3", [0.0, 0.0, 0.0]], ["mat", "mat33", [1.0, 0, 0, 0, 1.0, 0, 0, 0, 1.0]], ["size", "vec3", [val(c) for c in R.params["size"].comps]], ["pnt", "vec3", [val(c) for c in R.qvars["lp"].comps]], ["vec", "vec3", [val(c) for c in R.qvars["lv"].comps]]]
    here = os.path.dirname(os.path.dirname(os.path.abspath(__file__)))
    os.makedirs(os.path.join(here, "replay"), exist_ok=True)
    safe = "".join(ch if ch.isalnum() or ch in "._-" else "_" for ch in ob.oid)[:100]
    path = os.path.join("replay", f"func_{safe}.input.json")
    with open(os.path.join(here, path), "w") as f:
      json.dump({"module": "ray", "func": func, "params": params, "ret": ["float", "vec3"], "requires": requires, "clause": text, "extra": {"y": val(yv)}}, f, indent=1)
    cmd = ["VENV_PYTHON", "scenarios/replay_func.py", path]
    rc, out = rp.run_native(cmd)
    return {"native_cmd": cmd, "exit": rc, "reproduced": rc == 1, "meaning": f"exit 1: the real {func} violates the clause on the ray of the counter-model (local frame = world frame); 0: it does not; 2: not executable", "output": out[-2000:]}

  return run


def g_cylinder(tier):
  """(Y) ray.ray_cylinder in the local frame, against the contracts of _ray_map, ray_sphere (sign convention) and
  _ray_quad: a reported hit lies on a flat face within the radius or on the round side between the faces; every point of
  the ray (y >= 0) on a flat face within the radius is a hit not nearer than the reported distance."""
  from wpv.contracts import Obligation
  from wpv.sym import tobool

  key = "ray:ray_cylinder"
  MINVAL = __import__("wpv.consts", fromlist=["x"]).CONSTS["consts"]["MJ_MINVAL"]
  Q = quad2_contract()
  M = FuncContract("ray:_ray_map", ensures=[])
  S = FuncContract("ray:ray_sphere", ensures=["result[0] == -1.0 or result[0] >= 0.0"])
  R = Run(key, contracts={QUAD: Q, "ray:_ray_map": M, "ray:ray_sphere": S}, pre=["size[0] > 0.0", "size[1] >= 0.0"])
  obs = []
  ok = Q.uses == 1 and M.uses == 1 and S.uses == 1
  obs.append(Result(oid="ray_cylinder#structure", status="discharged" if ok else "undecided", kind="contract", func=key, backend="analysis", reason="" if ok else f"calls: _ray_quad {Q.uses}, _ray_map {M.uses}, ray_sphere {S.uses}", meta={"function": key, "goal": "one ray map, one bounding-sphere test, one quadratic (round side)"}))
  if not ok:
    return obs
  R.qvars["lp"], R.qvars["lv"] = M.results[0]
  R.qvars["bound"] = S.results[0][0]
  for k in "abc":
    R.qvars[k + "_s"] = Q.call_args[0][k]
  R.qvars["r_s"], R.qvars["x_s"] = Q.results[0]
  y = R.var("y", "float")
  T = lambda text: zb(tobool(R.term(text)))
  pure = lambda oid, text, goal: Obligation(oid, [], T(text), func=key, kind="lemma", meta={"function": key, "source_hash": R.info.source_hash, "goal": goal + ": " + text[:200], "timeout_ms": 30000})
  pt = lambda t: [f"(lp[{i}] + {t}*lv[{i}])" for i in range(3)]
  rad = lambda t: f"({pt(t)[0]}*{pt(t)[0]} + {pt(t)[1]}*{pt(t)[1]})"
  pre = "bound >= 0.0"
  obs.append(canary(R, "ray_cylinder#canary", hints=[["lp[0] == 0.0", "lp[1] == 0.0", "lp[2] == -5.0", "lv[0] == 0.0", "lv[1] == 0.0", "lv[2] == 1.0", "size[0] == 1.0", "size[1] == 1.0", "bound == 1.0"]]))
  obs += R.side_obligations("ray_cylinder#")
  obs.append(R.obligation("ray_cylinder#miss_is_minus_one", "result[0] == -1.0 or result[0] >= 0.0", meta={"goal": "a miss is reported as -1"}))
  X = "result[0]"
  flat = lambda t, sgn: f"({pt(t)[2]} == {sgn}size[1] and {rad(t)} <= size[0]*size[0])"
  side = lambda t: f"({rad(t)} == size[0]*size[0] and abs({pt(t)[2]}) <= size[1])"
  # soundness, by candidates: the two face solutions and the selected side root
  # the two face solutions, evaluated ONCE (each evaluation of a division introduces its own quotient symbol)
  R.qvars["f_t"] = R.term("(size[1] - lp[2])/lv[2]")
  R.qvars["f_b"] = R.term("(-size[1] - lp[2])/lv[2]")
  ft, fb = "f_t", "f_b"
  cands = [f"(abs(lv[2]) > {MINVAL} and {X} == {t} and {t} >= 0.0 and {rad(t)} <= size[0]*size[0])" for t in (ft, fb)] + [f"({X} == r_s and r_s >= 0.0 and abs({pt('r_s')[2]}) <= size[1])"]
  s1 = f"implies({pre} and {X} >= 0.0, " + " or ".join(cands) + ")"
  obs.append(R.obligation("ray_cylinder#hit.is_an_accepted_candidate", s1, meta={"goal": "a reported distance is a face solution within the radius or the side root between the faces", "timeout_ms": 60000}))
  on_face = [f"implies(abs(lv[2]) > {MINVAL}, lp[2] + {t}*lv[2] == {sgn}size[1])" for t, sgn in ((ft, ""), (fb, "-"))]
  for n, t in enumerate(on_face):
    obs.append(R.obligation(f"ray_cylinder#hit.face_solution_on_face.{n}", t, meta={"goal": "the face solution puts the point on the face plane", "timeout_ms": 30000}))
  poly = lambda t: f"(a_s*{t}*{t} + 2.0*b_s*{t} + c_s)"
  root = f"implies(r_s >= 0.0, {poly('r_s')} == 0.0)"
  obs.append(R.obligation("ray_cylinder#hit.side_root_solves_the_quadratic", f"implies({pre}, {root})", extra_assume=[T("implies(lv[0]*lv[0] + lv[1]*lv[1] == 0.0, lv[0] == 0.0 and lv[1] == 0.0)")], meta={"goal": "the side root solves its quadratic", "timeout_ms": 30000}))
  obs.append(pure("ray_cylinder#lemma.sum_of_squares_zero", "implies(lv[0]*lv[0] + lv[1]*lv[1] == 0.0, lv[0] == 0.0 and lv[1] == 0.0)", "a ray parallel to the axis has no side quadratic"))
  idr = f"{rad('r_s')} - size[0]*size[0] == {poly('r_s')}"
  obs.append(pure("ray_cylinder#identity.side", idr, "the side quadratic is the round surface along the ray"))
  surf = f"{flat(X, '')} or {flat(X, '-')} or {side(X)}"
  per = []
  for n, (t, sgn) in enumerate(((ft, ""), (fb, "-"))):
    st = f"implies(abs(lv[2]) > {MINVAL} and {t} >= 0.0 and {rad(t)} <= size[0]*size[0], {flat(t, sgn)})"
    obs.append(Obligation(f"ray_cylinder#hit.candidate_on_surface.{n}", [T(on_face[n])], T(st), func=key, kind="post", meta={"function": key, "source_hash": R.info.source_hash, "goal": "an accepted face solution lies on its face within the radius", "timeout_ms": 30000}))
    per.append(T(st))
  st = f"implies({pre} and r_s >= 0.0 and abs({pt('r_s')[2]}) <= size[1], {side('r_s')})"
  obs.append(Obligation("ray_cylinder#hit.candidate_on_surface.2", [T(f"implies({pre}, {root})"), T(idr)], T(st), func=key, kind="post", meta={"function": key, "source_hash": R.info.source_hash, "goal": "an accepted side root lies on the round side between the faces", "timeout_ms": 30000}))
  per.append(T(st))
  search = _pinned_rays(T, ["size[0] == 1.0", "size[1] == 2.0", "bound == 1.0"])
  req = ["size[0] > 0.0", "size[1] >= 0.0"]
  obs.append(Obligation("ray_cylinder#hit_on_surface", [T(s1)] + per, T(f"implies({pre} and {X} >= 0.0, {surf})"), func=key, kind="post", meta={"function": key, "source_hash": R.info.source_hash, "goal": "a reported hit lies on a flat face within the radius or on the round side between the faces", "timeout_ms": 60000, "raw_first": True, "sat_hints": search, "replay": _local_replay(R, "ray_cylinder", y, f"implies({X} >= 0.0, {surf})", req)}))
  # completeness for the faces
  for nm, sgn, t in (("top", "", ft), ("bottom", "-", fb)):
    hyp = f"{pre} and abs(lv[2]) > {MINVAL} and y >= 0.0 and {flat('y', sgn)}"
    same = f"implies({hyp}, y == {t})"
    obs.append(R.obligation(f"ray_cylinder#{nm}_face.point_is_the_face_solution", same, meta={"goal": f"a point of the ray on the {nm} face plane is at the face solution", "timeout_ms": 30000}))
    nat = f"implies(abs(lv[2]) > {MINVAL} and y >= 0.0 and {flat('y', sgn)}, {X} >= 0.0 and {X} <= y)"
    obs.append(R.obligation(f"ray_cylinder#{nm}_face.nearest", f"implies({hyp}, {X} >= 0.0 and {X} <= y)", extra_assume=[T(same)], meta={"goal": f"every point of the ray (y >= 0) on the {nm} face within the radius is a hit, and the reported distance is not beyond it", "timeout_ms": 60000, "sat_hints": [h + [y == v] for h in _pinned_rays(T, ["size[0] == 1.0", "size[1] == 2.0", "bound == 1.0"]) for v in (2, 3, 7)], "replay": _local_replay(R, "ray_cylinder", y, nat, ["size[0] > 0.0", "size[1] >= 0.0"])}))
  return obs


def groups(tier):
  return [("cylinder", g_cylinder), ("ellipsoid", g_ellipsoid), ("eliminate", g_eliminate), ("quad", g_quad), ("quad2", g_quad2), ("sphere", g_sphere), ("plane", g_plane), ("map", g_map), ("capsule", g_capsule)]
