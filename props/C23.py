"""C23 Rotations stay valid (exact over the reals).

Modular contracts on the real functions, callers checked against callee CONTRACTS:
 (M) math.mul_quat           |result|^2 == |u|^2 |v|^2
     math.axis_angle_to_quat |axis| == 1 -> |result| == 1;  axis == 0 and angle == 0 -> identity
     math.quat_integrate     |result| == 1 for EVERY input (q may be unnormalised or zero, v zero)
     math.quat_to_mat        |q| == 1 -> result is orthonormal with determinant +1
 (P) forward._next_position  the four quaternion slots of a free / ball joint hold a unit quaternion
     after the launch, nothing outside the joint's own qpos slots is written, and every launch or copy
     that writes Data.qpos during step() is followed by a _next_position launch into Data.qpos.
 (K) smooth._kinematics_branch: every quaternion stored in xquat is a unit quaternion (for any qpos),
     given that the parent's stored xquat is one (induction over the branch; root value from make_data).
 (R) every kernel that stores a reported orientation matrix (xmat, ximat, geom_xmat, site_xmat, cam_xmat)
     stores quat_to_mat of a unit quaternion, hence a proper rotation, given MODEL_WF.unit_quats
     (compiler-normalised model quaternions) and (K).
"""
import z3

from wpv import census, extract, hostflow, launchsites
from wpv.contracts import FuncContract, Obligation, Run
from wpv.runner import Result
from wpv.sym import ArrRef, Vec, lift, zb

from .common import canary

INFO = {
  "trusted": [
    "exact over the reals (T2): |q| == 1 means the real-arithmetic norm; float32 round-off of the final normalisation is not modelled",
    "wp.normalize: zero vector -> zero vector, zero quaternion -> (0,0,0,1) in warp's layout (audited natively against warp 1.x)",
    "sin/cos by sin^2+cos^2 == 1 and sin 0 == 0, cos 0 == 1",
    "MODEL_WF.unit_quats: body_quat, body_iquat, geom_quat, site_quat, cam_quat and hinge axes jnt_axis are unit (MuJoCo compiler normalises them); mocap_quat may be anything",
    "MODEL_WF.joint_slots: the qpos slots [jnt_qposadr[j], +width(jnt_type[j])) of different joints are disjoint",
    "Data well-formedness: xquat[:, 0] (world body, written only by make_data/put_data) is the identity",
  ],
  "undecided": [
    "camera orientations in target-tracking modes (built from normalised cross products, not from a quaternion)",
    "light directions, flex and tendon frames are not orientations in the sense of the statement",
  ],
}

N4 = lambda v: "(" + " + ".join(f"{v}[{i}]*{v}[{i}]" for i in range(4)) + ")"
N3 = lambda v: "(" + " + ".join(f"{v}[{i}]*{v}[{i}]" for i in range(3)) + ")"


def _rot(m):
  """text: 3x3 matrix m (python expr) is orthonormal with determinant 1"""
  e = lambda i, j: f"{m}[{i}, {j}]"
  cl = []
  for i in range(3):
    for j in range(i, 3):
      dot = " + ".join(f"{e(i, k)}*{e(j, k)}" for k in range(3))
      cl.append(f"({dot}) == {1.0 if i == j else 0.0}")
  det = (
    f"{e(0,0)}*({e(1,1)}*{e(2,2)} - {e(1,2)}*{e(2,1)}) - {e(0,1)}*({e(1,0)}*{e(2,2)} - {e(1,2)}*{e(2,0)}) + {e(0,2)}*({e(1,0)}*{e(2,1)} - {e(1,1)}*{e(2,0)})"
  )
  cl.append(f"({det}) == 1.0")
  return cl


def contracts():
  C = {}
  C["math:mul_quat"] = FuncContract("math:mul_quat", ensures=[f"{N4('result')} == {N4('u')} * {N4('v')}"])
  C["math:axis_angle_to_quat"] = FuncContract(
    "math:axis_angle_to_quat",
    ensures=[
      f"implies({N3('axis')} == 1.0, {N4('result')} == 1.0)",
      "implies(axis[0] == 0.0 and axis[1] == 0.0 and axis[2] == 0.0 and angle == 0.0, result[0] == 1.0 and result[1] == 0.0 and result[2] == 0.0 and result[3] == 0.0)",
    ],
  )
  C["math:quat_integrate"] = FuncContract("math:quat_integrate", ensures=[f"{N4('result')} == 1.0"])
  C["math:quat_to_mat"] = FuncContract("math:quat_to_mat", ensures=[f"implies({N4('quat')} == 1.0, {c})" for c in _rot("result")])
  return C


def g_math(tier):
  C = contracts()
  obs = []
  obs += C["math:mul_quat"].verify()
  obs += C["math:axis_angle_to_quat"].verify()
  # the caller is checked against the callees' contracts, not their bodies
  obs += C["math:quat_integrate"].verify(contracts={k: C[k] for k in ("math:mul_quat", "math:axis_angle_to_quat")}, timeout_ms=30000)
  obs += C["math:quat_to_mat"].verify(timeout_ms=30000)
  used = C["math:mul_quat"].uses and C["math:axis_angle_to_quat"].uses
  obs.append(Result(oid="quat_integrate#uses_callee_contracts", status="discharged" if used else "violated", kind="contract", func="math:quat_integrate", backend="analysis", meta={"function": "math:quat_integrate", "goal": "quat_integrate composes the rotation through mul_quat and axis_angle_to_quat (the functions under contract)"}))
  return obs


def _jt(name):
  from wpv.consts import enum_namespace

  return int(getattr(enum_namespace().JointType, name))


def g_next_position(tier):
  key = "forward:_next_position"
  C = contracts()
  obs = []
  sites = launchsites.sites_of_kernel(key)
  for alias in (True, False):
    tag = f"_next_position[{'in_place' if alias else 'separate_input'}]"
    R = Run(key, contracts={"math:quat_integrate": C["math:quat_integrate"]}, args={"$alias": {"qpos_out": "qpos_in"}} if alias else None)
    R.var("x")
    obs.append(canary(R, f"{tag}#canary"))
    adr = "jnt_qposadr[tid1]"
    q = lambda k: f"qpos_out[tid0, {adr} + {k}]"
    free = " + ".join(f"{q(k)}*{q(k)}" for k in (3, 4, 5, 6))
    ball = " + ".join(f"{q(k)}*{q(k)}" for k in (0, 1, 2, 3))
    obs.append(R.obligation(f"{tag}#free_joint_quaternion_unit", f"implies(jnt_type[tid1] == {_jt('FREE')}, ({free}) == 1.0)", meta={"goal": "free joint: qpos[adr+3..adr+6] is a unit quaternion after the launch, for any previous qpos"}))
    obs.append(R.obligation(f"{tag}#ball_joint_quaternion_unit", f"implies(jnt_type[tid1] == {_jt('BALL')}, ({ball}) == 1.0)", meta={"goal": "ball joint: qpos[adr..adr+3] is a unit quaternion after the launch, for any previous qpos"}))
    # frame: the thread writes only the slots of its own joint (disjoint between joints by MODEL_WF.joint_slots)
    width = f"ite(jnt_type[tid1] == {_jt('FREE')}, 7, ite(jnt_type[tid1] == {_jt('BALL')}, 4, 1))"
    obs.append(R.obligation(f"{tag}#frame.own_slots", f"implies(not ({adr} <= x and x < {adr} + {width}), qpos_out[tid0, x] == old(qpos_out[tid0, x]))", meta={"goal": "only the joint's own qpos slots are written"}))
  ok = bool(sites) and all(s.binding.get("qpos_out") == "d.qpos" and s.dim.replace(" ", "") == "(d.nworld,m.njnt)" for s in sites)
  obs.append(Result(oid="_next_position#launch.sites", status="discharged" if ok else "violated", kind="launch-binding", func=key, backend="launch-site analysis", meta={"function": key, "goal": "every launch covers all joints of all worlds and writes Data.qpos", "sites": [(s.host, s.dim, s.binding.get("qpos_in"), s.binding.get("qpos_out")) for s in sites]}))
  obs.append(Result(oid="_next_position#uses_quat_integrate", status="discharged" if C["math:quat_integrate"].uses >= 4 else "violated", kind="contract", func=key, backend="analysis", meta={"function": key, "goal": "free and ball joints are integrated through math.quat_integrate (the function under contract)", "calls": C["math:quat_integrate"].uses}))
  return obs


def g_step_writers(tier):
  """every writer of Data.qpos inside step() is, on its own path, followed by a _next_position launch"""
  from .C37 import _atoms, _covers

  obs = []
  for root in ("forward:step", "forward:step2"):
    ev = hostflow.flow(root)
    S = {}
    for e in ev:
      if e.kind == "launch" and e.kernel and "d.qpos" in e.binding.values() and e.kernel not in S:
        S[e.kernel] = census.kernel_summary(e.kernel)
    writers = []
    for i, e in enumerate(ev):
      if e.kind == "launch" and e.kernel in S:
        sm = S[e.kernel]["formals"]
        if any(a == "d.qpos" and sm.get(f, {}).get("w") for f, a in e.binding.items()):
          writers.append(i)
      elif e.kind in ("fill", "copy") and e.target == "d.qpos":
        writers.append(i)
    bad = []
    for i in writers:
      e = ev[i]
      if e.kind == "launch" and e.kernel == "forward:_next_position":
        continue
      later = [ev[j] for j in range(i + 1, len(ev)) if ev[j].kind == "launch" and ev[j].kernel == "forward:_next_position" and ev[j].binding.get("qpos_out") == "d.qpos"]
      # loop atoms of the writer's own loop body do not constrain what follows the loop
      need = {a for a in _atoms(e) if not a[0].startswith("loop:")}
      if not any(_covers(need, [{a for a in _atoms(l) if not a[0].startswith("loop:")}]) for l in later):
        bad.append(f"{e.kind} {e.kernel or e.target} in {e.host}:{e.lineno}")
    name = root.split(":")[1]
    obs.append(Result(oid=f"{name}#qpos_last_writer", status="discharged" if not bad and writers else ("violated" if bad else "crash"), reason="no writer of d.qpos found: analysis is vacuous", kind="host-order", func=root, backend="host-flow analysis", meta={"function": root, "goal": "every launch / copy that writes Data.qpos during the step is followed, on every path it is on, by a _next_position launch into Data.qpos", "writers": len(writers), "not_followed": bad[:5]}))
  return obs


def _norm2(state, ref, idx):
  """squared norm of the vector element ref[idx] in the given array state (arrays of vectors are functions of index + component)"""
  import itertools

  f = state[ref.aid]
  return sum((f(tuple(idx) + c) * f(tuple(idx) + c) for c in itertools.product(*[range(n) for n in ref.elem.shape])), z3.RealVal(0))


def _apps(terms, stems):
  """applications F(i.., c) of array functions whose name (without @generation) is in stems, found in terms
  -> {(decl, index args): [component terms]}"""
  out = {}
  seen = set()
  stack = list(terms)
  while stack:
    t = stack.pop()
    if t.get_id() in seen:
      continue
    seen.add(t.get_id())
    if z3.is_quantifier(t):
      stack.append(t.body())
      continue
    if z3.is_app(t):
      d = t.decl()
      if d.kind() == z3.Z3_OP_UNINTERPRETED and t.num_args() >= 2 and d.name().split("@")[0] in stems:
        args = [t.arg(i) for i in range(t.num_args())]
        if all(not z3.is_var(a) for a in args):
          out.setdefault((d, tuple(a.get_id() for a in args[:-1])), (d, args[:-1]))
      stack.extend(t.children())
  return list(out.values())


def _norm_facts(terms, unit_stems, nonzero_stems, ncomp):
  """quantifier-free instances of 'every element of these arrays is a unit (non-zero) vector' at the elements
  that occur in terms"""
  facts = []
  for d, idx in _apps(terms, set(unit_stems) | set(nonzero_stems)):
    stem = d.name().split("@")[0]
    n2 = sum((d(*idx, z3.IntVal(c)) * d(*idx, z3.IntVal(c)) for c in range(ncomp[stem])), z3.RealVal(0))
    facts.append(n2 == 1 if stem in unit_stems else n2 > 0)
  return facts


def g_kinematics(tier):
  """(K) every store to xquat_out by _kinematics_branch is a unit quaternion"""
  key = "smooth:_kinematics_branch"
  C = contracts()
  inv = {
    # inner joint loop: the accumulated orientation stays a non-zero quaternion
    (key, 1): [f"{N4('xquat')} > 0.0"],
  }
  R = Run(key, contracts={k: C[k] for k in ("math:mul_quat", "math:axis_angle_to_quat")}, invariants=inv)
  ex = R.ex
  obs = [canary(R, "_kinematics_branch#canary", hints="auto")]
  xq = R.params["xquat_out"]
  # Invariant argument (thread-modular): "every cell of xquat holds a unit quaternion" holds initially (Data
  # well-formedness) and every store preserves it, so every value READ from xquat -- whichever thread stored it,
  # in this launch or an earlier one -- is unit. Model quaternions and hinge axes are unit (MODEL_WF.unit_quats),
  # mocap quaternions only non-zero. The hypotheses are instantiated at the elements an obligation mentions.
  ncomp = {"xquat_out": 4, "body_quat": 4, "jnt_axis": 3, "mocap_quat_in": 4}

  def facts_for(assumptions, goal):
    return _norm_facts(list(assumptions) + [goal], {"xquat_out", "body_quat", "jnt_axis"}, {"mocap_quat_in"}, ncomp)

  n = 0
  for acc in ex.st.log:
    if acc.kind != "w" or acc.arr is not xq:
      continue
    n += 1
    v = acc.value
    if not isinstance(v, Vec) or v.n != 4:
      obs.append(Result(oid=f"_kinematics_branch#xquat_store{n}", status="violated", kind="post", func=key, backend="analysis", meta={"function": key, "goal": "stored value is a quaternion"}))
      continue
    goal = z3.Implies(zb(acc.guard), sum((lift(c, "float") * lift(c, "float") for c in v.comps), z3.RealVal(0)) == 1)
    obs.append(Obligation(f"_kinematics_branch#xquat_store@{acc.lineno}.unit", list(ex.assumes) + facts_for(ex.assumes, goal), goal, func=key, kind="post", meta={"function": key, "source_hash": R.info.source_hash, "goal": "the quaternion stored in xquat is unit, for any qpos (given unit parent orientation, unit model quaternions and hinge axes, non-zero mocap quaternion)", "timeout_ms": 30000, "lineno": acc.lineno}))
  obs.append(Result(oid="_kinematics_branch#xquat_stores_found", status="discharged" if n >= 2 else "crash", reason="no store to xquat_out found", kind="post", func=key, backend="analysis", meta={"function": key, "goal": "the kernel stores body orientations", "stores": n}))
  for o in R.side_obligations("_kinematics_branch#"):
    o.assumptions = list(o.assumptions) + facts_for(o.assumptions, o.goal)
    o.meta["timeout_ms"] = 30000
    o.kind = "loop-invariant-qf"
    obs.append(o)
  return obs


# kernels that store reported orientation matrices: (kernel, out formal, quaternion inputs assumed unit)
MATS = {
  "smooth:_compute_body_matrices": ("xmat_out", ["xquat_in"]),
  "smooth:_compute_body_inertial_frames": ("ximat_out", ["xquat_in", "body_iquat"]),
  "smooth:_geom_local_to_global": ("geom_xmat_out", ["xquat_in", "geom_quat"]),
  "smooth:_site_local_to_global": ("site_xmat_out", ["xquat_in", "site_quat"]),
  # cameras: the fixed-mode stores (quat_to_mat of body orientation times cam_quat); tracking modes copy the model's
  # cam_mat0, target modes build the frame from normalised cross products (degenerate when the camera looks along z
  # or sits on its target) -- those stores are listed as undecided
  "smooth:_cam_local_to_global": ("cam_xmat_out", ["xquat_in", "cam_quat"]),
}
ONLY_QUAT_STORES = {"smooth:_cam_local_to_global"}


def g_mats(tier):
  C = contracts()
  obs = []
  for key, (out, quats) in MATS.items():
    R = Run(key, contracts={k: C[k] for k in ("math:mul_quat", "math:quat_to_mat")})
    ex = R.ex
    name = key.split(":")[1]
    stems = set(quats)
    ncomp = {q: 4 for q in quats}
    facts_for = lambda assumptions, goal: _norm_facts(list(assumptions) + [goal], stems, set(), ncomp)
    ref = R.params[out]
    n = 0
    for acc in ex.st.log:
      if acc.kind != "w" or acc.arr is not ref:
        continue
      n += 1
      v = acc.value
      if not isinstance(v, Vec) or v.n != 9:
        obs.append(Result(oid=f"{name}#{out}_store{n}", status="violated", kind="post", func=key, backend="analysis", meta={"function": key, "goal": "stored value is a 3x3 matrix"}))
        continue
      if key in ONLY_QUAT_STORES and not all(z3.is_const(lift(c, "float")) and str(lift(c, "float")).startswith("quat_to_mat!ret") for c in v.comps):
        n -= 1
        skipped = locals().get("skipped", 0) + 1
        continue
      m = [lift(c, "float") for c in v.comps]
      e = lambda i, j: m[3 * i + j]
      cl = []
      for i in range(3):
        for j in range(i, 3):
          cl.append(sum((e(i, k) * e(j, k) for k in range(3)), z3.RealVal(0)) == (1 if i == j else 0))
      det = e(0, 0) * (e(1, 1) * e(2, 2) - e(1, 2) * e(2, 1)) - e(0, 1) * (e(1, 0) * e(2, 2) - e(1, 2) * e(2, 0)) + e(0, 2) * (e(1, 0) * e(2, 1) - e(1, 1) * e(2, 0))
      cl.append(det == 1)
      for ci, c in enumerate(cl):
        g = z3.Implies(zb(acc.guard), c)
        obs.append(Obligation(f"{name}#{out}@{acc.lineno}.rotation.{ci}", list(ex.assumes) + facts_for(ex.assumes, g), g, func=key, kind="post", meta={"function": key, "source_hash": R.info.source_hash, "goal": f"the matrix stored in {out} is a proper rotation (orthonormality entry / determinant {ci})", "timeout_ms": 30000}))
    obs.append(Result(oid=f"{name}#{out}_stores_found", status="discharged" if n >= 1 else "crash", reason=f"no store to {out}", kind="post", func=key, backend="analysis", meta={"function": key, "goal": f"the kernel stores {out}", "stores": n}))
    for o in R.side_obligations(name + "#"):
      o.assumptions = list(o.assumptions) + facts_for(o.assumptions, o.goal)
      obs.append(o)
    used = C["math:quat_to_mat"].uses
    obs.append(Result(oid=f"{name}#uses_quat_to_mat", status="discharged" if used else "violated", kind="contract", func=key, backend="analysis", meta={"function": key, "goal": "the orientation matrix is produced by math.quat_to_mat (the function under contract)"}))
    C["math:quat_to_mat"].uses = 0
  return obs


def groups(tier):
  return [("math", g_math), ("next_position", g_next_position), ("step_writers", g_step_writers), ("kinematics", g_kinematics), ("mats", g_mats)]
