"""C29 Sleeping -- the local rules (per-tree transitions), not the agreement with MuJoCo's evolution.

 (S) sleep._sweep_awake_trees, run against an opaque contract of _tree_can_sleep (its verdict is a free boolean CAN): a
     sleeping tree is not touched; an awake tree's countdown moves one step towards -1 when CAN (and stays at -1), and is
     reset to K_AWAKE_VAL = -(1 + MJ_MINAWAKE) when not CAN; no other cell changes. Hence a countdown of -1 ("ready to
     sleep") is reached only after MJ_MINAWAKE consecutive sweeps with CAN.
 (T) sleep._tree_can_sleep refuses immediately for sleep policy NEVER.
 (I) sleep._check_island_can_sleep: an island is marked "cannot sleep" exactly by trees of that island whose countdown
     has not reached -1.
 (U) sleep._update_sleep_trees / _update_sleep_bodies: tree_awake is (tree_asleep < 0); a body is ASLEEP iff its tree is
     not awake, static bodies are STATIC (AWAKE when asked or under a mocap root).
 (W) sleep._wake_kernel: _wake_tree is called for a tree exactly when it is asleep and (its tree_awake flag says awake or
     _tree_can_sleep with zero tolerance refuses), with the wake value K_AWAKE_VAL.
 (F) frozen state: forward._next_velocity leaves qvel unchanged where qacc is 0; forward._next_position leaves a hinge /
     slide coordinate and a free joint's position unchanged where the joint's velocities are 0.
"""
import z3

from wpv.contracts import FuncContract, Run
from wpv.runner import Result
from wpv.sym import lift, zb

from .common import canary

INFO = {
  "trusted": ["K_AWAKE_VAL = -(1 + MJ_MINAWAKE) is taken from the module constant of sleep.py"],
  "undecided": [
    "agreement of the awake / asleep evolution with MuJoCo's",
    "sleep._build_cycles (cycle construction, zeroing of the velocities of trees put to sleep) and _wake_tree's walk along a cycle: nested loops over stored links, not summarised",
    "the wake triggers through contacts, equalities and tendons, and their order dependence (C11 known finding D11)",
    "free / ball joint quaternions of a frozen tree are renormalised by _next_position (unchanged only when already unit)",
  ],
}

CAN = "sleep:_tree_can_sleep"


class _Rec(FuncContract):
  def apply(self, ex, args, kw, fr, e):
    r = super().apply(ex, args, kw, fr, e)
    self.__dict__.setdefault("calls", []).append((args, r, ex.guard_now(fr)))
    return r


def _kawake():
  from wpv import extract

  r = extract.resolve_symbol("sleep", "K_AWAKE_VAL")
  from wpv.consts import CONSTS

  return -(1 + int(CONSTS["consts"]["MJ_MINAWAKE"]))


def g_sweep(tier):
  key = "sleep:_sweep_awake_trees"
  rec = _Rec(CAN, ensures=[])
  R = Run(key, contracts={CAN: rec})
  v, u = R.var("v"), R.var("u")
  K = _kawake()
  calls = getattr(rec, "calls", [])
  obs = [canary(R, "_sweep_awake_trees#canary")]
  obs.append(Result(oid="_sweep_awake_trees#one_verdict", status="discharged" if len(calls) == 1 else "violated", kind="contract", func=key, backend="analysis", meta={"function": key, "goal": "the sweep asks _tree_can_sleep once per tree"}))
  if len(calls) != 1:
    return obs
  can = zb(calls[0][1])
  args = calls[0][0]
  A = "tree_asleep_out[tid0, tid1]"
  A0 = "old(tree_asleep_out[tid0, tid1])"
  obs.append(R.obligation("_sweep_awake_trees#verdict_for_own_tree", z3.And(lift(args[-3]) == R.term("tid0"), lift(args[-2]) == R.term("tid1"), lift(args[-1], "float") == R.term("opt_sleep_tolerance[tid0 % opt_sleep_tolerance.shape[0]]")), meta={"goal": "the verdict is asked for this world, this tree and the world's own tolerance"}))
  obs.append(R.obligation("_sweep_awake_trees#asleep_untouched", f"implies({A0} >= 0, {A} == {A0})", meta={"goal": "a sleeping tree is not touched by the sweep"}))
  obs.append(R.obligation("_sweep_awake_trees#quiet_counts_down", z3.Implies(z3.And(R.term(f"{A0} < -1"), can), R.term(f"{A} == {A0} + 1")), meta={"goal": "awake and quiet: the countdown moves one step towards -1"}))
  obs.append(R.obligation("_sweep_awake_trees#ready_stays_ready", z3.Implies(z3.And(R.term(f"{A0} == -1"), can), R.term(f"{A} == -1")), meta={"goal": "awake, quiet and already at -1: stays at -1"}))
  obs.append(R.obligation("_sweep_awake_trees#disturbed_resets", z3.Implies(z3.And(R.term(f"{A0} < 0"), z3.Not(can)), R.term(f"{A} == {K}")), meta={"goal": f"awake and not quiet: the countdown is reset to K_AWAKE_VAL = {K}"}))
  obs.append(R.obligation("_sweep_awake_trees#frame", "implies(v != tid0 or u != tid1, tree_asleep_out[v, u] == old(tree_asleep_out[v, u]))", meta={"goal": "no other tree's cell changes"}))
  return obs


def g_can_sleep(tier):
  from wpv.consts import enum_namespace

  NEVER = int(enum_namespace().SleepPolicy.AUTO_NEVER)
  R = Run(CAN)
  obs = [canary(R, "_tree_can_sleep#canary")]
  obs.append(R.obligation("_tree_can_sleep#policy_never", f"implies(tree_sleep_policy[treeid] == {NEVER}, not result)", meta={"goal": "a tree with sleep policy NEVER cannot sleep"}))
  return obs


def g_island(tier):
  key = "sleep:_check_island_can_sleep"
  R = Run(key)
  ex = R.ex
  ats = [a for a in ex.st.log if a.kind == "atomic" and a.arr is R.params["island_can_sleep_out"]]
  obs = [canary(R, "_check_island_can_sleep#canary")]
  ok = len(ats) == 1 and ats[0].op == "min"
  obs.append(Result(oid="_check_island_can_sleep#one_atomic_min", status="discharged" if ok else "violated", kind="post", func=key, backend="access-log analysis", meta={"function": key, "goal": "the island flag is only lowered, by one atomic_min"}))
  if ok:
    a = ats[0]
    cond = R.term("tree_island_in[tid0, tid1] >= 0 and tree_island_in[tid0, tid1] < nisland_in[tid0] and tree_asleep_in[tid0, tid1] < -1")
    obs.append(R.obligation("_check_island_can_sleep#vetoed_exactly_by_unready_trees", zb(a.guard) == cond, meta={"goal": "the veto fires exactly for a tree of a live island whose countdown has not reached -1"}))
    obs.append(R.obligation("_check_island_can_sleep#veto_hits_own_island", z3.Implies(zb(a.guard), z3.And(lift(a.idx[0]) == R.term("tid0"), lift(a.idx[1]) == R.term("tree_island_in[tid0, tid1]"), lift(a.value[0] if isinstance(a.value, tuple) else a.value) == 0)), meta={"goal": "... on its own island of its own world, with value 0"}))
  return obs


def g_update(tier):
  from wpv.consts import enum_namespace

  S = enum_namespace().SleepState
  obs = []
  R = Run("sleep:_update_sleep_trees")
  obs.append(R.obligation("_update_sleep_trees#awake_iff_countdown", "tree_awake_out[tid0, tid1] == ite(tree_asleep_in[tid0, tid1] < 0, 1, 0)", meta={"goal": "tree_awake is 1 exactly for trees whose tree_asleep is a countdown (< 0)"}))
  R = Run("sleep:_update_sleep_bodies")
  B = "body_awake_out[tid0, tid1]"
  obs.append(R.obligation("_update_sleep_bodies#tree_bodies", f"implies(body_treeid[tid1] >= 0, {B} == ite(tree_awake_in[tid0, body_treeid[tid1]] == 1, {int(S.AWAKE)}, {int(S.ASLEEP)}))", meta={"goal": "a body of a tree is AWAKE iff its tree is awake, else ASLEEP"}))
  obs.append(R.obligation("_update_sleep_bodies#static_bodies", f"implies(body_treeid[tid1] < 0, {B} == ite(body_mocapid[body_rootid[tid1]] >= 0 or flg_staticawake != 0, {int(S.AWAKE)}, {int(S.STATIC)}))", meta={"goal": "a static body is STATIC, or AWAKE under a mocap root / when asked"}))
  return obs


def g_wake(tier):
  key = "sleep:_wake_kernel"
  rc = _Rec(CAN, ensures=[])

  class RecW(FuncContract):
    def apply(self, ex, args, kw, fr, e):
      self.__dict__.setdefault("calls", []).append((args, None, ex.guard_now(fr)))
      return None

  rw = RecW("sleep:_wake_tree", ensures=[])
  R = Run(key, contracts={CAN: rc, "sleep:_wake_tree": rw})
  obs = [canary(R, "_wake_kernel#canary")]
  cc, wc = getattr(rc, "calls", []), getattr(rw, "calls", [])
  ok = len(cc) == 1 and len(wc) == 1
  obs.append(Result(oid="_wake_kernel#calls", status="discharged" if ok else "violated", kind="contract", func=key, backend="analysis", meta={"function": key, "goal": "one verdict from _tree_can_sleep, one call site of _wake_tree"}))
  if not ok:
    return obs
  can = zb(cc[0][1])
  args, _, g = wc[0]
  K = _kawake()
  want = z3.And(R.term("old(tree_asleep_out[tid0, tid1]) >= 0"), z3.Or(R.term("tree_awake_in[tid0, tid1] == 1"), z3.Not(can)))
  obs.append(R.obligation("_wake_kernel#wakes_exactly_when_disturbed", zb(g) == want, meta={"goal": "_wake_tree is called exactly for a sleeping tree whose awake flag is set or which may not sleep (applied force or any velocity, zero tolerance)"}))
  obs.append(R.obligation("_wake_kernel#wakes_own_tree_with_K", z3.Implies(zb(g), z3.And(lift(args[1]) == R.term("tid0"), lift(args[2]) == R.term("tid1"), lift(args[3]) == K)), meta={"goal": f"... for its own world and tree, with wake value K_AWAKE_VAL = {K}"}))
  obs.append(R.obligation("_wake_kernel#zero_tolerance", lift(cc[0][0][-1], "float") == 0, meta={"goal": "the wake test uses zero tolerance (any velocity wakes)"}))
  return obs


def g_frozen(tier):
  from wpv.consts import enum_namespace

  J = enum_namespace().JointType
  obs = []
  R = Run("forward:_next_velocity", args={"$alias": {"qvel_out": "qvel_in"}})
  obs.append(R.obligation("_next_velocity#zero_acceleration_keeps_velocity", "implies(qacc_in[tid0, tid1] == 0.0, qvel_out[tid0, tid1] == old(qvel_in[tid0, tid1]))", meta={"goal": "a DOF with zero acceleration keeps its velocity"}))
  R = Run("forward:_next_position", args={"$alias": {"qpos_out": "qpos_in"}})
  adr, dof = "jnt_qposadr[tid1]", "jnt_dofadr[tid1]"
  still = lambda n: " and ".join(f"qvel_in[tid0, {dof} + {k}] == 0.0" for k in range(n))
  obs.append(R.obligation("_next_position#frozen_hinge_slide", f"implies((jnt_type[tid1] == {int(J.HINGE)} or jnt_type[tid1] == {int(J.SLIDE)}) and {still(1)}, qpos_out[tid0, {adr}] == old(qpos_in[tid0, {adr}]))", meta={"goal": "a hinge / slide coordinate with zero velocity does not move"}))
  obs.append(R.obligation("_next_position#frozen_free_position", f"implies(jnt_type[tid1] == {int(J.FREE)} and {still(3)}, " + " and ".join(f"qpos_out[tid0, {adr} + {k}] == old(qpos_in[tid0, {adr} + {k}])" for k in range(3)) + ")", meta={"goal": "a free joint with zero linear velocity keeps its position"}))
  return obs


def groups(tier):
  return [("sweep", g_sweep), ("can_sleep", g_can_sleep), ("island", g_island), ("update", g_update), ("wake", g_wake), ("frozen", g_frozen)]
