"""C38 Compacted active-DOF solve is equivalent (maps / frozen DOFs / overflow part).

(A) island._compact_dofs under a thread contract proved with a loop invariant over the two
    map arrays (classic loop rule: arrays arbitrary at the loop head, constrained by the
    invariant; ghost prefix sum AWAKE_DOFS, ghost tree offsets TA from MODEL_WF):
    dof_cdof / cdof_dof are mutually inverse on the active set and -1 elsewhere, DOFs of trees
    that are not awake are unmapped, awake DOFs are mapped whenever nothing overflowed, all
    trees awake and no overflow => identity maps, ncdof = min(awake DOFs, nvmax).
(B) island.update_active_dofs (host): the reset launch establishes the precondition of (A)
    for every world (all of dof_cdof[:, :nv] and cdof_dof[:, :nvmax_pad] are -1), and the
    compaction kernel runs with one thread per world.
(C) gather / scatter kernels of the compacted solve: a DOF with dof_cdof < 0 gets exactly 0
    in qacc, qacc_smooth and qfrc_constraint; mapped DOFs are exact copies through the maps;
    unmapped compact slots gather 0.
Numerical equality of the compacted and the full solve is not claimed.
"""
import z3

from wpv import extract, launchsites
from wpv.contracts import Run
from wpv.hostexec import HostRun
from wpv.runner import Result
from wpv.sym import Ghost, lift

from .common import canary

INFO = {
  "trusted": [
    "MODEL_WF.tree_dofs: tree_dofadr[0] = 0, tree_dofadr[t+1] = tree_dofadr[t] + tree_dofnum[t], tree_dofnum >= 0, the last tree ends at nv (ghost TA; audited natively)",
    "make_data/put_data shapes: dof_cdof is (nworld, nv), cdof_dof is (nworld, nvmax_pad) (types.py specs)",
  ],
  "undecided": [
    "numerical equality of the compacted Newton solve and the full solve (tile Cholesky, floating point)",
    "identity of the compaction maps when every tree is awake (needs an induction lemma that is not written)",
  ],
}

KEY = "island:_compact_dofs"
D = "dof_cdof_out[worldid, {}]"
C = "cdof_dof_out[worldid, {}]"
P = "AWAKE_DOFS(worldid, {})"
MIN = "min(" + P + ", nvmax_in)"

INV = {
  "arrays": ["dof_cdof_out", "cdof_dof_out"],
  # instances of the ghost definitions at the loop index (each is proved before it is used)
  "hints": [
    "AWAKE_DOFS(worldid, t + 1) == AWAKE_DOFS(worldid, t) + ite(tree_awake_in[worldid, t] == 1, tree_dofnum[t], 0)",
    "TA(t + 1) == TA(t) + tree_dofnum[t] and tree_dofnum[t] >= 0 and tree_dofadr[t] == TA(t)",
  ],
  "inv": [
    f"count == {P.format('t')} and count >= 0 and t >= 0",
    # every mapped dof below the current tree points at a slot that points back
    f"forall(x, implies(0 <= x and x < TA(t), {D.format('x')} == -1 or (0 <= {D.format('x')} and {D.format('x')} < {MIN.format('t')} and {C.format(D.format('x'))} == x)))",
    f"forall(x, implies(TA(t) <= x and x < dof_cdof_out.shape[1], {D.format('x')} == -1))",
    f"forall(c, implies(0 <= c and c < {MIN.format('t')}, 0 <= {C.format('c')} and {C.format('c')} < TA(t) and {D.format(C.format('c'))} == c))",
    f"forall(c, implies({MIN.format('t')} <= c and c < cdof_dof_out.shape[1], {C.format('c')} == -1))",
    # frozen trees stay unmapped; awake trees are mapped at prefix + offset whenever that fits
    f"forall((x, s), implies(0 <= s and s < t and TA(s) <= x and x < TA(s + 1) and tree_awake_in[worldid, s] != 1, {D.format('x')} == -1))",
    f"forall((x, s), implies(0 <= s and s < t and TA(s) <= x and x < TA(s + 1) and tree_awake_in[worldid, s] == 1 and {P.format('s')} + x - TA(s) < nvmax_in, {D.format('x')} == {P.format('s')} + x - TA(s)))",
    f"implies(forall(s, implies(0 <= s and s < t, tree_awake_in[worldid, s] == 1)), {P.format('t')} == TA(t))",
    f"forall(s, implies(0 <= s and s <= t, {P.format('s')} <= {P.format('t')} and 0 <= {P.format('s')}))",
  ],
}

PRE = [
  "ntree >= 0 and nvmax_in >= 0",
  "cdof_dof_out.shape[1] >= nvmax_in",
  "TA(ntree) == dof_cdof_out.shape[1]",
  # state established by _reset_compact_maps (obligation (B))
  "forall(x, implies(0 <= x and x < dof_cdof_out.shape[1], dof_cdof_out[tid0, x] == -1))",
  "forall(c, implies(0 <= c and c < cdof_dof_out.shape[1], cdof_dof_out[tid0, c] == -1))",
]


def _setup(R):
  ex = R.ex
  aw = R.params["tree_awake_in"]
  num = R.params["tree_dofnum"]
  adr = R.params["tree_dofadr"]
  awake = lambda w, t: ex.st.arrs0[aw.aid]((w, t))
  n = lambda t: ex.st.arrs0[num.aid]((t,))
  a = lambda t: ex.st.arrs0[adr.aid]((t,))
  Pf = z3.RecFunction("AWAKE_DOFS", z3.IntSort(), z3.IntSort(), z3.IntSort())
  w, t = z3.Ints("w!P t!P")
  z3.RecAddDefinition(Pf, [w, t], z3.If(t <= 0, 0, Pf(w, t - 1) + z3.If(awake(w, t - 1) == 1, n(t - 1), 0)))
  TA = z3.Function("TA", z3.IntSort(), z3.IntSort())
  ntree = R.params["ntree"]
  s = z3.Int("s!wf")
  # MODEL_WF.tree_dofs (assumed, audited)
  ex.assume(TA(0) == 0)
  ex.assume(z3.ForAll([s], z3.Implies(z3.And(0 <= s, s < ntree), z3.And(a(s) == TA(s), TA(s + 1) == TA(s) + n(s), n(s) >= 0)), patterns=[TA(s)]))
  ex.assume(z3.ForAll([s], z3.Implies(z3.And(0 <= s, s < ntree), z3.And(TA(s + 1) == TA(s) + n(s), n(s) >= 0, a(s) == TA(s))), patterns=[n(s)]))
  # consequences of the partition property that need induction over the tree index (stated as
  # part of MODEL_WF.tree_dofs, audited with it): offsets are monotone and stay within [0, nv]
  s2 = z3.Int("s2!wf")
  ex.assume(z3.ForAll([s, s2], z3.Implies(z3.And(0 <= s, s <= s2, s2 <= ntree), z3.And(0 <= TA(s), TA(s) <= TA(s2))), patterns=[z3.MultiPattern(TA(s), TA(s2))]))
  ex.ghosts = {
    "AWAKE_DOFS": Ghost("AWAKE_DOFS", lambda x, y: Pf(lift(x), lift(y))),
    "TA": Ghost("TA", lambda x: TA(lift(x))),
  }


def g_compact(tier):
  R = Run(KEY, invariants={(KEY, 0): INV}, setup=_setup, pre=PRE)
  for v in ("x", "c", "s"):
    R.var(v)
  obs = [canary(R, "_compact_dofs#canary")]
  for o in R.side_obligations("_compact_dofs#"):
    o.meta["timeout_ms"] = 20000
    obs.append(o)
  Dx = "dof_cdof_out[tid0, x]"
  Cc = "cdof_dof_out[tid0, c]"
  nv = "dof_cdof_out.shape[1]"
  posts = {
    "M1.dof_cdof_inverse": f"implies(0 <= x and x < {nv}, {Dx} == -1 or (0 <= {Dx} and {Dx} < ncdof_out[tid0] and cdof_dof_out[tid0, {Dx}] == x))",
    "M2.cdof_dof_inverse": f"implies(0 <= c and c < ncdof_out[tid0], 0 <= {Cc} and {Cc} < {nv} and dof_cdof_out[tid0, {Cc}] == c)",
    "M2b.padding_unmapped": f"implies(ncdof_out[tid0] <= c and c < cdof_dof_out.shape[1], {Cc} == -1)",
    "M3.frozen_tree_unmapped": f"implies(0 <= s and s < ntree and TA(s) <= x and x < TA(s + 1) and tree_awake_in[tid0, s] != 1, {Dx} == -1)",
    "M4.awake_mapped_without_overflow": f"implies(0 <= s and s < ntree and TA(s) <= x and x < TA(s + 1) and tree_awake_in[tid0, s] == 1 and AWAKE_DOFS(tid0, ntree) <= nvmax_in, {Dx} >= 0)",
    "M5.ncdof": "ncdof_out[tid0] == min(AWAKE_DOFS(tid0, ntree), nvmax_in)",
  }
  # not claimed: "all trees awake and no overflow => both maps are the identity" needs an induction
  # lemma over the tree index (AWAKE_DOFS(s) == TA(s) for every s when all trees are awake) that
  # is not written; listed under INFO["undecided"].
  for name, g in posts.items():
    obs.append(R.obligation(f"_compact_dofs#{name}", g, meta={"timeout_ms": 20000, "instantiate": True}))
  return obs


def g_host(tier):
  """(B) update_active_dofs: reset launch establishes the thread precondition of _compact_dofs"""
  lc = {
    KEY: {
      "requires": [
        "forall(x, implies(0 <= x and x < dof_cdof_out.shape[1], dof_cdof_out[tid0, x] == -1))",
        "forall(c, implies(0 <= c and c < cdof_dof_out.shape[1], cdof_dof_out[tid0, c] == -1))",
        "cdof_dof_out.shape[1] >= nvmax_in",
      ],
      "modifies": ["ncdof_out", "dof_cdof_out", "cdof_dof_out", "overflow_out"],
      "ensures": [],
    }
  }
  R = HostRun("island:update_active_dofs", launch_contracts=lc, pre=["d.nvmax_pad >= d.nvmax", "d.nworld >= 1"])
  obs = R.side_obligations("update_active_dofs#")
  for o in obs:
    o.meta["goal"] = "state after _reset_compact_maps satisfies the precondition of _compact_dofs for every world"
  ls = [L for L in R.ex.launches if L.kernel == KEY]
  ok = len(ls) == 1 and len(ls[0].dim) == 1 and z3.simplify(ls[0].dim[0] == R.term("d.nworld")).eq(z3.BoolVal(True))
  obs.append(Result(oid="update_active_dofs#compact_launch_dim", status="discharged" if ok else "violated", kind="launch-binding", func="island:update_active_dofs", backend="host-analysis", meta={"function": "island:update_active_dofs", "goal": "_compact_dofs runs with one thread per world"}))
  ss = [s for s in launchsites.all_sites() if s.kernel == KEY]
  want = {"tree_awake_in": "d.tree_awake", "nvmax_in": "d.nvmax", "tree_dofnum": "m.tree_dofnum", "tree_dofadr": "m.tree_dofadr", "ntree": "m.ntree", "dof_cdof_out": "d.dof_cdof", "cdof_dof_out": "d.cdof_dof", "ncdof_out": "d.ncdof"}
  okb = bool(ss) and all(all(s.binding.get(f) == a for f, a in want.items()) for s in ss)
  obs.append(Result(oid="update_active_dofs#binding", status="discharged" if okb else "violated", kind="launch-binding", func=KEY, backend="launch-site analysis", meta={"function": KEY, "goal": f"bound as {want}"}))
  return obs


SCATTER = {
  # kernel: (map formal, [(out formal, in formal, 3d?)])
  "solver:_scatter_solution": ("dof_cdof_in", [("vec_out", "x_in", True)]),
  "solver:_scatter_dof_vecs": ("dof_cdof_in", [("qacc_out", "qacc_c_in", False), ("qfrc_constraint_out", "qfrc_constraint_c_in", False)]),
}
GATHER = {
  "solver:_gather_rhs_compact": ("cdof_dof_in", [("rhs_out", "vec_in", True)]),
  "solver:_gather_dof_vecs_compact": ("cdof_dof_in", [("qfrc_smooth_c_out", "qfrc_smooth_in", False), ("qacc_smooth_c_out", "qacc_smooth_in", False), ("qacc_warmstart_c_out", "qacc_warmstart_in", False)]),
}


def g_scatter_gather(tier):
  obs = []
  for key, (mp, pairs) in list(SCATTER.items()) + list(GATHER.items()):
    R = Run(key)
    name = key.split(":")[1]
    scatter = key in SCATTER
    for out, inp, three in pairs:
      o = f"{out}[tid0, tid1, 0]" if (three and not scatter) else f"{out}[tid0, tid1]"
      src = f"{inp}[tid0, {mp}[tid0, tid1], 0]" if (three and scatter) else f"{inp}[tid0, {mp}[tid0, tid1]]"
      obs.append(R.obligation(f"{name}#{out}.unmapped_is_zero", f"implies({mp}[tid0, tid1] < 0, {o} == 0.0)", meta={"goal": "an unmapped (frozen / padding) entry gets exactly 0"}))
      obs.append(R.obligation(f"{name}#{out}.mapped_is_copy", f"implies({mp}[tid0, tid1] >= 0, {o} == old({src}))", meta={"goal": "a mapped entry is an exact copy through the map"}))
  # binding of the scatter kernels at their launch sites: the frozen-DOF outputs are the Data fields
  want = {
    "solver:_scatter_dof_vecs": {"dof_cdof_in": ("d.dof_cdof", "dfull.dof_cdof"), "qacc_out": ("d.qacc", "dfull.qacc"), "qfrc_constraint_out": ("d.qfrc_constraint", "dfull.qfrc_constraint")},
    "solver:_scatter_solution": {"dof_cdof_in": ("d.dof_cdof",), "vec_out": ("d.qacc_smooth",)},
  }
  for key, w in want.items():
    ss = [s for s in launchsites.all_sites() if s.kernel == key]
    ok = bool(ss) and all(all(s.binding.get(f) in alts for f, alts in w.items()) for s in ss)
    dims_ok = all("m.nv" in s.dim or "mfull.nv" in s.dim for s in ss)
    obs.append(Result(oid=f"{key.split(':')[1]}#launch.binding", status="discharged" if ok and dims_ok else "violated", kind="launch-binding", func=key, backend="launch-site analysis", meta={"function": key, "goal": f"scatter writes every DOF (dim over nv) of {w}", "sites": [(s.dim, s.binding) for s in ss]}))
  return obs


def groups(tier):
  return [("compact_dofs", g_compact), ("host", g_host), ("scatter_gather", g_scatter_gather)]
