"""C20 Contacts are geometrically valid (exact over the reals, closed-form primitives).

Contracts on the real functions; callers are checked against callee contracts.
 (F) math.orthogonals / math.make_frame: for a non-zero normal the frame is orthonormal, right-handed, and
     its first row is the normalised normal.
 (G) closed-form primitive pairs in collision_primitive_core: plane_sphere, sphere_sphere, sphere_capsule,
     plane_capsule, plane_ellipsoid, plane_box.  Uniform geometric spec taken from the statement:
       N  the returned normal is unit and points from the first geom to the second,
       S  the two points  pos -/+ normal*dist/2  lie on the surface of the first / second geom
          (=> dist is the signed separation along the normal and pos is midway between the surfaces),
       M  they are the closest / extreme points (sphere pairs: the normal is parallel to the centre line;
          plane pairs: the point is the support point of the geom against the plane normal).
 (W) the wrappers in collision_primitive that report these pairs store make_frame(normal) of the unit normal
     returned by the core function, and the core function's dist / pos, into the contact they allocate.
"""
import z3

from wpv import extract
from wpv.contracts import FuncContract, Obligation, Run
from wpv.runner import Result
from wpv.sym import Vec, lift, zb

from .common import canary

INFO = {
  "trusted": [
    "exact over the reals (T2); sqrt/normalize by their defining axioms",
    "geoms are well-formed: radii / half sizes >= 0, plane normals and capsule axes are unit vectors, geom rotation matrices are orthonormal (produced by C23's kinematics)",
  ],
  "undecided": [
    "capsule pairs: math.closest_segment_point regularises its division by 1e-6, so the reported point is the closest point of the capsule axis only up to that regulariser; proved: it lies on the axis segment, and everything that follows from that (unit normal, dist, midpoint)",
    "plane_ellipsoid: only 'normal is the plane normal' and 'pos - n*dist/2 lies on the plane' are proved; that pos + n*dist/2 is the ellipsoid's support point stays unknown in the nonlinear solver",
    "capsule_capsule, sphere_cylinder, plane_cylinder, sphere_box, capsule_box, box_box, triangle and height-field pairs, GJK/EPA (collision_gjk) and multi-contact (convex) paths are not under contract",
    "degenerate coincident centres (sphere_sphere with dist 0): the code picks the normal (1,0,0); the unit-normal, distance and midpoint clauses are proved there too",
  ],
}

D3 = lambda a, b: "(" + " + ".join(f"{a}[{i}]*{b}[{i}]" for i in range(3)) + ")"
ROW = lambda m, i: [f"{m}[{i}, {j}]" for j in range(3)]


def _dotrows(m, i, j):
  return "(" + " + ".join(f"{m}[{i}, {k}]*{m}[{j}, {k}]" for k in range(3)) + ")"


def frame_ok(m):
  """texts: 3x3 matrix is orthonormal and right-handed"""
  cl = []
  for i in range(3):
    for j in range(i, 3):
      cl.append(f"{_dotrows(m, i, j)} == {1.0 if i == j else 0.0}")
  e = lambda i, j: f"{m}[{i}, {j}]"
  det = f"{e(0,0)}*({e(1,1)}*{e(2,2)} - {e(1,2)}*{e(2,1)}) - {e(0,1)}*({e(1,0)}*{e(2,2)} - {e(1,2)}*{e(2,0)}) + {e(0,2)}*({e(1,0)}*{e(2,1)} - {e(1,1)}*{e(2,0)})"
  cl.append(f"({det}) == 1.0")
  return cl


def contracts():
  C = {}
  unit = lambda v: f"{D3(v, v)} == 1.0"
  C["math:orthogonals"] = FuncContract(
    "math:orthogonals",
    ret=["vec3", "vec3"],
    requires=[unit("a")],
    ensures=[
      f"{D3('result[0]', 'result[0]')} == 1.0",
      f"{D3('result[0]', 'a')} == 0.0",
      # c = a x b, hence unit and orthogonal to both
      "result[1][0] == a[1]*result[0][2] - a[2]*result[0][1] and result[1][1] == a[2]*result[0][0] - a[0]*result[0][2] and result[1][2] == a[0]*result[0][1] - a[1]*result[0][0]",
      f"{D3('result[1]', 'result[1]')} == 1.0",
      f"{D3('result[1]', 'a')} == 0.0 and {D3('result[1]', 'result[0]')} == 0.0",
    ],
  )
  nz = f"{D3('a', 'a')} > 0.0"
  C["math:make_frame"] = FuncContract(
    "math:make_frame",
    ret="mat33",
    requires=[nz],
    ensures=frame_ok("result")
    + [
      # first row is the normalised argument:  row0 * |a| == a  with |a| > 0
      "result[0, 0]*wp.length(a) == a[0] and result[0, 1]*wp.length(a) == a[1] and result[0, 2]*wp.length(a) == a[2]",
    ],
  )
  C["collision_primitive_core:plane_sphere"] = FuncContract(
    "collision_primitive_core:plane_sphere",
    requires=[unit("plane_normal"), "sphere_radius >= 0.0"],
    ensures=[
      # S: pos + n*dist/2 is the sphere's surface point towards the plane, pos - n*dist/2 lies on the plane
      "result[1][0] + plane_normal[0]*(0.5*result[0]) == sphere_pos[0] - plane_normal[0]*sphere_radius and result[1][1] + plane_normal[1]*(0.5*result[0]) == sphere_pos[1] - plane_normal[1]*sphere_radius and result[1][2] + plane_normal[2]*(0.5*result[0]) == sphere_pos[2] - plane_normal[2]*sphere_radius",
      "(result[1][0] - plane_normal[0]*(0.5*result[0]) - plane_pos[0])*plane_normal[0] + (result[1][1] - plane_normal[1]*(0.5*result[0]) - plane_pos[1])*plane_normal[1] + (result[1][2] - plane_normal[2]*(0.5*result[0]) - plane_pos[2])*plane_normal[2] == 0.0",
      # dist is the signed distance of the sphere surface from the plane
      f"result[0] == (sphere_pos[0] - plane_pos[0])*plane_normal[0] + (sphere_pos[1] - plane_pos[1])*plane_normal[1] + (sphere_pos[2] - plane_pos[2])*plane_normal[2] - sphere_radius",
    ],
  )
  C["collision_primitive_core:sphere_sphere"] = FuncContract(
    "collision_primitive_core:sphere_sphere",
    requires=["radius1 >= 0.0", "radius2 >= 0.0"],
    ensures=[
      unit("result[2]"),
      # M: the normal points along the centre line from sphere 1 to sphere 2
      "pos2[0] - pos1[0] == result[2][0]*wp.length(pos2 - pos1) and pos2[1] - pos1[1] == result[2][1]*wp.length(pos2 - pos1) and pos2[2] - pos1[2] == result[2][2]*wp.length(pos2 - pos1)",
      "result[0] == wp.length(pos2 - pos1) - radius1 - radius2",
      # S: surface points of the two spheres along the normal
      "result[1][0] - result[2][0]*(0.5*result[0]) == pos1[0] + result[2][0]*radius1 and result[1][1] - result[2][1]*(0.5*result[0]) == pos1[1] + result[2][1]*radius1 and result[1][2] - result[2][2]*(0.5*result[0]) == pos1[2] + result[2][2]*radius1",
      "result[1][0] + result[2][0]*(0.5*result[0]) == pos2[0] - result[2][0]*radius2 and result[1][1] + result[2][1]*(0.5*result[0]) == pos2[1] - result[2][1]*radius2 and result[1][2] + result[2][2]*(0.5*result[0]) == pos2[2] - result[2][2]*radius2",
    ],
  )
  # closest_segment_point: the result is a point of the segment (t in [0,1]); minimality only up to the 1e-6 regulariser
  C["math:closest_segment_point"] = FuncContract(
    "math:closest_segment_point",
    ghosts={"s": "float"},
    witness={"s": "wp.clamp(t, 0.0, 1.0)"},
    ensures=[
      # exists s in [0, 1]:  result == a + s*(b - a)
      "0.0 <= s and s <= 1.0",
      "result[0] == a[0] + s*(b[0] - a[0]) and result[1] == a[1] + s*(b[1] - a[1]) and result[2] == a[2] + s*(b[2] - a[2])",
    ],
  )
  nn = FuncContract(
    "math:normalize_with_norm",
    ret=["vec3", "float"],
    ghosts={"inv": "float"},
    witness={"inv": "1.0 / norm"},
    ensures=[
      # explicit form (there is inv with inv*norm == 1 and result == x*inv): lets the solver eliminate the result
      "implies(result[1] > 0.0, inv*result[1] == 1.0 and result[0][0] == x[0]*inv and result[0][1] == x[1]*inv and result[0][2] == x[2]*inv)",
      "result[1] >= 0.0 and result[1]*result[1] == x[0]*x[0] + x[1]*x[1] + x[2]*x[2]",
      "implies(result[1] > 0.0, result[0][0]*result[1] == x[0] and result[0][1]*result[1] == x[1] and result[0][2]*result[1] == x[2])",
      f"implies(result[1] > 0.0, {D3('result[0]', 'result[0]')} == 1.0)",
      "implies(result[1] == 0.0, result[0][0] == x[0] and result[0][1] == x[1] and result[0][2] == x[2])",
    ],
  )
  nn.param_types = {"x": "vec3"}
  C["math:normalize_with_norm"] = nn
  return C


def g_frames(tier):
  C = contracts()
  obs = []
  # Lagrange's identity |a x b|^2 == |a|^2 |b|^2 - (a.b)^2 for the returned pair (b, c = a x b)
  cross = ["(a[1]*result[0][2] - a[2]*result[0][1])", "(a[2]*result[0][0] - a[0]*result[0][2])", "(a[0]*result[0][1] - a[1]*result[0][0])"]
  lagrange = " + ".join(f"{c}*{c}" for c in cross) + f" == {D3('a', 'a')}*{D3('result[0]', 'result[0]')} - {D3('a', 'result[0]')}*{D3('a', 'result[0]')}"
  obs += C["math:orthogonals"].verify(timeout_ms=30000, lemmas=[lagrange], chain=True, cases=["-0.5 < a[1] and a[1] < 0.5", "a[1] <= -0.5", "a[1] >= 0.5"])
  # det[a; b; c] == (a x b).c
  e = lambda i, j: f"result[{i}, {j}]"
  det = f"{e(0,0)}*({e(1,1)}*{e(2,2)} - {e(1,2)}*{e(2,1)}) - {e(0,1)}*({e(1,0)}*{e(2,2)} - {e(1,2)}*{e(2,0)}) + {e(0,2)}*({e(1,0)}*{e(2,1)} - {e(1,1)}*{e(2,0)})"
  triple = f"({det}) == ({e(0,1)}*{e(1,2)} - {e(0,2)}*{e(1,1)})*{e(2,0)} + ({e(0,2)}*{e(1,0)} - {e(0,0)}*{e(1,2)})*{e(2,1)} + ({e(0,0)}*{e(1,1)} - {e(0,1)}*{e(1,0)})*{e(2,2)}"
  obs += C["math:make_frame"].verify(contracts={"math:orthogonals": C["math:orthogonals"]}, timeout_ms=30000, lemmas=[triple])
  obs.append(Result(oid="make_frame#uses_orthogonals", status="discharged" if C["math:orthogonals"].uses else "violated", kind="contract", func="math:make_frame", backend="analysis", meta={"function": "math:make_frame", "goal": "make_frame completes the frame through math.orthogonals (the function under contract)"}))
  return obs


def g_core(tier):
  C = contracts()
  obs = []
  obs += C["collision_primitive_core:plane_sphere"].verify(timeout_ms=30000)
  obs += C["collision_primitive_core:sphere_sphere"].verify(timeout_ms=30000)
  obs += C["math:closest_segment_point"].verify(timeout_ms=30000)
  obs += C["math:normalize_with_norm"].verify(timeout_ms=30000, chain=True)
  return obs


def g_sphere_capsule(tier):
  """sphere_capsule against the contracts of closest_segment_point and sphere_sphere"""
  C = contracts()
  key = "collision_primitive_core:sphere_capsule"
  cc = {k: C[k] for k in ("math:closest_segment_point", "collision_primitive_core:sphere_sphere")}
  R = Run(key, contracts=cc, pre=["sphere_radius >= 0.0", "capsule_radius >= 0.0", "capsule_half_length >= 0.0", f"{D3('capsule_axis', 'capsule_axis')} == 1.0"])
  obs = [canary(R, "sphere_capsule#canary")]
  obs += R.side_obligations("sphere_capsule#")
  # the result is exactly sphere_sphere(sphere, sphere of radius capsule_radius centred at a point q of the axis segment)
  q = "(result[1] + result[2]*(0.5*result[0]) + result[2]*capsule_radius)"  # centre of the capsule-side sphere
  obs.append(R.obligation("sphere_capsule#normal_unit", f"{D3('result[2]', 'result[2]')} == 1.0"))
  obs.append(R.obligation("sphere_capsule#sphere_surface_point", "result[1][0] - result[2][0]*(0.5*result[0]) == sphere_pos[0] + result[2][0]*sphere_radius and result[1][1] - result[2][1]*(0.5*result[0]) == sphere_pos[1] + result[2][1]*sphere_radius and result[1][2] - result[2][2]*(0.5*result[0]) == sphere_pos[2] + result[2][2]*sphere_radius", meta={"goal": "pos - n*dist/2 is the sphere's surface point along the normal"}))
  # capsule side: pos + n*dist/2 + n*r_c is a point of the axis segment  |(q - c).axis| <= half_length and (q - c) parallel to axis
  for i, j in ((0, 1), (0, 2), (1, 2)):
    obs.append(R.obligation(f"sphere_capsule#capsule_point_on_axis.{i}{j}", f"({q}[{i}] - capsule_pos[{i}])*capsule_axis[{j}] == ({q}[{j}] - capsule_pos[{j}])*capsule_axis[{i}]", meta={"goal": "pos + n*(dist/2 + capsule radius) lies on the capsule's axis line"}))
  along = " + ".join(f"({q}[{i}] - capsule_pos[{i}])*capsule_axis[{i}]" for i in range(3))
  obs.append(R.obligation("sphere_capsule#capsule_point_within_segment", f"({along}) <= capsule_half_length and ({along}) >= -capsule_half_length", meta={"goal": "... within the capsule's half length"}))
  obs.append(Result(oid="sphere_capsule#uses_callee_contracts", status="discharged" if all(c.uses for c in cc.values()) else "violated", kind="contract", func=key, backend="analysis", meta={"function": key, "goal": "sphere_capsule is sphere_sphere against the closest point of the capsule axis"}))
  return obs


def g_plane_capsule(tier):
  C = contracts()
  key = "collision_primitive_core:plane_capsule"
  cc = {"collision_primitive_core:plane_sphere": C["collision_primitive_core:plane_sphere"], "math:normalize_with_norm": C["math:normalize_with_norm"]}
  R = Run(key, contracts=cc, pre=[f"{D3('plane_normal', 'plane_normal')} == 1.0", f"{D3('capsule_axis', 'capsule_axis')} == 1.0", "capsule_radius >= 0.0", "capsule_half_length >= 0.0"])
  vec = lambda name, v: [f"{name}[{i}] == {float(x)}" for i, x in enumerate(v)]
  upright = vec("plane_normal", (0, 0, 1)) + vec("capsule_axis", (0, 0, 1)) + vec("plane_pos", (0, 0, 0)) + vec("capsule_pos", (0, 0, 1)) + ["capsule_radius == 0.5", "capsule_half_length == 1.0"]
  lying = vec("plane_normal", (0, 0, 1)) + vec("capsule_axis", (1, 0, 0)) + vec("plane_pos", (0, 0, 0)) + vec("capsule_pos", (0, 0, 1)) + ["capsule_radius == 0.5", "capsule_half_length == 1.0"]
  obs = [canary(R, "plane_capsule#canary", hints=[lying, upright])]
  obs += R.side_obligations("plane_capsule#")
  # proof structure: case split on the fallback branch; the second axis b is unit and orthogonal to n (proved
  # first), then the third axis c = n x b by Lagrange's identity and the triple-product identity (lemmas, valid
  # without hypotheses), each clause may use the ones before it
  F = "result[2]"
  row = lambda i: [f"{F}[{i}, {j}]" for j in range(3)]
  dot = lambda u, v: "(" + " + ".join(f"{a}*{b}" for a, b in zip(u, v)) + ")"
  n_, b_, c_ = row(0), row(1), row(2)
  cross = [f"({n_[1]}*{b_[2]} - {n_[2]}*{b_[1]})", f"({n_[2]}*{b_[0]} - {n_[0]}*{b_[2]})", f"({n_[0]}*{b_[1]} - {n_[1]}*{b_[0]})"]
  lagrange = f"{dot(cross, cross)} == {dot(n_, n_)}*{dot(b_, b_)} - {dot(n_, b_)}*{dot(n_, b_)}"
  e = lambda i, j: f"{F}[{i}, {j}]"
  det = f"{e(0,0)}*({e(1,1)}*{e(2,2)} - {e(1,2)}*{e(2,1)}) - {e(0,1)}*({e(1,0)}*{e(2,2)} - {e(1,2)}*{e(2,0)}) + {e(0,2)}*({e(1,0)}*{e(2,1)} - {e(1,1)}*{e(2,0)})"
  triple = f"({det}) == {dot(cross, c_)}"
  lem = []
  scale = f"b_norm*{dot(n_, b_)} == " + " + ".join(f"{n_[i]}*({b_[i]}*b_norm)" for i in range(3))
  for i, text in enumerate((lagrange, triple, scale)):
    t = zb(R.term(text))
    lem.append(t)
    obs.append(Obligation(f"plane_capsule#lemma.{i}", [], t, func=key, kind="lemma", meta={"function": key, "source_hash": R.info.source_hash, "goal": "identity (valid without hypotheses): " + text[:120]}))
  # (clause, text, indices of the lemmas it needs: handing the solver only the identities a step uses keeps each
  # nonlinear query small)
  steps = [
    ("n_unit", f"{dot(n_, n_)} == 1.0", []),
    ("b_orthogonal_to_n", f"{dot(n_, b_)} == 0.0", [2]),
    ("b_unit", f"{dot(b_, b_)} == 1.0", []),
    ("c_is_n_cross_b", " and ".join(f"{c_[i]} == {cross[i]}" for i in range(3)), []),
    ("c_unit", f"{dot(c_, c_)} == 1.0", [0]),
    ("c_orthogonal", f"{dot(n_, c_)} == 0.0 and {dot(b_, c_)} == 0.0", []),
    ("right_handed", f"({det}) == 1.0", [1]),
  ]
  obs.append(R.obligation("plane_capsule#frame.cases_exhaustive", "(b_norm >= 0.5 and b_norm > 0.0) or b_norm < 0.5", meta={"goal": "the case split of the frame proof is exhaustive"}))
  proved = []
  for name, text, use in steps:
    for case, hyp in (("regular", "b_norm >= 0.5 and b_norm > 0.0"), ("fallback", "b_norm < 0.5")):
      obs.append(R.obligation(f"plane_capsule#frame.{name}[{case}]", text, extra_assume=[hyp] + [lem[i] for i in use] + proved, meta={"goal": f"contact frame: {name} ({case} branch: capsule axis {'not ' if case == 'regular' else ''}within 30 degrees of the plane normal)", "timeout_ms": 60000}))
    proved.append(zb(R.term(text)))
  obs.append(R.obligation("plane_capsule#frame.first_row_is_normal", "result[2][0, 0] == plane_normal[0] and result[2][0, 1] == plane_normal[1] and result[2][0, 2] == plane_normal[2]"))
  for k, sgn in ((0, "+"), (1, "-")):
    end = [f"(capsule_pos[{i}] {sgn} capsule_axis[{i}]*capsule_half_length)" for i in range(3)]
    d = " + ".join(f"({end[i]} - plane_pos[{i}])*plane_normal[{i}]" for i in range(3))
    obs.append(R.obligation(f"plane_capsule#dist{k}", f"result[0][{k}] == ({d}) - capsule_radius", meta={"goal": "distance of the end cap's surface from the plane"}))
    on_plane = " + ".join(f"(result[1][{k}, {i}] - plane_normal[{i}]*(0.5*result[0][{k}]) - plane_pos[{i}])*plane_normal[{i}]" for i in range(3))
    obs.append(R.obligation(f"plane_capsule#pos{k}.plane_side", f"({on_plane}) == 0.0", meta={"goal": "pos - n*dist/2 lies on the plane"}))
    cap = " and ".join(f"result[1][{k}, {i}] + plane_normal[{i}]*(0.5*result[0][{k}]) == {end[i]} - plane_normal[{i}]*capsule_radius" for i in range(3))
    obs.append(R.obligation(f"plane_capsule#pos{k}.capsule_side", cap, meta={"goal": "pos + n*dist/2 is the end cap's surface point towards the plane"}))
  return obs


def g_plane_ellipsoid(tier):
  key = "collision_primitive_core:plane_ellipsoid"
  cols = lambda m, i, j: "(" + " + ".join(f"{m}[{k}, {i}]*{m}[{k}, {j}]" for k in range(3)) + ")"
  R = Run(key, pre=[f"{D3('plane_normal', 'plane_normal')} == 1.0", "ellipsoid_size[0] > 0.0 and ellipsoid_size[1] > 0.0 and ellipsoid_size[2] > 0.0"] + [f"{_dotrows('ellipsoid_rot', i, j)} == {1.0 if i == j else 0.0}" for i in range(3) for j in range(i, 3)] + [f"{cols('ellipsoid_rot', i, j)} == {1.0 if i == j else 0.0}" for i in range(3) for j in range(i, 3)])
  vec = lambda name, v: [f"{name}[{i}] == {float(x)}" for i, x in enumerate(v)]
  ident = [f"ellipsoid_rot[{i}, {j}] == {1.0 if i == j else 0.0}" for i in range(3) for j in range(3)]
  obs = [canary(R, "plane_ellipsoid#canary", hints=[vec("plane_normal", (0, 0, 1)) + vec("plane_pos", (0, 0, 0)) + vec("ellipsoid_pos", (0, 0, 2)) + vec("ellipsoid_size", (1, 2, 1)) + ident])]
  obs.append(R.obligation("plane_ellipsoid#normal_is_plane_normal", "result[2][0] == plane_normal[0] and result[2][1] == plane_normal[1] and result[2][2] == plane_normal[2]"))
  # not decided: "pos + n*dist/2 lies on the ellipsoid and is its support point against n" (nonlinear query with the
  # normalisation and the rotation stays unknown after 240 s) -- listed under undecided
  on_plane = " + ".join(f"(result[1][{i}] - plane_normal[{i}]*(0.5*result[0]) - plane_pos[{i}])*plane_normal[{i}]" for i in range(3))
  obs.append(R.obligation("plane_ellipsoid#plane_side_on_plane", f"({on_plane}) == 0.0", meta={"goal": "pos - n*dist/2 lies on the plane", "timeout_ms": 60000}))
  return obs


def g_plane_box(tier):
  key = "collision_primitive_core:plane_box"
  R = Run(key, pre=[f"{D3('plane_normal', 'plane_normal')} == 1.0", "box_size[0] >= 0.0 and box_size[1] >= 0.0 and box_size[2] >= 0.0"])
  obs = [canary(R, "plane_box#canary")]
  obs.append(R.obligation("plane_box#normal_is_plane_normal", "result[2][0] == plane_normal[0] and result[2][1] == plane_normal[1] and result[2][2] == plane_normal[2]"))
  for k in range(8):
    sg = [("+" if (k >> i) & 1 else "-") for i in range(3)]
    corner = ["(box_pos[%d] + " % r + " + ".join(f"box_rot[{r}, {c}]*({sg[c]}box_size[{c}])" for c in range(3)) + ")" for r in range(3)]
    d = " + ".join(f"({corner[i]} - plane_pos[{i}])*plane_normal[{i}]" for i in range(3))
    obs.append(R.obligation(f"plane_box#corner{k}.dist", f"result[0][{k}] == {d}", meta={"goal": "distance of box corner k from the plane"}))
    box_side = " and ".join(f"result[1][{k}, {i}] + plane_normal[{i}]*(0.5*result[0][{k}]) == {corner[i]}" for i in range(3))
    obs.append(R.obligation(f"plane_box#corner{k}.box_side", box_side, meta={"goal": "pos + n*dist/2 is the box corner"}))
    on_plane = " + ".join(f"(result[1][{k}, {i}] - plane_normal[{i}]*(0.5*result[0][{k}]) - plane_pos[{i}])*plane_normal[{i}]" for i in range(3))
    obs.append(R.obligation(f"plane_box#corner{k}.plane_side", f"({on_plane}) == 0.0", meta={"goal": "pos - n*dist/2 lies on the plane"}))
  return obs


class _Recording(FuncContract):
  def apply(self, ex, args, kw, fr, e):
    r = super().apply(ex, args, kw, fr, e)
    self.__dict__.setdefault("calls", []).append((args, r))
    return r


def _sphere_box_cases():
  MINVAL = __import__("wpv.consts", fromlist=["x"]).CONSTS["consts"]["MJ_MINVAL"]
  c = "sphere_pos"
  inside = " and ".join(f"abs({c}[{i}]) <= box_size[{i}]" for i in range(3))
  outside = " or ".join(f"abs({c}[{i}]) > box_size[{i}] + {MINVAL}" for i in range(3))
  return inside, outside


def g_sphere_box_local(tier):
  """sphere_box in the box frame (box_rot = identity, box_pos = 0; the general pose is g_sphere_box_pose)"""
  key = "collision_primitive_core:sphere_box"
  I = Vec((3, 3), [1.0, 0.0, 0.0, 0.0, 1.0, 0.0, 0.0, 0.0, 1.0])
  Z = Vec((3,), [0.0, 0.0, 0.0])
  inside, outside = _sphere_box_cases()
  obs = []
  c = "sphere_pos"
  n, pos, dist = "result[2]", "result[1]", "result[0]"
  q = [f"({pos}[{i}] + {n}[{i}]*(0.5*{dist}))" for i in range(3)]  # box-side point
  p = [f"({pos}[{i}] - {n}[{i}]*(0.5*{dist}))" for i in range(3)]  # sphere-side point
  for case, hyp in (("inside", inside), ("outside", outside)):
    nn0 = contracts()["math:normalize_with_norm"]
    nn = _Recording("math:normalize_with_norm", ret=nn0.ret, ghosts=nn0.ghosts, witness=nn0.witness, requires=nn0.requires, ensures=nn0.ensures)
    nn.param_types = nn0.param_types
    R = Run(key, args={"box_rot": I, "box_pos": Z}, contracts={"math:normalize_with_norm": nn}, pre=["sphere_radius >= 0.0", "box_size[0] > 0.0 and box_size[1] > 0.0 and box_size[2] > 0.0", hyp])
    tag = f"sphere_box[box frame, centre {case}]"
    hint = [f"box_size[{i}] == 1.0" for i in range(3)] + ["sphere_radius == 0.5"] + ([f"{c}[0] == 0.5", f"{c}[1] == 0.25", f"{c}[2] == 0.0"] if case == "inside" else [f"{c}[0] == 2.0", f"{c}[1] == 0.25", f"{c}[2] == 0.0"])
    obs.append(canary(R, f"{tag}#canary", hints=[hint]))
    obs += R.side_obligations(tag + "#")
    extra = []
    calls = getattr(nn, "calls", [])
    if case == "outside" and len(calls) == 1:
      # first step: the centre is farther than MJ_MINVAL from the box (so the code takes its outside branch);
      # the later clauses may use it (it is itself an obligation)
      norm = calls[0][1][1]
      MINVAL = __import__("wpv.consts", fromlist=["x"]).CONSTS["consts"]["MJ_MINVAL"]
      far = z3.And(norm > lift(MINVAL, "float"), norm > 0)
      obs.append(R.obligation(f"{tag}#centre_is_outside", far, meta={"goal": "distance of the centre from the box exceeds MJ_MINVAL", "timeout_ms": 30000}))
      extra = [norm > lift(MINVAL, "float"), norm > 0]
    o = lambda name, text, goal: obs.append(R.obligation(f"{tag}#{name}", text, extra_assume=extra, meta={"goal": goal, "timeout_ms": 30000}))
    o("normal_unit", f"{D3(n, n)} == 1.0", "the normal is a unit vector")
    o("sphere_side", " and ".join(f"{p[i]} == {c}[{i}] + {n}[{i}]*sphere_radius" for i in range(3)), "pos - n*dist/2 is the sphere's surface point along the normal (normal points from the sphere to the box)")
    o("box_side_within", " and ".join(f"abs({q[i]}) <= box_size[{i}]" for i in range(3)), "pos + n*dist/2 lies within the box ...")
    o("box_side_on_face", " or ".join(f"abs({q[i]}) == box_size[{i}]" for i in range(3)), "... on one of its faces")
    if case == "outside":
      o("closest_point", " and ".join(f"{q[i]} == max(-box_size[{i}], min(box_size[{i}], {c}[{i}]))" for i in range(3)), "the box-side point is the point of the box closest to the sphere centre")
    else:
      depth = "min(box_size[0] - abs(sphere_pos[0]), min(box_size[1] - abs(sphere_pos[1]), box_size[2] - abs(sphere_pos[2])))"
      o("nearest_face", f"{dist} == -({depth}) - sphere_radius", "centre inside: the distance is minus (depth of the centre below the nearest face + radius)")
      o("box_side_is_projection", " and ".join(f"({q[i]} == {c}[{i}] or abs({q[i]}) == box_size[{i}])" for i in range(3)) + " and " + " and ".join(f"({q[i]})*{c}[{i}] >= 0.0" for i in range(3)), "the box-side point is the projection of the centre onto a face on the centre's own side")
  return obs


def g_sphere_box_pose(tier):
  """pose covariance: sphere_box for a general box pose (R, b) equals the box-frame computation on R^T (s - b),
  mapped back by p -> b + R p, n -> R n (a two-run relational obligation on the real function)"""
  key = "collision_primitive_core:sphere_box"
  R1 = Run(key)
  ex = R1.ex
  Rm, b, sp = R1.params["box_rot"], R1.params["box_pos"], R1.params["sphere_pos"]
  # centre in the box frame, as a vector of terms:  R^T (s - b)
  d = [sp.comps[i] - b.comps[i] for i in range(3)]
  centre = Vec((3,), [sum((Rm.comps[3 * k + i] * d[k] for k in range(3)), z3.RealVal(0)) for i in range(3)])
  I = Vec((3, 3), [1.0, 0.0, 0.0, 0.0, 1.0, 0.0, 0.0, 0.0, 1.0])
  Z = Vec((3,), [0.0, 0.0, 0.0])
  R2 = Run(key, args={"box_rot": I, "box_pos": Z, "sphere_pos": centre, "sphere_radius": R1.params["sphere_radius"], "box_size": R1.params["box_size"]})
  d1, p1, n1 = R1.result
  d2, p2, n2 = R2.result
  hyp = list(R1.ex.assumes) + list(R2.ex.assumes)
  obs = []
  mk = lambda oid, goal, text: obs.append(Obligation(oid, hyp, goal, func=key, kind="relational", meta={"function": key, "source_hash": R1.info.source_hash, "goal": text, "timeout_ms": 30000}))
  mk("sphere_box[pose]#dist", lift(d1, "float") == lift(d2, "float"), "the distance does not depend on the box pose")
  mk("sphere_box[pose]#normal", z3.And(*[lift(n1.comps[i], "float") == sum((Rm.comps[3 * i + k] * lift(n2.comps[k], "float") for k in range(3)), z3.RealVal(0)) for i in range(3)]), "normal = R * (box-frame normal)")
  mk("sphere_box[pose]#pos", z3.And(*[lift(p1.comps[i], "float") == b.comps[i] + sum((Rm.comps[3 * i + k] * lift(p2.comps[k], "float") for k in range(3)), z3.RealVal(0)) for i in range(3)]), "position = box_pos + R * (box-frame position)")
  return obs


# wrappers: (wrapper, core function, index of the normal in the core result or None when it is the plane normal)
WRAPPERS = {
  "collision_primitive:plane_sphere_wrapper": ("collision_primitive_core:plane_sphere", None),
  "collision_primitive:sphere_sphere_wrapper": ("collision_primitive_core:sphere_sphere", 2),
}


def g_wrapper(wkey):
  def gen(tier):
    C = contracts()
    core, nidx = WRAPPERS[wkey]
    rec_core = _Recording(core, requires=C[core].requires, ensures=C[core].ensures)
    rec_frame = _Recording("math:make_frame", ret="mat33", requires=C["math:make_frame"].requires, ensures=C["math:make_frame"].ensures)
    name = wkey.split(":")[1]
    pre = []
    if nidx is None:
      pre.append(f"{D3('plane.normal', 'plane.normal')} == 1.0")
      pre.append("sphere.size[0] >= 0.0")
    else:
      pre.append("sphere1.size[0] >= 0.0 and sphere2.size[0] >= 0.0")
    R = Run(wkey, contracts={core: rec_core, "math:make_frame": rec_frame}, pre=pre)
    ex = R.ex
    if nidx is None:
      hint = ["plane.normal[0] == 0.0", "plane.normal[1] == 0.0", "plane.normal[2] == 1.0", "sphere.size[0] == 1.0", "plane.pos[0] == 0.0", "plane.pos[1] == 0.0", "plane.pos[2] == 0.0", "sphere.pos[0] == 0.0", "sphere.pos[1] == 0.0", "sphere.pos[2] == 0.5"]
    else:
      hint = ["sphere1.size[0] == 1.0", "sphere2.size[0] == 1.0"] + [f"sphere1.pos[{i}] == 0.0" for i in range(3)] + ["sphere2.pos[0] == 1.5", "sphere2.pos[1] == 0.0", "sphere2.pos[2] == 0.0"]
    obs = [canary(R, f"{name}#canary", hints=[hint])]
    # preconditions of the callee contracts at the call sites (normal non-zero for make_frame, radii >= 0 ...)
    obs += R.side_obligations(f"{name}#")
    calls_core = getattr(rec_core, "calls", [])
    calls_frame = getattr(rec_frame, "calls", [])
    ok = len(calls_core) == 1 and len(calls_frame) == 1
    obs.append(Result(oid=f"{name}#calls", status="discharged" if ok else "violated", kind="contract", func=wkey, backend="analysis", meta={"function": wkey, "goal": "the wrapper calls the core function and make_frame exactly once"}))
    if not ok:
      return obs
    res = calls_core[0][1]
    dist, pos = res[0], res[1]
    normal = res[nidx] if nidx is not None else calls_core[0][0][0]
    farg = calls_frame[0][0][0]
    same = z3.And(*[lift(a, "float") == lift(b, "float") for a, b in zip(farg.comps, normal.comps)])
    obs.append(Obligation(f"{name}#frame_of_core_normal", list(ex.assumes), same, func=wkey, kind="post", meta={"function": wkey, "source_hash": R.info.source_hash, "goal": "make_frame is applied to the normal returned by the core function"}))
    frame = calls_frame[0][1]
    stores = {"contact_frame_out": frame, "contact_dist_out": dist, "contact_pos_out": pos}
    for formal, want in stores.items():
      ref = R.params[formal]
      ws = [a for a in ex.st.log if a.kind == "w" and a.arr is ref]
      if len(ws) != 1:
        obs.append(Result(oid=f"{name}#store.{formal}", status="violated", kind="post", func=wkey, backend="analysis", meta={"function": wkey, "goal": f"exactly one store to {formal}", "found": len(ws)}))
        continue
      v = ws[0].value
      vc = v.comps if isinstance(v, Vec) else [v]
      wc = want.comps if isinstance(want, Vec) else [want]
      g = z3.Implies(zb(ws[0].guard), z3.And(*[lift(a, "float") == lift(b, "float") for a, b in zip(vc, wc)]))
      obs.append(Obligation(f"{name}#store.{formal}", list(ex.assumes), g, func=wkey, kind="post", meta={"function": wkey, "source_hash": R.info.source_hash, "goal": f"the contact's {formal[8:-4]} is the value computed by {core.split(':')[1]} / make_frame"}))
    return obs

  return gen


def groups(tier):
  gs = [("frames", g_frames), ("core", g_core), ("sphere_capsule", g_sphere_capsule), ("plane_capsule", g_plane_capsule), ("plane_ellipsoid", g_plane_ellipsoid), ("plane_box", g_plane_box), ("sphere_box_local", g_sphere_box_local), ("sphere_box_pose", g_sphere_box_pose)]
  for w in WRAPPERS:
    gs.append((f"wrapper:{w}", g_wrapper(w)))
  return gs
