"""C16 Capacity overflow is never silent.

(1) forward._next_time: each overflow bit is set iff the corresponding demand counter exceeds
    its capacity (NEFC, BROADPHASE, NARROWPHASE exactly; NJMAX_NNZ against the demand of the
    efc_nnz allocator).
(2) island._compact_dofs: NVMAX bit iff the number of awake DOFs (ghost prefix sum over the
    trees, loop invariant) exceeds nvmax; ncdof = min(demand, nvmax).
(3) CAPACITY schema over every kernel that has a capacity parameter: allocator counters count
    DEMAND (their increments do not depend on their own capacity or on slots they returned),
    and NOOVF: if every allocation fitted (what 'no overflow bit' means by T4) every store is
    identical to the one made with any larger capacity -- the second clause of the property.
"""
import z3

from wpv import census, extract, launchsites, schemas
from wpv.contracts import Run
from wpv.runner import Result
from wpv.sym import Ghost, lift

from .common import canary

INFO = {
  "trusted": [
    "T4: the final value of an allocator counter is the sum of the increments of the step (so 'counter <= capacity' means every allocation fitted)",
    "counters are zeroed at the start of every step (C12 ACC_INIT)",
  ],
  "undecided": [
    "CCD / EPA / height-field / flex work buffers (bits CCD, EPA_HORIZON, HFIELD, CONTACT_MATCH) are not covered: their kernels are outside the dialect (closure-built function lists) or have no single demand counter",
  ],
}

BITS = {"NEFC": ("nefc_in[tid0]", "njmax_in"), "BROADPHASE": ("ncollision_in[0]", "naconmax_in"), "NARROWPHASE": ("nacon_in[0]", "naconmax_in")}


def _bit(name):
  from wpv.consts import enum_namespace

  v = int(getattr(enum_namespace().OverflowType, name))
  assert v & (v - 1) == 0
  return v.bit_length() - 1


def g_next_time(warn):
  def gen(tier):
    key = "forward:_next_time_builder._next_time"
    R = Run(key, closure={"warn_overflow": warn})
    R.var("v")
    tag = f"_next_time[warn_overflow={warn}]"
    R.require("njmax_in >= 0 and naconmax_in >= 0 and njmax_nnz_in >= 0 and nworld_in >= 1")
    obs = [canary(R, f"{tag}#canary")]
    for name, (demand, cap) in BITS.items():
      b = _bit(name)
      obs.append(R.obligation(f"{tag}#bit.{name}", f"iff(bit(overflow_out[tid0], {b}), bit(old(overflow_out[tid0]), {b}) or {demand} > {cap})"))
    # NJMAX_NNZ is decided where the demand is known (make_constraint, see g_nnz); _next_time may
    # add the bit from the rows it can see but must never clear any bit
    for name in ("NEFC", "NJMAX_NNZ", "BROADPHASE", "NARROWPHASE", "NVMAX", "ITERATIONS"):
      b = _bit(name)
      obs.append(R.obligation(f"{tag}#sticky.{name}", f"implies(bit(old(overflow_out[tid0]), {b}), bit(overflow_out[tid0], {b}))"))
    obs.append(R.obligation(f"{tag}#time", "time_out[tid0] == old(time_in[tid0]) + opt_timestep[tid0 % opt_timestep.shape[0]]"))
    obs.append(R.obligation(f"{tag}#frame.other_worlds", "implies(v != tid0, overflow_out[v] == old(overflow_out[v]) and time_out[v] == old(time_out[v]))"))
    # launch binding
    ss = [s for s in launchsites.all_sites() if s.kernel == key]
    want = {"nefc_in": "d.nefc", "njmax_in": "d.njmax", "njmax_nnz_in": "d.njmax_nnz", "naconmax_in": "d.naconmax", "nacon_in": "d.nacon", "ncollision_in": "d.ncollision", "overflow_out": "d.overflow"}
    ok = bool(ss) and all(all(s.binding.get(f) == a for f, a in want.items()) for s in ss)
    obs.append(Result(oid=f"{tag}#launch.binding", status="discharged" if ok else "violated", kind="launch-binding", func=key, backend="launch-site analysis", meta={"function": key, "goal": f"bound as {want}", "sites": [s.binding for s in ss][:2]}))
    return obs

  return gen


def g_compact_dofs(tier):
  key = "island:_compact_dofs"
  info = extract.get_func(key)

  def setup(R):
    aw = R.params["tree_awake_in"]
    num = R.params["tree_dofnum"]
    awake = lambda w, t: R.ex.st.arrs0[aw.aid]((w, t))
    n = lambda t: R.ex.st.arrs0[num.aid]((t,))
    P = z3.RecFunction("AWAKE_DOFS", z3.IntSort(), z3.IntSort(), z3.IntSort())
    w, t = z3.Ints("w!P t!P")
    z3.RecAddDefinition(P, [w, t], z3.If(t <= 0, 0, P(w, t - 1) + z3.If(awake(w, t - 1) == 1, z3.If(n(t - 1) > 0, n(t - 1), 0), 0)))
    R.ex.ghosts = {"AWAKE_DOFS": Ghost("AWAKE_DOFS", lambda a, b: P(lift(a), lift(b)))}
    R.P = P

  inv = {(key, 0): ["count == AWAKE_DOFS(worldid, t)", "count >= 0"]}
  R = Run(key, invariants=inv, setup=setup, pre=["ntree >= 0", "nvmax_in >= 0"])
  b = _bit("NVMAX")
  obs = [canary(R, "_compact_dofs#canary")]
  obs += R.side_obligations("_compact_dofs#")
  obs.append(R.obligation("_compact_dofs#bit.NVMAX", f"iff(bit(overflow_out[tid0], {b}), bit(old(overflow_out[tid0]), {b}) or AWAKE_DOFS(tid0, ntree) > nvmax_in)", meta={"goal": "NVMAX bit <=> number of awake DOFs exceeds nvmax"}))
  obs.append(R.obligation("_compact_dofs#ncdof", "ncdof_out[tid0] == ite(AWAKE_DOFS(tid0, ntree) > nvmax_in, nvmax_in, AWAKE_DOFS(tid0, ntree))", meta={"goal": "ncdof = min(awake DOFs, nvmax)"}))
  ss = [s for s in launchsites.all_sites() if s.kernel == key]
  want = {"tree_awake_in": "d.tree_awake", "nvmax_in": "d.nvmax", "tree_dofnum": "m.tree_dofnum", "ntree": "m.ntree", "overflow_out": "d.overflow", "ncdof_out": "d.ncdof"}
  ok = bool(ss) and all(all(s.binding.get(f) == a for f, a in want.items()) for s in ss)
  obs.append(Result(oid="_compact_dofs#launch.binding", status="discharged" if ok else "violated", kind="launch-binding", func=key, backend="launch-site analysis", meta={"function": key, "goal": f"bound as {want}"}))
  return obs


def g_nnz(tier):
  """NJMAX_NNZ: set iff the step's non-zero demand (final value of the efc_nnz allocator, T4)
  exceeds njmax_nnz. Demand counting by the builders is their CAPACITY.demand obligation."""
  import ast

  obs = []
  mk = extract.get_func("constraint:make_constraint")
  # the kernel that compares the allocator with the capacity: located by what it is bound to
  ss = [s for s in launchsites.all_sites() if s.host == mk.key and "d.overflow" in s.binding.values() and "d.njmax_nnz" in s.binding.values()]
  if len(ss) != 1:
    return [Result(oid="make_constraint#nnz_overflow.site", status="violated", kind="host", func=mk.key, backend="launch-site analysis", meta={"function": mk.key, "goal": "make_constraint launches exactly one kernel on (d.njmax_nnz, efc_nnz, d.overflow) that flags the nnz overflow", "found": [s.kernel for s in ss]})]
  s = ss[0]
  inv = {a: f for f, a in s.binding.items()}
  R = Run(s.kernel)
  R.var("v")
  b = _bit("NJMAX_NNZ")
  cnt, cap, ovf = inv.get("efc_nnz"), inv["d.njmax_nnz"], inv["d.overflow"]
  ok_cnt = cnt is not None
  obs.append(Result(oid="make_constraint#nnz_overflow.counter_bound", status="discharged" if ok_cnt else "violated", kind="launch-binding", func=s.kernel, backend="launch-site analysis", meta={"function": s.kernel, "goal": "the flagging kernel receives the efc_nnz allocator of this make_constraint call", "binding": s.binding}))
  if not ok_cnt:
    return obs
  obs.append(R.obligation("nnz_overflow#bit", f"iff(bit({ovf}[tid0], {b}), bit(old({ovf}[tid0]), {b}) or {cnt}[tid0] > {cap})", meta={"goal": "NJMAX_NNZ bit <=> nnz demand of the world > njmax_nnz"}))
  obs.append(R.obligation("nnz_overflow#other_bits", f"implies(not bit(old({ovf}[tid0]), {b}) and {cnt}[tid0] > {cap}, {ovf}[tid0] == old({ovf}[tid0]) + {1 << b}) and implies({cnt}[tid0] <= {cap}, {ovf}[tid0] == old({ovf}[tid0]))", meta={"goal": "no other bit changes"}))
  obs.append(R.obligation("nnz_overflow#frame", f"implies(v != tid0, {ovf}[v] == old({ovf}[v]))"))
  obs.append(Result(oid="nnz_overflow#dim", status="discharged" if s.dim.replace(" ", "") in ("d.nworld", "(d.nworld,)") else "violated", kind="launch-binding", func=s.kernel, backend="launch-site analysis", meta={"function": s.kernel, "goal": "one thread per world"}))
  # same allocator array as every sparse builder, zeroed at the start, and the flagging launch is last
  sites = [x for x in launchsites.all_sites() if x.host == mk.key]
  users = [x for x in sites if "efc_nnz" in x.binding.values()]
  first = min(users, key=lambda x: x.lineno)
  last = max(sites, key=lambda x: x.lineno)
  obs.append(Result(oid="make_constraint#nnz_overflow.last_launch", status="discharged" if last.lineno == s.lineno else "violated", kind="host-order", func=mk.key, backend="host analysis", meta={"function": mk.key, "goal": "the nnz-overflow check runs after every row builder", "last": last.kernel}))
  z = extract.get_func(first.kernel)
  Rz = Run(first.kernel)
  fz = {a: f for f, a in first.binding.items()}.get("efc_nnz")
  obs.append(Rz.obligation("make_constraint#efc_nnz.zeroed_first", f"{fz}[tid0] == 0", meta={"goal": "the first kernel of make_constraint zeroes the efc_nnz allocator"}))
  # every host path that launches a kernel allocating from efc_nnz also reaches the flagging launch:
  # host-flow events of make_constraint (source order, early returns turned into negated conditions of
  # everything after them); conds(builder launch) and m.is_sparse  =>  conds(flagging launch)
  from wpv import hostflow

  from .C37 import _atoms, _covers

  ev = [e for e in hostflow.flow(mk.key) if e.kind == "launch"]
  flag = [e for e in ev if e.kernel == s.kernel and e.lineno == s.lineno]
  if len(flag) != 1:
    obs.append(Result(oid="make_constraint#nnz_overflow.guard", status="violated", kind="host-order", func=mk.key, backend="host-flow analysis", meta={"function": mk.key, "goal": "the flagging launch is a unique event of make_constraint", "found": len(flag)}))
    return obs
  fl = flag[0]
  missed = []
  is_nnz = lambda a: a == "efc_nnz" or (a.startswith("tmp:") and ".efc_nnz@" in a)
  nb = 0
  for e in ev:
    if e is fl or not any(is_nnz(a) for a in e.binding.values()) or e.kernel == first.kernel:
      continue
    nb += 1
    need = _atoms(e) | {("m.is_sparse", True)}
    if not _covers(need, [_atoms(fl)]):
      missed.append(f"{e.kernel}@{e.lineno}: {sorted(_atoms(e))[:4]} does not imply {sorted(_atoms(fl))[:4]}")
  obs.append(Result(oid="make_constraint#nnz_overflow.guard", status="discharged" if not missed else "violated", kind="host-order", func=mk.key, backend="host-flow analysis (propositional cover, z3)", meta={"function": mk.key, "goal": "whenever a sparse row builder is launched, the nnz-overflow flagging launch is reached as well (no early return / extra condition in between)", "missed": missed[:5], "builders": nb}))
  obs.append(Result(oid="make_constraint#nnz_overflow.builders_found", status="discharged" if nb >= 5 else "crash", reason="no sparse row builder launches found in make_constraint", kind="host-order", func=mk.key, backend="host-flow analysis", meta={"function": mk.key, "goal": "the host-flow analysis sees the sparse row builders", "builders": nb}))
  return obs


def _capacity_kernels():
  out = []
  caps = set(schemas.COUNTER_CAP.values())
  for k in census.all_kernels():
    names = {a.arg for a in k.node.args.args}
    if names & caps:
      out.append(k.key)
  return out


def groups(tier):
  gs = [("next_time[False]", g_next_time(False)), ("next_time[True]", g_next_time(True)), ("compact_dofs", g_compact_dofs), ("nnz_overflow", g_nnz)]
  for k in _capacity_kernels():
    gs.append((f"capacity:{k}", schemas.kernel_group(k, ("CAPACITY",))))
  return gs
