"""C28 Constraint islands -- edge discovery and label bookkeeping (not the flood fill's reachability).

 (E) island._tree_edges (the real kernel, both Jacobian layouts): every mark is an atomic_max with value 1 into the
     thread's own world; the adjacency is marked SYMMETRICALLY (a mark at (i, j), i != j, comes with the mark at (j, i)
     under the same condition); only live rows (efcid < min(njmax, nefc)) mark anything; for a contact row between two
     geoms, the marked pair is exactly {tree of geom 1's body, tree of geom 2's body} with static bodies dropped: both
     dynamic and different -> the cross edge, equal or one static -> the self edge of the dynamic tree, both static ->
     nothing; for a connect / weld row the same with the two bodies (or the bodies of the two sites); friction-loss and
     joint-limit rows mark the self edge of their DOF's tree.
"""
import z3

from wpv import census, extract
from wpv.contracts import Run
from wpv.runner import Result
from wpv.sym import lift, zb

from .common import canary

INFO = {
  "trusted": ["constraint rows carry the type / id that make_constraint gave them (C05)"],
  "undecided": [
    "island._flood_fill: that the labels are exactly the connected components of the marked graph, numbered by their smallest tree (a reachability property of a stack-based traversal; not a per-statement postcondition)",
    "island.compute_island_mapping: the dof / constraint maps being mutually inverse permutations consistent with the per-island counts (prefix sums over atomically allocated positions)",
    "the generic Jacobian-row scan for tendon / joint-equality / flex rows beyond symmetry",
  ],
}

KEY = "island:_tree_edges"


def _ct(name):
  from wpv.consts import enum_namespace

  return int(getattr(enum_namespace().ConstraintType, name))


def g_edges(tier):
  obs = []
  for sparse in (False, True):
    R = Run(KEY, args={"is_sparse": sparse})
    ex = R.ex
    tag = f"_tree_edges[is_sparse={sparse}]"
    tt = R.params["tree_tree"]
    marks = [a for a in ex.st.log if a.arr is tt and a.kind != "r"]
    obs.append(canary(R, f"{tag}#canary"))
    ok = bool(marks) and all(a.kind == "atomic" and a.op == "max" for a in marks)
    obs.append(Result(oid=f"{tag}#marks_are_atomic_max", status="discharged" if ok else "violated", kind="post", func=KEY, backend="access-log analysis", meta={"function": KEY, "goal": "tree_tree is only modified by atomic_max (marks are never cleared or overwritten by a thread)", "marks": len(marks)}))
    if not ok:
      continue
    w, e = ex.tids
    live = R.term("tid1 < min(njmax_in, nefc_in[tid0])")
    for n, a in enumerate(marks):
      i, j = lift(a.idx[1]), lift(a.idx[2])
      val = a.value[0] if isinstance(a.value, tuple) else a.value
      g = zb(a.guard)
      obs.append(R.obligation(f"{tag}#mark{n}@{a.lineno}.own_world_value_one_live_row", z3.Implies(g, z3.And(lift(a.idx[0]) == w, lift(val) == 1, live)), meta={"goal": "a mark goes to the thread's own world, has value 1, and only live rows mark", "int_projection": True}))
      # symmetry: some mark at the swapped position under a condition implied by this one
      partners = [b for b in marks if True]
      sym = z3.Or(i == j, *[z3.And(zb(b.guard), lift(b.idx[0]) == lift(a.idx[0]), lift(b.idx[1]) == j, lift(b.idx[2]) == i) for b in partners])
      obs.append(R.obligation(f"{tag}#mark{n}@{a.lineno}.symmetric", z3.Implies(g, sym), meta={"goal": "a cross-tree mark at (i, j) comes with the mark at (j, i)", "int_projection": True, "timeout_ms": 8000}))
    # contact rows
    def marked(i, j):
      return z3.Or(*[z3.And(zb(a.guard), lift(a.idx[1]) == i, lift(a.idx[2]) == j) for a in marks])

    anymark = z3.Or(*[zb(a.guard) for a in marks])
    types = z3.Or(*[R.term(f"efc_type_in[tid0, tid1] == {_ct(n)}") for n in ("CONTACT_FRICTIONLESS", "CONTACT_PYRAMIDAL", "CONTACT_ELLIPTIC")])
    c = "efc_id_in[tid0, tid1]"
    g1, g2 = f"contact_geom_in[{c}][0]", f"contact_geom_in[{c}][1]"
    t0 = R.term(f"body_treeid[geom_bodyid[{g1}]]")
    t1 = R.term(f"body_treeid[geom_bodyid[{g2}]]")
    pre = z3.And(live, types, R.term(f"{g1} >= 0 and {g2} >= 0"))
    obs.append(R.obligation(f"{tag}#contact.cross_edge", z3.Implies(z3.And(pre, t0 >= 0, t1 >= 0, t0 != t1), z3.And(marked(t0, t1), marked(t1, t0))), meta={"goal": "a contact between two different dynamic trees marks their cross edge (both directions)", "int_projection": True}))
    obs.append(R.obligation(f"{tag}#contact.self_edge", z3.Implies(z3.And(pre, t0 >= 0, z3.Or(t1 < 0, t1 == t0)), marked(t0, t0)), meta={"goal": "a contact of a dynamic tree with itself or with a static body marks the tree's self edge", "int_projection": True}))
    obs.append(R.obligation(f"{tag}#contact.self_edge_swapped", z3.Implies(z3.And(pre, t0 < 0, t1 >= 0), marked(t1, t1)), meta={"goal": "... also when the static body is geom 1", "int_projection": True}))
    obs.append(R.obligation(f"{tag}#contact.static_pair_marks_nothing", z3.Implies(z3.And(pre, t0 < 0, t1 < 0), z3.Not(anymark)), meta={"goal": "a contact between two static bodies marks nothing", "int_projection": True}))
    # only the two trees of the contact are ever marked by a contact row
    for n, a in enumerate(marks):
      i, j = lift(a.idx[1]), lift(a.idx[2])
      obs.append(R.obligation(f"{tag}#contact.mark{n}_names_only_its_trees", z3.Implies(z3.And(pre, zb(a.guard)), z3.And(z3.Or(i == t0, i == t1), z3.Or(j == t0, j == t1))), meta={"goal": "a contact row marks no tree other than the two it touches", "int_projection": True}))
    # friction-loss and joint-limit rows: self edge of the DOF's tree
    fr = R.term(f"efc_type_in[tid0, tid1] == {_ct('FRICTION_DOF')}")
    td = R.term("dof_treeid[efc_id_in[tid0, tid1]]")
    obs.append(R.obligation(f"{tag}#friction_dof.self_edge", z3.Implies(z3.And(live, fr, td >= 0), marked(td, td)), meta={"goal": "a DOF friction-loss row marks the self edge of its tree", "int_projection": True}))
    lj = R.term(f"efc_type_in[tid0, tid1] == {_ct('LIMIT_JOINT')}")
    tj = R.term("dof_treeid[jnt_dofadr[efc_id_in[tid0, tid1]]]")
    obs.append(R.obligation(f"{tag}#limit_joint.self_edge", z3.Implies(z3.And(live, lj, tj >= 0), marked(tj, tj)), meta={"goal": "a joint-limit row marks the self edge of its joint's tree", "int_projection": True}))
  return obs


def groups(tier):
  return [("tree_edges", g_edges)]
