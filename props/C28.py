"""C28 Constraint islands -- edge discovery and label bookkeeping (not the flood fill's reachability).

 (E) island._tree_edges (the real kernel, both Jacobian layouts): every mark is an atomic_max with value 1 into the
     thread's own world; the adjacency is marked SYMMETRICALLY (a mark at (i, j), i != j, comes with the mark at (j, i)
     under the same condition); only live rows (efcid < min(njmax, nefc)) mark anything; for a contact row between two
     geoms, the marked pair is exactly {tree of geom 1's body, tree of geom 2's body} with static bodies dropped: both
     dynamic and different -> the cross edge, equal or one static -> the self edge of the dynamic tree, both static ->
     nothing; for a connect / weld row the same with the two bodies (or the bodies of the two sites); friction-loss and
     joint-limit rows mark the self edge of their DOF's tree.
"""
import z3

from wpv import census, extract
from wpv.contracts import Run
from wpv.runner import Result
from wpv.sym import lift, zb

from .common import canary

INFO = {
  "trusted": ["constraint rows carry the type / id that make_constraint gave them (C05)"],
  "undecided": [
    "island._flood_fill: that the labels are exactly the connected components of the marked graph, numbered by their smallest tree (a reachability property of a stack-based traversal; not a per-statement postcondition)",
    "island.compute_island_mapping: the dof / constraint maps being mutually inverse permutations consistent with the per-island counts (prefix sums over atomically allocated positions)",
    "the generic Jacobian-row scan for tendon / joint-equality / flex rows beyond symmetry",
  ],
}

KEY = "island:_tree_edges"


def _ct(name):
  from wpv.consts import enum_namespace

  return int(getattr(enum_namespace().ConstraintType, name))


def g_edges(tier):
  obs = []
  for sparse in (False, True):
    R = Run(KEY, args={"is_sparse": sparse})
    ex = R.ex
    tag = f"_tree_edges[is_sparse={sparse}]"
    tt = R.params["tree_tree"]
    marks = [a for a in ex.st.log if a.arr is tt and a.kind != "r"]
    obs.append(canary(R, f"{tag}#canary"))
    ok = bool(marks) and all(a.kind == "atomic" and a.op == "max" for a in marks)
    obs.append(Result(oid=f"{tag}#marks_are_atomic_max", status="discharged" if ok else "violated", kind="post", func=KEY, backend="access-log analysis", meta={"function": KEY, "goal": "tree_tree is only modified by atomic_max (marks are never cleared or overwritten by a thread)", "marks": len(marks)}))
    if not ok:
      continue
    w, e = ex.tids
    live = R.term("tid1 < min(njmax_in, nefc_in[tid0])")
    for n, a in enumerate(marks):
      i, j = lift(a.idx[1]), lift(a.idx[2])
      val = a.value[0] if isinstance(a.value, tuple) else a.value
      g = zb(a.guard)
      obs.append(R.obligation(f"{tag}#mark{n}@{a.lineno}.own_world_value_one_live_row", z3.Implies(g, z3.And(lift(a.idx[0]) == w, lift(val) == 1, live)), meta={"goal": "a mark goes to the thread's own world, has value 1, and only live rows mark", "int_projection": True}))
      # symmetry: some mark at the swapped position under a condition implied by this one
      partners = [b for b in marks if True]
      sym = z3.Or(i == j, *[z3.And(zb(b.guard), lift(b.idx[0]) == lift(a.idx[0]), lift(b.idx[1]) == j, lift(b.idx[2]) == i) for b in partners])
      obs.append(R.obligation(f"{tag}#mark{n}@{a.lineno}.symmetric", z3.Implies(g, sym), meta={"goal": "a cross-tree mark at (i, j) comes with the mark at (j, i)", "int_projection": True, "timeout_ms": 8000}))
    # contact rows
    def marked(i, j):
      return z3.Or(*[z3.And(zb(a.guard), lift(a.idx[1]) == i, lift(a.idx[2]) == j) for a in marks])

    anymark = z3.Or(*[zb(a.guard) for a in marks])
    types = z3.Or(*[R.term(f"efc_type_in[tid0, tid1] == {_ct(n)}") for n in ("CONTACT_FRICTIONLESS", "CONTACT_PYRAMIDAL", "CONTACT_ELLIPTIC")])
    c = "efc_id_in[tid0, tid1]"
    g1, g2 = f"contact_geom_in[{c}][0]", f"contact_geom_in[{c}][1]"
    t0 = R.term(f"body_treeid[geom_bodyid[{g1}]]")
    t1 = R.term(f"body_treeid[geom_bodyid[{g2}]]")
    pre = z3.And(live, types, R.term(f"{g1} >= 0 and {g2} >= 0"))
    obs.append(R.obligation(f"{tag}#contact.cross_edge", z3.Implies(z3.And(pre, t0 >= 0, t1 >= 0, t0 != t1), z3.And(marked(t0, t1), marked(t1, t0))), meta={"goal": "a contact between two different dynamic trees marks their cross edge (both directions)", "int_projection": True}))
    obs.append(R.obligation(f"{tag}#contact.self_edge", z3.Implies(z3.And(pre, t0 >= 0, z3.Or(t1 < 0, t1 == t0)), marked(t0, t0)), meta={"goal": "a contact of a dynamic tree with itself or with a static body marks the tree's self edge", "int_projection": True}))
    obs.append(R.obligation(f"{tag}#contact.self_edge_swapped", z3.Implies(z3.And(pre, t0 < 0, t1 >= 0), marked(t1, t1)), meta={"goal": "... also when the static body is geom 1", "int_projection": True}))
    obs.append(R.obligation(f"{tag}#contact.static_pair_marks_nothing", z3.Implies(z3.And(pre, t0 < 0, t1 < 0), z3.Not(anymark)), meta={"goal": "a contact between two static bodies marks nothing", "int_projection": True}))
    # only the two trees of the contact are ever marked by a contact row
    for n, a in enumerate(marks):
      i, j = lift(a.idx[1]), lift(a.idx[2])
      obs.append(R.obligation(f"{tag}#contact.mark{n}_names_only_its_trees", z3.Implies(z3.And(pre, zb(a.guard)), z3.And(z3.Or(i == t0, i == t1), z3.Or(j == t0, j == t1))), meta={"goal": "a contact row marks no tree other than the two it touches", "int_projection": True}))
    # friction-loss and joint-limit rows: self edge of the DOF's tree
    fr = R.term(f"efc_type_in[tid0, tid1] == {_ct('FRICTION_DOF')}")
    td = R.term("dof_treeid[efc_id_in[tid0, tid1]]")
    obs.append(R.obligation(f"{tag}#friction_dof.self_edge", z3.Implies(z3.And(live, fr, td >= 0), marked(td, td)), meta={"goal": "a DOF friction-loss row marks the self edge of its tree", "int_projection": True}))
    lj = R.term(f"efc_type_in[tid0, tid1] == {_ct('LIMIT_JOINT')}")
    tj = R.term("dof_treeid[jnt_dofadr[efc_id_in[tid0, tid1]]]")
    obs.append(R.obligation(f"{tag}#limit_joint.self_edge", z3.Implies(z3.And(live, lj, tj >= 0), marked(tj, tj)), meta={"goal": "a joint-limit row marks the self edge of its joint's tree", "int_projection": True}))
  return obs


FF = "island:_flood_fill"


def _ff_contract():
  """contract of island._flood_fill (one thread = one world W): DESIGN.md 12.13"""
  from wpv.hoare import Hoare

  a, b, s_ = z3.Ints("a b s")
  W = z3.Int("tid0")
  L = lambda S, x: S.a("labels_in", W, x)
  T = lambda S, x, y: S.a("tree_tree_in", W, x, y)
  K = lambda S, x: S.a("stack_in", W, x)
  inr = lambda S, *xs: z3.And(*[z3.And(x >= 0, x < S["ntree"]) for x in xs])
  onstack = lambda S, x: z3.Exists([s_], z3.And(s_ >= 0, s_ < S["nstack"], K(S, s_) == x))
  has_edge = lambda S, x: z3.Exists([b], z3.And(inr(S, b), T(S, x, b) != 0))

  def pre(S):
    # established by the host: flood_fill fills the labels with -1; _tree_edges marks symmetrically (group tree_edges)
    return z3.And(S["ntree"] >= 0, z3.ForAll([a], z3.Implies(inr(S, a), L(S, a) == -1)), z3.ForAll([a, b], z3.Implies(z3.And(inr(S, a, b), T(S, a, b) != 0), T(S, b, a) != 0)))

  closed = lambda S: z3.ForAll([a, b], z3.Implies(z3.And(inr(S, a, b), L(S, a) != -1, T(S, a, b) != 0), L(S, b) == L(S, a)))
  only_touched = lambda S: z3.ForAll([a], z3.Implies(z3.And(inr(S, a), L(S, a) != -1), has_edge(S, a)))

  def outer(S, E):
    return z3.And(
      S["nisland"] >= 0,
      closed(S),
      only_touched(S),
      z3.ForAll([a, b], z3.Implies(z3.And(inr(S, a, b), a < S["i"], T(S, a, b) != 0), L(S, a) != -1)),
      z3.ForAll([a], z3.Implies(inr(S, a), z3.Or(L(S, a) == -1, z3.And(L(S, a) >= 0, L(S, a) < S["nisland"])))),
    )

  def edge(S, E):
    return z3.And(S["has_edge"] == 0, z3.ForAll([b], z3.Implies(z3.And(b >= 0, b < S["j"]), T(S, S["i"], b) == 0)))

  def dfs(S, E):
    Lc, i = S["nisland"], S["i"]
    return z3.And(
      S["nstack"] >= 0,
      z3.ForAll([s_], z3.Implies(z3.And(s_ >= 0, s_ < S["nstack"]), z3.And(inr(S, K(S, s_)), has_edge(S, K(S, s_))))),
      only_touched(S),
      z3.ForAll([a, b], z3.Implies(z3.And(inr(S, a, b), L(S, a) != -1, L(S, a) != Lc, T(S, a, b) != 0), L(S, b) == L(S, a))),
      z3.ForAll([a, b], z3.Implies(z3.And(inr(S, a, b), L(S, a) == Lc, T(S, a, b) != 0), z3.Or(L(S, b) == Lc, onstack(S, b)))),
      z3.ForAll([a], z3.Implies(inr(S, a), z3.Or(L(S, a) == -1, z3.And(L(S, a) >= 0, L(S, a) <= Lc)))),
      z3.Or(L(S, i) == Lc, onstack(S, i)),
      z3.ForAll([a], z3.Implies(inr(S, a), z3.If(L(E, a) != -1, L(S, a) == L(E, a), z3.Or(L(S, a) == -1, L(S, a) == Lc)))),
    )

  def push(S, E):
    v = S["v"]
    return z3.And(
      S["nstack"] >= E["nstack"],
      z3.ForAll([s_], z3.Implies(z3.And(s_ >= 0, s_ < E["nstack"]), K(S, s_) == K(E, s_))),
      z3.ForAll([s_], z3.Implies(z3.And(s_ >= 0, s_ < S["nstack"]), z3.And(inr(S, K(S, s_)), has_edge(S, K(S, s_))))),
      z3.ForAll([b], z3.Implies(z3.And(b >= 0, b < S["neighbor"], b < S["ntree"], T(S, v, b) != 0), z3.Or(L(S, b) != -1, onstack(S, b)))),
    )

  def post(S, E):
    ni = S.a("nisland_out", W)
    return z3.And(
      closed(S),
      z3.ForAll([a, b], z3.Implies(z3.And(inr(S, a, b), T(S, a, b) != 0), L(S, a) != -1)),
      only_touched(S),
      z3.ForAll([a], z3.Implies(inr(S, a), z3.Or(L(S, a) == -1, z3.And(L(S, a) >= 0, L(S, a) < ni)))),
    )

  c2 = lambda v: z3.K(z3.IntSort(), z3.K(z3.IntSort(), z3.IntVal(v)))
  c3 = lambda v: z3.K(z3.IntSort(), c2(v))
  arr = lambda S, n: S.arrs[S.root[n]]
  w0 = lambda S, E: [S["ntree"] == 2, W == 0, S["i"] == 0, S["nisland"] == 0, arr(S, "labels_in") == c2(-1), arr(S, "tree_tree_in") == c3(1), arr(S, "stack_in") == c2(0)]
  w1 = lambda S, E: [S["j"] == 0]
  w2 = lambda S, E: [S["nstack"] == 1, arr(S, "labels_in") == c2(-1), arr(S, "stack_in") == c2(0)]
  w3 = lambda S, E: [S["neighbor"] == 0, S["nstack"] == 0, arr(S, "stack_in") == c2(0)]
  H = Hoare(FF, pre=pre, post=post, invariants={0: outer, 1: edge, 2: dfs, 3: push}, witnesses={0: w0, 1: w1, 2: w2, 3: w3}, aliases=[("labels_in", "tree_island_out"), ("stack_in", "stack_out")], meta={"search": ["VENV_PYTHON", "scenarios/c28_flood_fill_search.py"], "goal": "flood fill: trees joined by an edge get the same island; every tree with an edge gets one; trees without an edge get none; labels lie in [0, nisland)"})
  return H, None, (lambda S: [S["ntree"] == 2, W == 0, arr(S, "labels_in") == c2(-1), arr(S, "tree_tree_in") == c3(1)])


def g_flood_fill(tier):
  """(F) island._flood_fill by invariants (wpv/hoare.py) + the launch site establishes the contract's assumptions"""
  import ast

  from wpv import launchsites

  H, _, hint = _ff_contract()
  obs = list(H.run())
  obs.append(H.canary(hint(H.entry)))
  info = extract.get_func(FF)
  nloops = len(H.loops)
  obs.append(Result(oid="_flood_fill#structure", status="discharged" if (nloops == 4 and H.nexits >= 1) else "undecided", kind="structure", func=FF, backend="analysis", reason="" if nloops == 4 else f"{nloops} loops: the sidecar invariants are keyed by loop ordinal 0..3", meta={"function": FF, "goal": "the kernel has the four loops the invariants are written for", "infeasible_branches_pruned": H.pruned}))
  # launch site: aliasing and initialisation the contract assumes
  host = extract.get_func("island:flood_fill")
  sites = [s for s in launchsites.all_sites() if s.kernel == FF]
  ok_alias = len(sites) == 1 and sites[0].binding.get("labels_in") == sites[0].binding.get("tree_island_out") and sites[0].binding.get("stack_in") == sites[0].binding.get("stack_out") and sites[0].binding.get("labels_in") != sites[0].binding.get("stack_in")
  obs.append(Result(oid="flood_fill#launch.aliases_as_in_the_contract", status="discharged" if ok_alias else "violated", kind="host", func="island:flood_fill", backend="launch-site analysis", meta={"function": "island:flood_fill", "goal": "labels_in / tree_island_out are one array and stack_in / stack_out another, as the kernel contract assumes", "binding": {k: v for k, v in (sites[0].binding.items() if sites else [])}}))
  lab = sites[0].binding.get("labels_in") if sites else None
  filled = False
  for st in host.node.body:
    if isinstance(st, ast.Expr) and isinstance(st.value, ast.Call) and ast.unparse(st.value.func) == f"{lab}.fill_" and [ast.unparse(x) for x in st.value.args] == ["-1"]:
      filled = True
    if any(isinstance(n, ast.Call) and ast.unparse(n.func) == "wp.launch" for n in ast.walk(st)):
      break
  obs.append(Result(oid="flood_fill#launch.labels_start_at_minus_one", status="discharged" if filled else "violated", kind="host", func="island:flood_fill", backend="host analysis", meta={"function": "island:flood_fill", "goal": "the label array is filled with -1 before the kernel runs (precondition of the kernel contract)"}))
  dimok = bool(sites) and sites[0].dim.strip() == "d.nworld"
  obs.append(Result(oid="flood_fill#launch.one_thread_per_world", status="discharged" if dimok else "violated", kind="host", func="island:flood_fill", backend="launch-site analysis", meta={"function": "island:flood_fill", "goal": "one thread per world (the contract is per thread over its own world's rows)"}))
  return obs


SS = "island:_island_scan_sizes"


def g_scan_sizes(tier):
  """(S) island._island_scan_sizes: the island offsets are the exclusive prefix sums of the per-island counts (stated as
  the recurrence adr[0] = 0, adr[k] = adr[k-1] + count[k-1]), nidof is the total, and the counts are reset to 0"""
  from wpv.hoare import Hoare

  k = z3.Int("k")
  W = z3.Int("tid0")
  n = lambda S: S.a("nisland_in", W)

  def rec(S, E, adr, cnt, upto):
    return z3.And(S.a(adr, W, 0) == 0, z3.ForAll([k], z3.Implies(z3.And(k >= 1, k < upto), S.a(adr, W, k) == S.a(adr, W, k - 1) + E.a(cnt, W, k - 1))))

  pairs = (("island_idofadr_out", "island_nv_inout"), ("island_iefcadr_out", "island_nefc_inout"))
  scan = lambda S, E: z3.And(*[rec(S, E, a_, c_, S["i"]) for a_, c_ in pairs])
  reset = lambda S, E: z3.And(*[z3.ForAll([k], z3.Implies(z3.And(k >= 0, k < S["i"]), S.a(c_, W, k) == 0)) for _, c_ in pairs], *[rec(S, H.entry, a_, c_, n(S)) for a_, c_ in pairs])

  def post(S, E):
    full = z3.And(*[rec(S, E, a_, c_, n(S)) for a_, c_ in pairs], S.a("nidof_out", W) == S.a("island_idofadr_out", W, n(S) - 1) + E.a("island_nv_inout", W, n(S) - 1), *[z3.ForAll([k], z3.Implies(z3.And(k >= 0, k < n(S)), S.a(c_, W, k) == 0)) for _, c_ in pairs])
    return z3.If(n(S) == 0, S.a("nidof_out", W) == 0, full)

  c1 = lambda v: z3.K(z3.IntSort(), z3.IntVal(v))
  c2 = lambda v: z3.K(z3.IntSort(), c1(v))
  arr = lambda S, nm: S.arrs[S.root[nm]]
  w0 = lambda S, E: [W == 0, arr(S, "nisland_in") == c1(3), S["i"] == 1, arr(S, "island_idofadr_out") == c2(0), arr(S, "island_iefcadr_out") == c2(0), arr(S, "island_nv_inout") == c2(0), arr(S, "island_nefc_inout") == c2(0)]
  w1 = lambda S, E: [S["i"] == 0, arr(S, "island_nv_inout") == c2(0), arr(S, "island_nefc_inout") == c2(0)]
  H = Hoare(SS, pre=lambda S: n(S) >= 0, post=post, invariants={0: scan, 1: reset}, witnesses={0: w0, 1: w1}, meta={"goal": "island offsets are the exclusive prefix sums of the per-island dof / constraint counts; nidof is the total; the counts are reset"})
  obs = list(H.run("_island_scan_sizes"))
  obs.append(H.canary([W == 0, arr(H.entry, "nisland_in") == c1(3)]))
  ok = len(H.loops) == 2 and H.nexits == 2
  obs.append(Result(oid="_island_scan_sizes#structure", status="discharged" if ok else "undecided", kind="structure", func=SS, backend="analysis", reason="" if ok else f"{len(H.loops)} loops, {H.nexits} exits", meta={"function": SS, "goal": "two loops (scan, reset) and two exits (no island / islands), as the invariants are written for"}))
  return obs


def groups(tier):
  return [("tree_edges", g_edges), ("flood_fill", g_flood_fill), ("scan_sizes", g_scan_sizes)]
