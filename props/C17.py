"""C17 No out-of-bounds access on accepted inputs (structural part).

BOUNDS schema over every kernel (all closure specialisations, every launch site): each array subscript whose index is
pure index arithmetic -- thread ids, loop counters, integer parameters, slots returned by atomic_add -- is proved to
lie inside the array for the extents of that launch: 0 <= idx_k < shape_k, under the kernel's own guards (capacity
tests `efcid >= njmax_in: return`, live-range tests `conid >= nacon_in[0]: return`, ...).
"""
from wpv import census, schemas

INFO = {
  "trusted": [
    "array shapes and size parameters are the extents of the types.py field specs (make_data / put_data / put_model allocate exactly those; numpy host code, not proved)",
    "size relations nv <= nv_pad, njmax <= njmax_pad, nvmax <= nvmax_pad, nvmax <= nv, naccdmax <= naconmax (established / validated by make_data)",
    "T4: a slot returned by atomic_add is >= 0",
  ],
  "undecided": [
    "indices that depend on values read from memory (model index tables such as jnt_qposadr / body_parentid, addresses stored in Data such as contact.efc_address, J_rowadr, island maps): need MODEL_WF facts or producer contracts (some are covered elsewhere: C38 maps, C15 state offsets, C30 history cells)",
    "launches whose extent is not an expression over model / data sizes (tile sizes, per-level tree arrays): the thread-id indexed accesses of those launches are skipped",
    "'never crashes' beyond array bounds, and rejection of invalid configurations by put_model / make_data (numpy host code)",
    "kernels listed in contracts/scope_C17.txt are outside the dialect",
    "the (kernel, formal, dimension, lower/upper side) bounds listed in contracts/bounds_needs_wf.txt (277; mostly contact.efc_address[.., k] against the contact dimension, sparse row tables, tree-level and flex tables) need facts about stored data and are not claimed",
  ],
}

EXCLUDED_MODULES = {"set_const", "render", "render_util", "bvh"}


# @wp.func s that write Data arrays and whose callers are (partly) outside the dialect: checked on their own
FUNCS = ["collision_core:write_contact"]


def g_func(key):
  def gen(tier):
    from wpv.contracts import Run

    R = Run(key, fast=True)
    obs = schemas.bounds_obligations(R, "func")
    from wpv.runner import Result

    obs.append(Result(oid=f"{key}#BOUNDS.found", status="discharged" if len(obs) >= 5 else "crash", reason="no subscripts found", kind="BOUNDS", func=key, backend="analysis", meta={"function": key, "goal": "the function's subscripts were enumerated", "count": len(obs)}))
    return obs

  return gen


def groups(tier):
  gs = [(k.key, schemas.kernel_group(k.key, ("BOUNDS",))) for k in census.all_kernels() if k.module not in EXCLUDED_MODULES]
  return gs + [(f"func:{k}", g_func(k)) for k in FUNCS]
