"""C24 Constraint forces are physically admissible (exact over the reals).

(E) solver._eval_constraint as a function, D > 0, frictionloss >= 0, mu > 0, TT >= 0:
    friction-loss rows |f| <= frictionloss; limit / frictionless / pyramidal rows f >= 0;
    state SATISFIED => f = 0; elliptic normal row f >= 0 in every zone.
(U) solver._update_constraint_efc (the real kernel, contact dimension fixed per run like C39):
    for the rows e_0..e_{K-1} of one elliptic contact the stored forces lie in the friction
    cone:  F(e_0) >= 0  and  sum_k (F(e_k)/friction[k-1])^2 <= F(e_0)^2, in all three zones,
    GIVEN the scaling relation REL between the rows' D values; a done world is not written.
(R) REL is the postcondition of constraint._efc_contact_update (and its flex twin): for an
    elliptic contact D_k * mu^2 = D_0 * friction[k-1]^2 (mu = friction[0]*impratio_invsqrt)
    whenever neither row is clamped at MJ_MINVAL -- a relational obligation over two threads
    of the real kernel.
The last conjunct of the property (qfrc_constraint = J^T f) is a tile-reduction identity and
is not decided.
"""
import z3

from wpv import census, extract
from wpv.contracts import Run
from wpv.runner import Result
from wpv.sym import lift

from .common import canary

INFO = {
  "trusted": ["exact over the reals (T2); sqrt by its defining axioms"],
  "undecided": [
    "qfrc_constraint = J^T * efc_force (tile reduction / sparse products)",
    "rows clamped at MJ_MINVAL (D = 1/MJ_MINVAL) are outside REL",
    "elliptic cone membership for condim 6, and REL for flex contacts (constraint._efc_contact_update_flex): the nonlinear queries stay unknown",
    "partially allocated elliptic contacts (a row address < 0 after a row overflow): the kernel then leaves the row untouched",
  ],
}


def _cs(name):
  from wpv.consts import enum_namespace

  return int(getattr(enum_namespace().ConstraintState, name))


def _all_states():
  from wpv.consts import CONSTS

  return set(CONSTS["enums"]["ConstraintState"]["members"].values())


def g_eval(tier):
  """the contract of _eval_constraint (the clauses callers rely on) against its body, plus the elliptic normal row"""
  obs = eval_contract().verify(prefix="_eval_constraint", timeout_ms=30000)
  R = Run("solver:_eval_constraint", pre=EVAL_PRE)
  obs.append(R.obligation("_eval_constraint#elliptic_normal_nonneg", "implies(not is_equality and not is_friction and is_elliptic and efcid == efcid0 and jaref == jaref0 and D == D0, result[0] >= 0.0)", meta={"timeout_ms": 30000}))
  return obs


EVAL_PRE = ["D > 0.0", "frictionloss >= 0.0", "TT >= 0.0", "implies(is_elliptic, mu > 0.0 and D0 > 0.0)"]


def eval_contract():
  from wpv.contracts import FuncContract

  SAT = float(_cs("SATISFIED"))
  return FuncContract(
    "solver:_eval_constraint",
    requires=EVAL_PRE,
    ensures=[
      "implies(not is_equality and is_friction, result[0] <= frictionloss and -frictionloss <= result[0])",
      "implies(not is_equality and not is_friction and not is_elliptic, result[0] >= 0.0)",
      f"implies(result[1] == {SAT}, result[0] == 0.0)",
      "implies(is_equality, result[0] == -D * jaref)",
      # the second component is exactly one of the ConstraintState codes (the kernel converts it with int())
      " or ".join(f"result[1] == {float(v)}" for v in sorted(_all_states())),
    ],
  )


def g_kernel(tier):
  """(K) the real kernel stores, for every live row of a world that is still solving, the value of
  _eval_constraint called with the row classification by position (equality < friction < rest); through the
  callee's contract: friction-loss rows are bounded by their friction loss, limit / frictionless / pyramidal rows
  are non-negative, a SATISFIED row carries zero force."""
  key = "solver:_update_constraint_efc.kernel"
  info = extract.get_func(key)
  obs = []
  ELL = int(getattr(__import__("wpv.consts", fromlist=["x"]).enum_namespace().ConstraintType, "CONTACT_ELLIPTIC"))
  SAT = _cs("SATISFIED")
  for cl in census.specialisations(info):
    lab = census.spec_label(cl)
    C = eval_contract()
    R = Run(
      key,
      closure={k: v for k, v in cl.items() if k != "$label"},
      contracts={"solver:_eval_constraint": C},
      invariants={(key, 0): ["TT >= 0.0"]},
      pre=[
        # row data produced by make_constraint (C05: D = 1/max(.., MJ_MINVAL) > 0, friction loss >= 0) and model
        # well-formedness (friction coefficients and impratio > 0); rows ordered equality < friction < the rest
        "efc_D_in[tid0, tid1] > 0.0",
        "efc_frictionloss_in[tid0, tid1] >= 0.0",
        "ne_in[tid0] >= 0 and nf_in[tid0] >= 0",
        "efc_D_in[tid0, contact_efc_address_in[efc_id_in[tid0, tid1], 0]] > 0.0",
        "contact_friction_in[efc_id_in[tid0, tid1]][0] > 0.0",
        "opt_impratio_invsqrt[tid0 % opt_impratio_invsqrt.shape[0]] > 0.0",
        # contact rows come after the equality and friction-loss rows (C05 ordering)
        f"implies(tid1 < ne_in[tid0] + nf_in[tid0], efc_type_in[tid0, tid1] != {ELL})",
      ],
    )
    tag = f"_update_constraint_efc[{lab}]"
    obs.append(canary(R, f"{tag}#canary", hints="auto"))
    for o in R.side_obligations(tag + "#"):
      o.meta["goal"] = "precondition of _eval_constraint at its call site / loop invariant TT >= 0"
      obs.append(o)
    live = "not ctx_done_in[tid0] and tid1 < nefc_in[tid0]"
    F = "efc_force_out[tid0, tid1]"
    obs.append(R.obligation(f"{tag}#friction_loss_bound", f"implies({live} and ne_in[tid0] <= tid1 and tid1 < ne_in[tid0] + nf_in[tid0], {F} <= efc_frictionloss_in[tid0, tid1] and -efc_frictionloss_in[tid0, tid1] <= {F})", meta={"goal": "friction-loss rows: |force| <= frictionloss"}))
    obs.append(R.obligation(f"{tag}#unilateral_nonneg", f"implies({live} and tid1 >= ne_in[tid0] + nf_in[tid0] and efc_type_in[tid0, tid1] != {ELL}, {F} >= 0.0)", meta={"goal": "limit, frictionless and pyramidal rows: force >= 0"}))
    obs.append(R.obligation(f"{tag}#satisfied_zero", f"implies({live} and efc_state_out[tid0, tid1] == {SAT} and efc_type_in[tid0, tid1] != {ELL}, {F} == 0.0)", meta={"goal": "a non-elliptic row in state SATISFIED carries zero force (elliptic rows: top zone of the cone group)"}))
    obs.append(Result(oid=f"{tag}#uses_eval_contract", status="discharged" if C.uses == 1 else "violated", kind="contract", func=key, backend="analysis", meta={"function": key, "goal": "force and state come from one call of _eval_constraint (the function under contract)", "calls": C.uses}))
  return obs


def g_cone(K):
  """rows of one elliptic contact through the real _update_constraint_efc kernel"""

  def gen(tier):
    key = "solver:_update_constraint_efc.kernel"
    info = extract.get_func(key)
    obs = []
    for cl in census.specialisations(info):
      lab = census.spec_label(cl)

      def setup(R):
        dim = R.params["contact_dim_in"]
        R.ex.st.arrs[dim.aid] = lambda idx: K
        R.ex.st.arrs0[dim.aid] = R.ex.st.arrs[dim.aid]

      R = Run(key, closure={k: v for k, v in cl.items() if k != "$label"}, setup=setup)
      ex = R.ex
      w, e = ex.tids
      c = R.var("c")
      R.var("v")
      tag = f"_update_constraint_efc[{lab},condim={K}]"
      F = lambda row: z3.substitute(ex.st.arrs[R.params["efc_force_out"].aid]((w, row)), (e, row))
      adr = [R.term(f"contact_efc_address_in[c, {k}]") for k in range(K)]
      fr = [R.term(f"contact_friction_in[c][{k}]") for k in range(K - 1)]
      D = [R.term(f"efc_D_in[tid0, contact_efc_address_in[c, {k}]]") for k in range(K)]
      ir = R.term("opt_impratio_invsqrt[tid0 % opt_impratio_invsqrt.shape[0]]")
      mu = fr[0] * ir
      ELL = int(getattr(__import__("wpv.consts", fromlist=["x"]).enum_namespace().ConstraintType, "CONTACT_ELLIPTIC"))
      pre = [
        z3.Not(R.term("ctx_done_in[tid0]")),
        c >= 0,
        c < R.term("nacon_in[0]"),
        ir > 0,
      ]
      for k in range(K):
        pre += [
          adr[k] >= R.term("ne_in[tid0] + nf_in[tid0]"),
          adr[k] < R.term("nefc_in[tid0]"),
          adr[k] >= 0,
          R.term(f"efc_id_in[tid0, contact_efc_address_in[c, {k}]]") == c,
          R.term(f"efc_type_in[tid0, contact_efc_address_in[c, {k}]]") == ELL,
          D[k] > 0,
        ]
        for k2 in range(k):
          pre.append(adr[k] != adr[k2])
      for k in range(K - 1):
        pre.append(fr[k] > 0)
        pre.append(D[k + 1] * mu * mu == D[0] * fr[k] * fr[k])  # REL (postcondition of _efc_contact_update)
      pre += [R.term("ne_in[tid0] >= 0 and nf_in[tid0] >= 0")]
      # the background facts (sqrt axioms, ...) were instantiated for the symbolic row tid1:
      # instantiate them for each row of the contact as well
      for k in range(K):
        pre += [z3.substitute(a, (e, adr[k])) for a in ex.assumes if isinstance(a, z3.ExprRef)]
      forces = [F(adr[k]) for k in range(K)]
      obs.append(R.obligation(f"{tag}#normal_nonneg", z3.Implies(z3.And(*pre), forces[0] >= 0), meta={"goal": "elliptic contact: normal force >= 0", "timeout_ms": 60000}))
      # cone membership, decomposed so that each query is small (independent of K):
      #  (i_k) every tangential row is  F_k = c * u_k * friction_k  with ONE scalar c per contact
      #        (u_k = Jaref_k * friction_k;  c by zone: 0 / -D0/mu^2 / -F_0... see below)
      #  (ii)  c^2 * TT <= F_0^2   with TT = sum u_k^2
      #  (iii) algebra: (i_k) and (ii)  =>  sum (F_k / friction_k)^2 <= F_0^2
      J = [R.term(f"ctx_Jaref_in[tid0, contact_efc_address_in[c, {k}]]") for k in range(K)]
      u = [J[k + 1] * fr[k] for k in range(K - 1)]
      TT = sum((x * x for x in u), z3.RealVal(0))
      cc = z3.Real("c!cone")
      T = z3.Real("T!cone")
      N = J[0] * mu
      top = z3.Or(N >= mu * T, z3.And(T <= 0, N >= 0))
      bottom = z3.Or(mu * N + T <= 0, z3.And(T <= 0, N < 0))
      cdef = [T >= 0, T * T == TT, cc == z3.If(top, z3.RealVal(0), z3.If(bottom, -D[0] / (mu * mu), -forces[0] / T))]
      for k in range(K - 1):
        obs.append(R.obligation(f"{tag}#cone.row{k + 1}_is_c_times_u", z3.Implies(z3.And(*(pre + cdef)), forces[k + 1] == cc * u[k] * fr[k]), meta={"goal": f"tangential row {k + 1}: F = c * (Jaref*friction) * friction with the contact's common scalar c", "timeout_ms": 60000}))
      obs.append(R.obligation(f"{tag}#cone.c_bound", z3.Implies(z3.And(*(pre + cdef)), cc * cc * TT <= forces[0] * forces[0]), meta={"goal": "c^2 * sum u_k^2 <= F_normal^2 in every zone", "timeout_ms": 60000}))
      # (iii) pure algebra over fresh reals
      Fk = [z3.Real(f"F{k}!alg") for k in range(K)]
      uk = [z3.Real(f"u{k}!alg") for k in range(K - 1)]
      frk = [z3.Real(f"fr{k}!alg") for k in range(K - 1)]
      hyp = [frk[k] > 0 for k in range(K - 1)] + [Fk[k + 1] == cc * uk[k] * frk[k] for k in range(K - 1)] + [cc * cc * sum((x * x for x in uk), z3.RealVal(0)) <= Fk[0] * Fk[0]]
      lhs = sum(((Fk[k + 1] / frk[k]) * (Fk[k + 1] / frk[k]) for k in range(K - 1)), z3.RealVal(0))
      from wpv.contracts import Obligation

      obs.append(Obligation(f"{tag}#cone.algebra", hyp, lhs <= Fk[0] * Fk[0], func=key, kind="lemma", meta={"function": key, "goal": "(i) and (ii) imply sum (F_k/friction_k)^2 <= F_normal^2", "timeout_ms": 60000}))
      obs.append(R.obligation(f"{tag}#done_world_untouched", "implies(ctx_done_in[tid0], efc_force_out[tid0, v] == old(efc_force_out[tid0, v]) and efc_state_out[tid0, v] == old(efc_state_out[tid0, v]))"))
      obs.append(R.obligation(f"{tag}#rows_beyond_nefc_untouched", "implies(tid1 >= nefc_in[tid0], efc_force_out[tid0, tid1] == old(efc_force_out[tid0, tid1]))"))
    return obs

  return gen


def g_rel(key):
  """REL: D of tangential row k vs the normal row of the same elliptic contact"""

  def gen(tier):
    info = extract.get_func(key)
    obs = []
    MINVAL = __import__("wpv.consts", fromlist=["x"]).CONSTS["consts"]["MJ_MINVAL"]
    for cl in census.specialisations(info):
      lab = census.spec_label(cl)
      if "ELLIPTIC" not in lab:
        continue
      R = Run(key, closure={k: v for k, v in cl.items() if k != "$label"})
      ex = R.ex
      tids = ex.tids
      conid, dimid = tids[0], tids[1]
      name = key.split(":")[1]
      tag = f"{name}[{lab}]"
      wv = R.term("worldid_in[tid0]")
      efc0 = R.term("contact_efc_address_in[tid0, 0]")
      Dout = R.params["efc_D_out"]

      def Dof(j):
        row = R.term("contact_efc_address_in[tid0, tid1]")
        t = ex.st.arrs[Dout.aid]((wv, row))
        return z3.substitute(t, (dimid, j))

      j = z3.Int("j!rel")
      ir = R.term("opt_impratio_invsqrt[worldid_in[tid0] % opt_impratio_invsqrt.shape[0]]")
      fri0 = R.term("friction_in[tid0][0]")
      frj = ex.st.arrs0[R.params["friction_in"].aid]((conid, j - 1))
      mu = fri0 * ir
      D0, Dj = Dof(z3.IntVal(0)), Dof(j)
      condim = R.term("condim_in[tid0]")
      live = [
        R.term("tid0 < nacon_in[0]"),
        j >= 1,
        j < condim,
        condim > 1,
        condim <= 6,
        R.term("contact_efc_address_in[tid0, 0] >= 0"),
        z3.substitute(R.term("contact_efc_address_in[tid0, tid1] >= 0"), (dimid, j)),
        z3.substitute(R.term("contact_efc_address_in[tid0, tid1]"), (dimid, j)) != efc0,
        fri0 > 0,
        frj > 0,
        ir > 0,
        # neither row clamped at MJ_MINVAL:  D < 1/MJ_MINVAL
        D0 * lift(MINVAL, "float") < 1,
        Dj * lift(MINVAL, "float") < 1,
        D0 > 0,
        Dj > 0,
      ]
      # both rows are written by this launch: the guard of the D store holds for thread 0 and thread j
      dstores = [a for a in ex.st.log if a.kind == "w" and a.arr is Dout]
      if not dstores:
        obs.append(Result(oid=f"{tag}#REL.anchor", status="undecided", reason="no store to efc_D_out found"))
        continue
      gD = z3.Or(*[a.guard if isinstance(a.guard, z3.ExprRef) else z3.BoolVal(bool(a.guard)) for a in dstores])
      live += [z3.substitute(gD, (dimid, z3.IntVal(0))), z3.substitute(gD, (dimid, j))]
      live += [z3.substitute(a, (dimid, z3.IntVal(0))) for a in ex.assumes if isinstance(a, z3.ExprRef)]
      live += [z3.substitute(a, (dimid, j)) for a in ex.assumes if isinstance(a, z3.ExprRef)]
      obs.append(R.obligation(f"{tag}#REL", z3.Implies(z3.And(*live), Dj * mu * mu == D0 * frj * frj), meta={"goal": "elliptic contact rows: D_k * (friction_0*impratio_invsqrt)^2 == D_0 * friction_{k-1}^2 when unclamped", "timeout_ms": 120000}))
    if not obs:
      obs.append(Result(oid=f"{key}#REL.none", status="crash", reason="no elliptic specialisation found"))
    return obs

  return gen


def groups(tier):
  gs = [("eval", g_eval), ("kernel", g_kernel)]
  # condim 6 (torsional + rolling friction): the cone obligations stay unknown in the nonlinear solver after 25 min;
  # the flex twin of REL likewise -- both are listed under INFO["undecided"], not claimed
  for K in (3, 4):
    gs.append((f"cone[{K}]", g_cone(K)))
  gs.append(("rel", g_rel("constraint:_efc_contact_update.kernel")))
  return gs
