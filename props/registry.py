"""Which properties are claimed (and how), which are not applicable (and why)."""

_BASE = (
  "Trusted base: T1 int32 as mathematical Int; T2 float32 as Real (exact-over-the-reals claims only); T3 wp.* builtin table; "
  "T4 allocator axiom for atomic counters; python/Warp dialect semantics as implemented by wpv (sym.py, loops.py, hostexec.py); "
  "SMT solvers sound. The verified text is re-extracted from /repo on every run (docstrings, comments, wp.printf and decorator "
  "arguments dropped). Replay: ./check <id> --replay <file> re-generates and re-discharges the failed obligation on the current "
  "source; counter-models of C13/C14/C15 are additionally replayed on the real API (scenarios/replay_native.py) and counter-models "
  "of function contracts over scalar / vector parameters (C20, C23, C24 ...) on the real @wp.func run by Warp "
  "(scenarios/replay_func.py); all other VIOLATION lines end with no-failing-input-found (DESIGN.md 12.2, 12.9). "
)

CLAIMS = {
  "C05": {
    "text": "Two conjuncts of the statement that do not involve MuJoCo's numerics. (A) constraint._efc_contact_init (every "
    "specialisation, the loop over a contact's rows summarised in closed form): for a live active contact, efc_address[c, k] is -1 "
    "exactly when row base+k does not fit njmax, and otherwise is base+k -- a row below njmax whose efc.id is c -- so the rows of a "
    "contact are the contiguous block the allocator returned; _efc_contact_update stores efc.id / efc.type at exactly the addressed "
    "row of the contact's world. (B) for every row-building kernel launched by make_constraint, the rows a thread allocates from "
    "nefc equal what it adds to the counter of its kind (ne / nf / nl), at most one kind per kernel, contact builders none, and the "
    "builders are launched in the order equality, friction, limit, contact (which with the allocator axiom gives the row ordering "
    "C24 assumes).",
    "note": _BASE + "Agreement of the rows themselves (Jacobian, position, margin, impedance-derived mass, reference acceleration, "
    "friction loss) with MuJoCo's is a comparison with MuJoCo's floating-point output and is NOT claimed; flex contacts and "
    "_equality_flexstrain (outside the dialect) are not covered.",
    "design_ref": "DESIGN.md 3 (C05)",
  },
  "C09": {
    "text": "Non-interference by contract: for every kernel of the repository (census re-enumerated from /repo on every run, all closure "
    "specialisations; the real kernel body executed symbolically) it is proved that (ISOLATION) every access to an nworld-led Data/efc "
    "field is indexed by the thread's owning world, (owner) the owning world is a thread-id component or the world tag of the thread's "
    "own slot, (SLOT) every access to the world-shared contact/collision buffers is to the thread's own index, a slot it allocated, a "
    "slot its own world's rows point to, or is guarded by tag[slot]==world. These hold for all sizes, worlds and paths, which is what a "
    "batch-vs-alone differential test can only sample.",
    "note": _BASE + "Formals are classified by the naming convention X_in/X_out<->Data.X checked against types.py. The final step (threads "
    "that only touch their own world's cells compute a function of that world's state) is argued in DESIGN.md, not mechanised. Kernels in "
    "contracts/scope_C09.txt (a few constructs outside the dialect: bvh/mesh intrinsics, closure-built function lists) and modules "
    "set_const/render/bvh are unverified surroundings; tile intrinsics are abstracted to row reads/writes.",
    "design_ref": "DESIGN.md 3 (C09)",
  },
  "C10": {
    "text": "MODULO schema over every kernel and wp.func it inlines: each access to a '*'-batched Model/Option/Statistic field is proved "
    "(SMT equality, no ignore list) to be indexed by (owning world) % field.shape[0]; closure integers standing for batch sizes are tied "
    "to the array shape by launch-site obligations. Found and repaired: flex narrowphase indexed opt_ccd_tolerance by 0.",
    "note": _BASE + "Classification of formals by naming convention; put_model/_create_array (numpy host code giving the leading "
    "dimension batch_sizes[name]) is audited natively, not proved. Scope file contracts/scope_C10.txt lists untranslatable kernels; "
    "module set_const (writes derived Model fields) is not part of the claim.",
    "design_ref": "DESIGN.md 3 (C10)",
  },
  "C16": {
    "text": "(1) forward._next_time: NEFC/BROADPHASE/NARROWPHASE bit <=> demand counter > capacity, no bit is ever cleared; (2) the "
    "nnz-overflow kernel of make_constraint: NJMAX_NNZ bit <=> efc_nnz demand > njmax_nnz, launched last, on the allocator all sparse "
    "builders use, zeroed first; (3) island._compact_dofs: NVMAX bit <=> awake-DOF count (ghost prefix sum, loop invariant) > nvmax; "
    "(4) CAPACITY schema over all 60+ kernels with a capacity parameter: allocator increments do not depend on their own capacity "
    "or returned slots (counters count demand), and relationally: if every allocation fitted, each store has the same guard, index and "
    "value as with any larger capacity (the 'no bit => same result as ample capacity' clause). Found and repaired: NJMAX_NNZ overflow "
    "was never raised; connect/weld rows that fit njmax exactly were dropped silently.",
    "note": _BASE + "T4 for the demand counters; counters zeroed each step (C12). CCD/EPA/hfield/flex work buffers are not covered. "
    "Row allocations are assumed to request >= 1 row (condim in {1,3,4,6}).",
    "design_ref": "DESIGN.md 3 (C16), 9.1",
  },
  "C28": {
    "text": "Edge discovery, island._tree_edges (the real kernel, dense and sparse Jacobian layout): tree_tree is modified only by "
    "atomic_max with value 1 into the thread's own world and only by live rows (efcid < min(njmax, nefc)); every cross-tree mark at "
    "(i, j) comes with the mark at (j, i) under the same condition (symmetric adjacency), in the closed-form branches and in the "
    "generic Jacobian-row scan; a contact row marks exactly the pair of trees of its two geoms' bodies with static bodies dropped "
    "(cross edge in both directions, self edge of the dynamic tree, nothing for two static bodies) and no other tree; DOF "
    "friction-loss and joint-limit rows mark the self edge of their tree. Flood fill, island._flood_fill (the real kernel, Hoare "
    "rule with quantified invariants on its four loops, wpv/hoare.py; unbounded in the number of trees): given labels -1 and a "
    "symmetric adjacency (both established at the launch site / by the edge group), on exit two trees joined by an edge have the "
    "same island, every tree with an edge has an island, a tree without any edge has none, labels lie in [0, nisland), and labels "
    "once written are never changed; the launch site binds the aliased arrays as the contract assumes, fills the labels with -1 and "
    "runs one thread per world. island._island_scan_sizes (same rule): the island dof / constraint offsets satisfy adr[0] = 0, "
    "adr[k] = adr[k-1] + count[k-1] (exclusive prefix sums), nidof is the total, and the counts are reset to 0 for the recount.",
    "note": _BASE + "NOT covered: that two trees in the same island are CONNECTED (no over-merging; needs a reachability witness) and "
    "the numbering by smallest tree; that the DFS stack of ntree*ntree slots suffices; the dof / constraint maps of compute_island_mapping beyond the offsets (atomically allocated positions); "
    "which trees the generic scan marks for tendon / joint-equality / flex rows (only its symmetry is proved). When a flood-fill "
    "obligation is not proved, the real flood_fill is run on all 99402 graphs with up to 5 (6: off-diagonal) trees to find a failing input.",
    "design_ref": "DESIGN.md 3 (C28), 12.12, 12.13",
  },
  "C29": {
    "text": "The local, per-tree rules of the statement as contracts on the real kernels: sleep._sweep_awake_trees (run against an "
    "opaque contract of _tree_can_sleep) leaves sleeping trees alone, moves an awake quiet tree's countdown one step towards -1 "
    "(never past it) and resets a disturbed tree to K_AWAKE_VAL, touching no other cell -- so 'ready to sleep' needs MJ_MINAWAKE "
    "consecutive quiet sweeps; _tree_can_sleep refuses for policy NEVER; _check_island_can_sleep vetoes an island exactly for its "
    "trees that are not ready; _update_sleep_trees / _update_sleep_bodies derive the awake flags from tree_asleep; _wake_kernel "
    "calls _wake_tree exactly for a sleeping tree whose awake flag is set or that may not sleep at zero tolerance, with "
    "K_AWAKE_VAL; a DOF with zero acceleration keeps its velocity and a hinge / slide coordinate or free position with zero "
    "velocity does not move.",
    "note": _BASE + "NOT covered: agreement of the awake/asleep evolution with MuJoCo's; _build_cycles (cycle construction and the "
    "zeroing of velocities of trees put to sleep) and _wake_tree's walk along a cycle; the contact / equality / tendon wake "
    "triggers (their order dependence is the C11 known finding D11); renormalisation of frozen quaternions.",
    "design_ref": "DESIGN.md 3 (C29), 12.12",
  },
  "C30": {
    "text": "Contracts on the real history-buffer functions, stated over the logical view L(i), V(i) of a circular buffer: "
    "_history_physical_index maps [0,n) injectively into [0,n) with the newest sample at the cursor; _history_find_index (while loop "
    "with the invariant L(lo) < t <= L(hi)) returns 0 / n outside the buffered interval and otherwise the index r with "
    "L(r-1) < t <= L(r); _history_read_scalar, run against that contract, returns the end values outside the interval, the sample itself "
    "within 1e-6 of a sample time, and otherwise the zero-order-hold value V(j) or the linear interpolant on the bracket [L(j), L(j+1)] "
    "that find_index returned; _history_insert_scalar with a time newer than the newest sample advances the cursor by one modulo n, "
    "appends (t, value) and shifts every other logical sample by one, writing nothing outside the buffer's own cells. The ctrl kernels "
    "read at time - delay from the actuator's own buffer with its own interpolation (ctrl itself without a buffer or delay) and insert "
    "(time, ctrl) into it, launched over all actuators of all worlds on Data.history/ctrl/time.",
    "note": _BASE + "Buffer well-formedness (n >= 1, 0 <= cursor < n, integer-valued cursor cell) is a precondition: put_data copies "
    "MuJoCo's buffers and insert preserves it, but make_data / reset_data do not produce MuJoCo's initial buffer (defects D1 and D2, "
    "DESIGN.md 7: recorded, not repaired, and outside what this check claims). Not decided: cubic interpolation, vector-valued sensor "
    "buffers and sensor intervals, out-of-order inserts, termination of the binary search.",
    "design_ref": "DESIGN.md 3 (C30), 12.5",
  },
  "C34": {
    "text": "Contracts on the real functions of ray.py: _ray_eliminate is proved EQUAL to the statement's eligibility predicate "
    "(excluded body, invisible geom or material, static geoms not wanted, group mask with the geom's clamped group switched off); "
    "_ray_quad (a > 0) returns -1 or a non-negative root of a*x^2+2*b*x+c, the smallest non-negative one, and -1 with a real "
    "discriminant means both roots are negative; ray_sphere, run against that contract, returns a point on the sphere with the unit "
    "outward normal there (so, with the quad contract, the nearest intersection along the ray); ray_plane returns a point on the "
    "plane inside the rendered rectangle, only for rays heading to the front face, with the plane's z axis as normal. ray_capsule, "
    "run against contracts of _ray_map (verified: the local ray is R^T(pnt - pos), R^T vec), ray_sphere and _ray_quad (both roots: "
    "ordered, with the sum and product of the quadratic, each a root; verified against the body): a reported distance is -1 or >= 0; "
    "a reported hit lies on the cylinder side between the caps or on the outer half of a cap sphere; every point of the ray (y >= 0) on "
    "the outer half of a cap sphere is a hit and the reported distance is not beyond it (nearest-hit for the caps, from inside and "
    "outside). The nonlinear argument is cut into identities, one abstract root lemma and structural steps, each an obligation. "
    "ray_ellipsoid, the same way (s_i * size_i^2 = 1 proved from safe_div; positive leading coefficient for a non-zero direction): a "
    "reported hit lies on the ellipsoid, and every point of the ray (y >= 0) on it is a hit not nearer than the reported distance. "
    "ray_cylinder: a reported hit lies on a flat face within the radius or on the round side between the faces, and every point of the "
    "ray on a flat face within the radius is a hit not nearer than the reported distance.",
    "note": _BASE + "Exact over the reals; ray direction non-zero. NOT covered: agreement with mujoco.mj_ray (numeric oracle), nearest-hit "
    "for the capsule's cylinder side and its normal, the "
    "nearest-hit on the cylinder's round side, box / mesh / height-field / flex intersections, the normals of ellipsoid and cylinder, the nearest-hit reduction over geoms in _ray "
    "(tile reduction) and the BVH path (wp.bvh_* intrinsics), and the MJ_MINVAL slivers of _ray_quad and ray_plane.",
    "design_ref": "DESIGN.md 3 (C34), 12.12, 12.13",
  },
  "C36": {
    "text": "A result can depend on process history only through state that outlives a call. Over the real source of every module: "
    "(G1) every module-level object mutated by a function is in the declared frame {warp_util._KERNEL_CACHE, warp_util._STACK}; (G2) no "
    "functools memoisation on functions with mutable or identity-hashed arguments; (G3) for each of the 75 @cache_kernel factories, "
    "everything the produced kernel depends on is distinguished by the cache key (value-typed parameters, lists built by the caller and "
    "hashed by content, sized objects used only through .size, unique factory names, no module-level mutable object read). Found and "
    "repaired: the process-global primitive-collision dispatch lists. (G4) the cache_kernel wrapper itself is exercised natively on 11 "
    "argument shapes -- a bounded stand-in, not counted as proved. (G5) bounded native probe: forward() on a fresh Data after NaN-filled "
    "arrays were freed, three configurations. (G6) the obligation behind defect D15 (found by G5, repaired in /repo): _solve selects "
    "the sparse initialisation of qfrc_constraint under exactly the condition under which _update_constraint selects the sparse "
    "update kernels (Boolean equivalence over the real source), that initialisation zeroes worlds without active rows, and the "
    "sparse update kernels leave such worlds untouched -- so the solver's first gradient never reads memory nothing wrote.",
    "note": _BASE + "Pure source analysis (no SMT needed: the obligations are about which objects are written / read). Warp's own module "
    "cache and CUDA graph state are external. G4 and G5 are bounded.",
    "design_ref": "DESIGN.md 3 (C36)",
  },
  "C37": {
    "text": "The real orchestration code of forward/step/step1/step2 is walked in source order (host calls inlined with parameter "
    "substitution, conditions kept as propositional atoms; 350+ launches) and every launch is joined with the access summary of the "
    "real kernel (read / plain store / accumulate per formal, from its symbolic execution). FRAME: no launch, fill or copy reachable "
    "from forward() writes a field of the integration state (known finding: sensor delay buffers are inserted into during forward). "
    "ACC_INIT: every array a kernel of forward() accumulates into is re-initialised earlier in the same forward() under conditions "
    "implied (z3, over the condition atoms) by the accumulation's own conditions -- the idempotence clause. SPLIT: for Euler and "
    "implicit, step() and step1();step2() perform the same launches with the same bindings and closure arguments, and launches that "
    "share an array keep their relative order.",
    "note": _BASE + "Host conditions are uninterpreted atoms (source text after substitution). Initialisers are fills/copies, zeroing "
    "kernels, kernels storing one cell per thread, or the per-entity seeding kernels listed with reasons in "
    "contracts/acc_init_reviewed.txt. The inertia factor/solve path (fused in step, separate in step1/step2) and user callbacks are "
    "outside the claim; floating-point bit-identity is not claimed.",
    "design_ref": "DESIGN.md 3 (C37)",
  },
  "C38": {
    "text": "island._compact_dofs is verified against a thread contract with a quantified loop invariant over both map arrays (classic "
    "loop rule; ghost prefix sum of awake DOFs and ghost tree offsets; initiation/consecution discharged by goal-directed quantifier "
    "instantiation): dof_cdof and cdof_dof are mutually inverse on [0, ncdof), -1 elsewhere, DOFs of trees that are not awake are "
    "unmapped, awake DOFs are mapped whenever nothing overflowed, ncdof = min(awake DOFs, nvmax) (NVMAX bit: C16). Host level "
    "(island.update_active_dofs): the reset launch establishes that contract's precondition for every world, through the real launch "
    "dims. Gather/scatter kernels of the compacted solve: an unmapped (frozen) DOF gets exactly 0 in qacc, qacc_smooth and "
    "qfrc_constraint, mapped entries are exact copies through the maps, and the scatters cover all nv DOFs of the Data fields.",
    "note": _BASE + "MODEL_WF.tree_dofs (tree DOF ranges partition [0,nv), monotone offsets) assumed and audited. Numerical equality "
    "of the compacted and the full solve, and identity of the maps when all trees are awake, are not claimed.",
    "design_ref": "DESIGN.md 3 (C38), 9.4",
  },
  "C39": {
    "text": "support.contact_force (host function + kernel + the wp.funcs it inlines, bound through the launch site) is proved equal, "
    "component by component and exactly over the reals, to the documented mj_contactForce/mju_decodePyramid spec for both cones, "
    "condim 1/3/4/6, with and without rotation to the world frame, for a symbolic request list, contact, world and row addresses; "
    "stale ids write nothing, inactive contacts report zero, Data is not modified.",
    "note": _BASE + "Spec taken from MuJoCo's documentation, not its C code. The contact dimension is fixed per run (all contacts "
    "condim K); the kernel reads dim only at the requested slot (C09 SLOT), so mixed dimensions do not matter. Contacts whose rows "
    "overflowed njmax are outside the claim.",
    "design_ref": "DESIGN.md 3 (C39)",
  },
  "C17": {
    "text": "BOUNDS schema over every kernel of the repository (census re-enumerated on every run, all closure specialisations, every "
    "launch site, the real kernel body executed symbolically): each array subscript whose index is pure index arithmetic -- thread ids, "
    "loop counters, integer parameters, slots returned by atomic_add -- is proved to satisfy 0 <= idx < shape for the launch extents "
    "of that site, under the kernel's own guards (capacity tests such as `efcid >= njmax_in: return`, live-range tests against "
    "nacon / nefc). Array shapes and size parameters are tied to the extents of the types.py field specs, temporaries to their "
    "allocation in the launching host function; lower and upper bound are separate obligations. About 13000 obligations; they hold for all sizes and capacities at once, including the "
    "degenerate ones (njmax = 0, naconmax = 0, nv = 0) no fixture has.",
    "note": _BASE + "Structural part of the property only. Not claimed: subscripts whose index, loop bound or guard depends on values "
    "stored in Model / Data (listed by kernel, formal, dimension and side in contracts/bounds_needs_wf.txt; they need MODEL_WF facts or "
    "producer contracts), launches whose extent is not an expression over model / data sizes, kernels outside the dialect "
    "(contracts/scope_C17.txt), everything about 'never crashes' beyond array bounds and about put_model / make_data rejecting invalid "
    "configurations. make_data / put_data allocating exactly the spec shapes is assumed.",
    "design_ref": "DESIGN.md 3 (C17), 12.6",
  },
  "C18": {
    "text": "The part of the statement that is a per-function contract: no pair with overlapping projections is lost by the sweep. "
    "collision_core.sap_binary_search (while loop, quantified invariant discharged by goal-directed instantiation) returns, on a "
    "sorted segment, the boundary r with values[lower..r) <= value < values[r..upper); collision_core.sap_range, run against that "
    "contract (its preconditions are obligations at the call site), emits for the element at sorted position s a range that contains "
    "every later element whose projected lower bound does not exceed the upper bound of s, and stays inside the segment; "
    "math.upper_tri_index maps {0 <= i < j < n} injectively into [0, n(n-1)/2), so the all-pairs table and the sweep's pair-id lookup "
    "address the same entry for the same pair. collision_driver._aabb_filter is conservative: for ANY point of box 1 and ANY point of "
    "box 2 (symbolic points inside the half sizes, frames arbitrary matrices), if the filter rejects the pair the two world points "
    "differ by more than margin1 + margin2 along a world axis -- proved in steps (sign lemmas per matrix entry, corner projections "
    "bound every box point per box and axis, conclusion).",
    "note": _BASE + "Not claimed: the work-package decode of _sap_broadphase, the sphere / OBB / plane filters and the margins the filters use "
    "(D9, explicit pair margins ignored by the SPHERE/AABB/OBB filters, was repaired in /repo: see C19), sortedness produced by warp's sort (external), and equality of the resulting contact multisets "
    "as such.",
    "design_ref": "DESIGN.md 3 (C18), 12.16",
  },
  "C19": {
    "text": "The pair table: the vectorised numpy slice of io.put_model that computes Model.nxn_pairid[:, 0] (the real statements, "
    "re-extracted every run and read pointwise for one symbolic geom pair g1 < g2, wpv/npflow.py) marks an ordinary pair kept (-1) "
    "EXACTLY if the geoms pass the contype/conaffinity test (32-bit vectors), belong to different weld bodies, are not weld-parent and "
    "weld-child with both non-world (unless parent filtering is disabled) and are not excluded, and -2 otherwise; afterwards the "
    "column is changed only by the loop that stores explicit pair i at the position of (pair_geom1[i], pair_geom2[i]). "
    "The device side (what is done with an entry), as contracts on the real functions: "
    "collision_core.write_contact allocates nothing for a filtered-out pair that no sensor asks for, reports a pair that is explicit "
    "or passed the filters whenever the geoms are within margin + gap, and sets the CONSTRAINT / SENSOR type bits exactly by those "
    "conditions; collision_core.contact_margin_gap and contact_material_params give an explicit pair the margin, gap, condim, "
    "solref, solreffriction, solimp, adhesion and (floored) friction of the pair's own row in the world's own batch row, and an "
    "ordinary pair the sum of the geoms' margins / gaps and the condim / friction of the higher-priority geom (maximum on equal "
    "priority); at every place where the broadphase filter decides about a candidate pair, explicit pairs bypass it (the filters only "
    "know the geoms' margins). Found and repaired: explicit pairs with a margin larger than the geom margins lost their contact.",
    "note": _BASE + "Trusted: numpy's elementwise semantics of the operators in the slice and np.triu_indices enumerating g1 < g2 in the "
    "order upper_tri_index addresses. NOT covered: the collision-sensor column, that the broadphase kernels copy the table "
    "entry unchanged (closure-built filter functions), and the solref / solimp mixing weights of ordinary pairs. The filter-bypass "
    "obligation is a source-level (AST) obligation.",
    "design_ref": "DESIGN.md 3 (C19), 12.9",
  },
  "C20": {
    "text": "Contracts on the real closed-form contact functions, callers checked against callee contracts: math.orthogonals / "
    "math.make_frame return an orthonormal right-handed frame whose first row is the normalised normal (Lagrange and triple-product "
    "identities as separately proved lemmas); collision_primitive_core.plane_sphere, sphere_sphere, sphere_capsule, plane_capsule, "
    "plane_box and sphere_box (in the box frame, centre inside / outside, plus a two-run pose-covariance obligation for a general box pose) satisfy the geometric spec taken from the statement: the normal is unit (and parallel to the centre line / equal to the "
    "plane normal), and the two points pos -/+ normal*dist/2 lie on the surface of the first / second geom, i.e. dist is the signed "
    "separation along the normal and pos is midway between the surfaces; plane_capsule's frame is orthonormal in both of its branches; "
    "the plane_sphere and sphere_sphere wrappers store make_frame(core normal), core dist and core pos in the contact they allocate. "
    "Found and repaired: plane_capsule returned a non-orthonormal frame for a capsule standing along a tilted plane's normal.",
    "note": _BASE + "Exact over the reals. Geoms are assumed well-formed (radii >= 0, unit plane normals and capsule axes, orthonormal "
    "geom rotations). closest_segment_point is regularised by 1e-6, so capsule pairs are proved to touch a point OF the axis segment, "
    "not the closest one. plane_ellipsoid is proved only for its plane side. capsule_capsule, sphere_cylinder, plane_cylinder, "
    "capsule_box, box_box, triangles, height fields, GJK/EPA and the convex multi-contact paths are not under contract; of "
    "the wrappers only plane_sphere and sphere_sphere are.",
    "design_ref": "DESIGN.md 3 (C20), 12.5",
  },
  "C23": {
    "text": "Modular contracts on the real functions (callers are checked against callee contracts, not bodies): math.mul_quat is "
    "norm-multiplicative, axis_angle_to_quat yields a unit quaternion for a unit axis (identity for zero axis and angle), quat_integrate "
    "returns a unit quaternion for EVERY input (unnormalised or zero quaternion, zero velocity), quat_to_mat of a unit quaternion is "
    "orthonormal with determinant +1. forward._next_position (in place and with a separate input, as at its launch sites) leaves a unit "
    "quaternion in the four slots of every free / ball joint and writes only the joint's own slots; every launch or copy that writes "
    "Data.qpos inside step()/step2() is followed on its path by such a launch. smooth._kinematics_branch stores only unit quaternions in "
    "xquat for any qpos (loop invariant on the joint loop, thread-modular invariant 'all xquat cells are unit'); the kernels storing xmat, "
    "ximat, geom_xmat, site_xmat and fixed-mode cam_xmat store quat_to_mat of a product of unit quaternions, i.e. a proper rotation.",
    "note": _BASE + "Exact over the reals: float32 round-off of the final normalisation is not modelled. wp.normalize semantics (zero "
    "quaternion -> warp identity, zero vector -> zero) audited natively. MODEL_WF.unit_quats (body/geom/site/cam quaternions, body_iquat, "
    "hinge axes are normalised by the MuJoCo compiler), MODEL_WF.joint_slots (qpos slots of different joints are disjoint) and "
    "'xquat[:,0] is the identity' are assumed. Target-tracking camera frames, light directions, flex frames are not covered.",
    "design_ref": "DESIGN.md 3 (C23), 12.5",
  },
  "C24": {
    "text": "solver._eval_constraint carries a contract (D > 0, frictionloss >= 0, TT >= 0, mu, D0 > 0 for elliptic rows): friction-loss "
    "rows |force| <= frictionloss, limit / frictionless / pyramidal rows force >= 0, state SATISFIED => force 0, equality rows "
    "force = -D*jaref, the state is one of the ConstraintState codes; proved against its body. The real kernel "
    "solver._update_constraint_efc is executed against that contract (its preconditions are obligations at the call site, TT >= 0 a "
    "loop invariant): for every live row of a world that is still solving it stores that value with the row classified by position, so "
    "the three clauses hold for the stored efc.force / efc.state; done worlds and rows beyond nefc are untouched. Elliptic contacts "
    "(condim 3 and 4, the kernel run with the contact's rows at symbolic addresses): normal force >= 0 and "
    "sum_k (f_k/friction_k)^2 <= f_normal^2 in all three zones, given the relation REL between the rows' D values, and REL itself "
    "(D_k * mu^2 == D_0 * friction_k^2 when unclamped) is proved as a two-thread relational obligation on the real "
    "constraint._efc_contact_update kernel.",
    "note": _BASE + "Exact over the reals. Preconditions on the rows (D > 0, frictionloss >= 0, equality < friction < other rows, "
    "friction coefficients and impratio > 0) are what make_constraint establishes (C05, not claimed) and are assumed here. Not "
    "decided: qfrc_constraint = J^T force (tile reduction), elliptic cones with condim 6, flex contacts' REL, rows clamped at "
    "MJ_MINVAL, partially allocated contacts after a row overflow.",
    "design_ref": "DESIGN.md 3 (C24), 12.5",
  },
  "C25": {
    "text": "Transition contracts on the real termination kernels (_solve_done, _solve_cg_finalize; ctx.done aliased for in/out as at "
    "the launch site): per world niter increments by one and never exceeds the limit, the invariant 'not done => niter < iterations' is "
    "preserved, done worlds are untouched, nsolving is decremented exactly when a world becomes done, and -- stated relationally, without "
    "naming the tolerance test -- the ITERATIONS bit is newly set iff the world stops in this transition but would not have stopped with "
    "a larger limit on the same inputs. Initialisation and both host loop forms are checked against the invariant; transparency is the "
    "DONE_GUARD obligation for every kernel launched (transitively, through the real launch-site bindings) from _solver_iteration: with "
    "its world done, no write to any Data field, ctx.grad, ctx.grad_scale, ctx.done or nsolving can execute.",
    "note": _BASE + "T4 for the nsolving counter; wp.capture_while semantics external. iterations < 0 outside the precondition; "
    "iterations == 0 read as 'no transition'. Tile intrinsics abstracted to row writes (enough for guards).",
    "design_ref": "DESIGN.md 3 (C25), 9.2",
  },
  "C11": {
    "text": "RACE schema over every kernel of the repository except the flex collision and block-cooperative (tiled) ones "
    "(census re-enumerated on every run, all closure specialisations, two-thread encoding of the real kernel body): a plain store by "
    "one thread never hits a cell that a different thread of the same launch stores to, reads or updates atomically, for subscripts "
    "that are pure index arithmetic over thread ids, loop counters, integer parameters and slots returned by atomic_add, under the "
    "launch extents of the kernel's launch sites. Atomic-against-atomic pairs are accepted as commutative updates; blocks returned by "
    "atomic_add to different threads are disjoint (allocator axiom, two-thread form). The sleep waking kernels are checked without "
    "any assumption that two threads touch different sleep cycles -- and fail: the order dependence of _wake_tree is a known finding.",
    "note": _BASE + "Race-freedom core of the property only. Not claimed: accesses through index tables (they need injectivity facts "
    "about Model tables: this includes the level-parallel tree kernels of smooth.py), tiled kernels, flex collision kernels, the "
    "three lane-cooperative kernels of contracts/race_needs_wf.txt, round-off of reordered float sums, and everything that would need "
    "a whole-step argument (e.g. that listing order of contacts does not influence the solver beyond row order).",
    "design_ref": "DESIGN.md 3 (C11), 12.8",
  },
  "C12": {
    "text": "Host-level data-flow analysis of the real orchestration code of forward() and step() (Euler, implicit, RK4; events in "
    "source order, calls inlined, conditions as propositional atoms, every launch joined with the access summary of the real kernel): "
    "(STALE_READ) every Data / solver-context array that a launch reads and that is not part of the integration state has been "
    "written earlier in the same call under conditions that cover the read (z3 over the atoms; a launch over an empty extent "
    "reads nothing) -- a read without an earlier writer is information from whatever the Data object did before; (ACC_INIT) every "
    "array a kernel of step() accumulates into is (re)initialised earlier in the same step; (counters) nefc, ne, nf, nl, nacon, "
    "ncollision, jtdaj_nblock are zeroed before their first use on every path that reaches it. Found and repaired: the connect / "
    "weld row builders read cvel / cdof_dot of the PREVIOUS call (forward() of two Data objects with the same state differed by 0.9 "
    "in qacc, and from MuJoCo).",
    "note": _BASE + "Event-level analysis: that the earlier writer covers every CELL the reader uses is the live-range discipline of "
    "the shared buffers (C09 SLOT, C17 BOUNDS), not decided here. Claimed with sleeping disabled (sleep bookkeeping is state outside "
    "the statement's list). Fields whose first read cannot be justified propositionally are listed with reasons in "
    "contracts/stale_read_reviewed.txt; entries of kind 'conditions' still require an earlier writer. Bit-identity of floating-point "
    "sums, kernels outside the dialect (syntactic summaries) and user callbacks are outside the claim.",
    "design_ref": "DESIGN.md 3 (C12), 12.7",
  },
  "C13": {
    "text": "io.reset_data is executed symbolically as a whole (host code + its five nested kernels bound through the real launch sites, "
    "for reset=None, a bool mask and an integer mask). For a symbolic selected world every field of the integration state and every "
    "reported output is proved equal to the FRESH value (MuJoCo's mj_resetData state), for a symbolic unselected world every per-world "
    "field and its reported contacts are proved unchanged, and nothing outside the declared reset frame is written. Holds for all sizes "
    "(na > nu, nv < nq, ...), masks and prior states at once. Two genuine defects remain as known findings (history buffers never reset; "
    "partial reset corrupts other worlds' reported contacts); one was repaired (act[nu:na]).",
    "note": _BASE + "FRESH spec is MuJoCo's documented reset state (make_data is numpy host code: audited natively against it, not proved). "
    "MODEL_WF axioms used: body_mocapid bijection, nv <= nq (assumed, audited). sleep.update_sleep enters through its frame contract "
    "(proved: update_sleep#frame); sleep bookkeeping values are claimed for SLEEP off. 'Same subsequent trajectory' rests on C12.",
    "design_ref": "DESIGN.md 3 (C13)",
  },
  "C14": {
    "text": "io.reset_data_keyframe (host code, valid_key_mask, the inlined reset_data with its kernels, reset_keyframe_data) is executed "
    "symbolically as one program for a per-world key array and for a scalar key: worlds with a valid index get the fresh reset plus the "
    "keyframe's time/qpos/qvel/act/ctrl/mocap rows, worlds with an invalid index are provably untouched in every written field, key-table "
    "rows are only read with an index in [0,nkey), an invalid scalar key or a key array of wrong shape raises before any launch.",
    "note": _BASE + "Same FRESH spec, MODEL_WF axioms and update_sleep frame contract as C13; history after reset: see C13 known finding.",
    "design_ref": "DESIGN.md 3 (C14)",
  },
  "C15": {
    "text": "get_state/set_state are verified at the level of the public host functions (the nested kernel is bound through the real "
    "wp.launch site): for a symbolic signature, symbolic sizes, world and mask, every state component lands at the MuJoCo offset, "
    "nothing else is written, inactive worlds are untouched, set;get is the identity, out-of-range signatures raise before any launch. "
    "All obligations are discharged by SMT for all inputs at once, which the 2^14 x models x masks space of the property needs.",
    "note": _BASE + "Element sizes of mjtState are taken from MuJoCo's documentation (audited against mj_stateSize in the thorough tier). "
    "Round trip on eq_active is claimed for inputs 0.0/1.0.",
    "design_ref": "DESIGN.md 3 (C15)",
  },
}

_NUM = "oracle is the floating-point output of the external MuJoCo C library; a contract would have to re-specify MuJoCo itself (a model of the oracle) and compare up to float32 round-off, which the Real-arithmetic encoding cannot express"

NOT_APPLICABLE = {
  "C01": "kinematics vs mj_kinematics: " + _NUM,
  "C02": "CRB/RNE/passive forces vs MuJoCo numerics, tile Cholesky intrinsics opaque: " + _NUM,
  "C03": "actuator force laws vs MuJoCo numerics: " + _NUM,
  "C04": "contact values vs mj_collision up to convex-solver tolerance; GJK/EPA convergence is not a per-call postcondition (set-level parts are decided under C18/C19/C20)",
  "C06": "optimality of an iterative solver up to a tolerance is a convergence property, not a postcondition of any single function",
  "C07": "sensor values vs MuJoCo numerics: " + _NUM,
  "C08": "integrator outputs vs mj_step numerics: " + _NUM,
  "C21": "SPD-ness and Mx=b for unbounded dimension through wp.tile_cholesky intrinsics; no integer conjunct in the statement",
  "C22": "J*qvel / finite-difference consistency / dense==sparse simulation are floating-point linear-algebra identities",
  "C26": "forward/inverse agreement within solver residual: numeric",
  "C27": "analytic derivative vs finite differences: numeric",
  "C31": "put_model/put_data/get_data_into are ~2000 lines of numpy/ctypes host code copying between two external object models; outside the dialect the verifier translates",
  "C32": "per-flag agreement with MuJoCo: the oracle is MuJoCo's behaviour under each flag",
  "C33": "set_const vs mj_setConst numerics",
  "C35": "renderer vs ray caster through wp.bvh_query_ray intrinsics and float shading",
  "C40": "flex agreement with MuJoCo numerics",
}
