"""C30 Delayed controls and sensors read the right past sample (buffer mechanics).

Logical view of one circular buffer  [user, cursor, times[n], values[n]]  at `buf_offset` of a world's history row:
   L(i) = times[(cursor + 1 + i) % n],  V(i) = values[(cursor + 1 + i) % n],   i = 0 (oldest) .. n-1 (newest).
Contracts on the real functions of history.py (callers are run against callee contracts):
 (P) _history_physical_index: result in [0, n), newest (logical n-1) is the cursor cell, injective on [0, n).
 (F) _history_find_index (while loop, invariant  L(lo) < t <= L(hi)): 0 if t <= L(0); n if t > L(n-1); otherwise the
     index r in [1, n-1] with L(r-1) < t <= L(r).
 (R) _history_read_scalar: before the oldest / after the newest sample the end value; at a sample time (1e-6) that sample;
     otherwise, with the bracket L(k) < t <= L(k+1) from (F): zero-order hold returns V(k), linear interpolation
     V(k) + (t - L(k)) / (L(k+1) - L(k)) * (V(k+1) - V(k)).
 (I) _history_insert_scalar with a time newer than the newest sample: the cursor advances by one (mod n), the logical
     sequence is the old one shifted by one with (t, value) appended, nothing outside the buffer's own cells changes.
 (K) the kernels: _read_ctrl_delayed_kernel reads at  time - delay  from the actuator's own buffer with its own
     interpolation (no delay / no buffer: ctrl itself); _insert_ctrl_history_kernel inserts (time, ctrl) into the
     actuator's own buffer; launched over all actuators of all worlds on Data.history / Data.ctrl / Data.time.
"""
import z3

from wpv import launchsites
from wpv.contracts import FuncContract, Run
from wpv.runner import Result

from .common import canary

INFO = {
  "trusted": [
    "buffer well-formedness HIST_WF (n >= 1, 0 <= cursor < n, cursor stored as an exact integer-valued float) is a precondition: established by put_data (copies MuJoCo's buffers) and preserved by insert (I); make_data / reset_data do NOT establish MuJoCo's initial buffer (defects D1/D2, see DESIGN.md 7: C30 is claimed for the buffer mechanics only)",
    "times are compared with the code's own 1e-6 tolerance",
    "float(cursor) / int(buf[..]) conversions are exact (T2)",
  ],
  "undecided": [
    "initial buffer content after make_data / reset_data (D1, D2: genuine defects recorded in DESIGN.md, not repaired)",
    "cubic interpolation beyond linear precision (the spline's end-segment behaviour and its exact weights on curved data); vector-valued sensor buffers (_history_read_vector / _history_insert_vector) and the sensor interval logic",
    "out-of-order inserts (time older than the newest sample) and termination of the binary search",
  ],
}

PHYS = "history:_history_physical_index"
FIND = "history:_history_find_index"
READ = "history:_history_read_scalar"
INS = "history:_history_insert_scalar"

WF = ["n >= 1", "0 <= cursor and cursor < n"]


def Lb(buf, i):
  return f"{buf}[worldid, buf_offset + 2 + (cursor + 1 + ({i})) % n]"


def Vb(buf, i):
  return f"{buf}[worldid, buf_offset + 2 + n + (cursor + 1 + ({i})) % n]"


def contracts():
  C = {}
  C[PHYS] = FuncContract(PHYS, requires=["n >= 1", "0 <= cursor and cursor < n", "0 <= logical and logical < n"], ensures=["0 <= result and result < n", "result == (cursor + 1 + logical) % n", "implies(logical == n - 1, result == cursor)"])
  L = lambda i: Lb("buf", i)
  C[FIND] = FuncContract(
    FIND,
    requires=WF,
    ensures=[
      f"implies(t <= {L(0)}, result == 0)",
      f"implies(t > {L(0)} and t > {L('n - 1')}, result == n)",
      f"implies(t > {L(0)} and t <= {L('n - 1')}, 1 <= result and result <= n - 1 and {L('result - 1')} < t and t <= {L('result')})",
    ],
  )
  return C


def g_phys(tier):
  C = contracts()
  obs = C[PHYS].verify(prefix="_history_physical_index")
  # injectivity on [0, n): two logical indices with the same physical cell are equal
  R = Run(PHYS, pre=["n >= 1", "0 <= cursor and cursor < n", "0 <= logical and logical < n"])
  l2 = R.var("l2")
  obs.append(R.obligation("_history_physical_index#injective", "implies(0 <= l2 and l2 < n and (cursor + 1 + l2) % n == result, l2 == logical)", meta={"goal": "distinct logical indices of [0, n) map to distinct physical cells"}))
  return obs


def g_find(tier):
  inv = {(FIND, 0): ["0 <= lo and lo <= hi and hi <= n - 1", f"{Lb('buf', 'lo')} < t and t <= {Lb('buf', 'hi')}"]}
  C = contracts()
  R = Run(FIND, invariants=inv, pre=WF)
  obs = [canary(R, "_history_find_index#canary")]
  obs += R.side_obligations("_history_find_index#")
  for i, text in enumerate(C[FIND].ensures):
    obs.append(R.obligation(f"_history_find_index#ensures.{i}", text, kind="contract"))
  # bounds of every buffer access: the physical index stays inside the times block
  return obs


class _Rec(FuncContract):
  """a contract that also records its calls (arguments, fresh result, path condition)"""

  def apply(self, ex, args, kw, fr, e):
    r = super().apply(ex, args, kw, fr, e)
    self.__dict__.setdefault("calls", []).append((args, r, ex.guard_now(fr)))
    return r


def _cursor_setup(R):
  R.var("cursor")
  for v in ("k", "x"):
    R.var(v)


def g_read(tier):
  """(R) against the contract of _history_find_index"""
  C = contracts()
  obs = []
  L = lambda i: Lb("buf", i)
  V = lambda i: Vb("buf", i)
  for interp in (0, 1, 2):
    rec = _Rec(FIND, requires=C[FIND].requires, ensures=C[FIND].ensures)
    R = Run(READ, contracts={FIND: rec}, setup=_cursor_setup, pre=["n >= 1", "cursor == int(buf[worldid, buf_offset + 1]) and 0 <= cursor and cursor < n", f"interp == {interp}"])
    tag = f"_history_read_scalar[interp={interp}]"
    obs.append(canary(R, f"{tag}#canary"))
    obs += R.side_obligations(tag + "#")
    obs.append(R.obligation(f"{tag}#before_oldest", f"implies(t <= {L(0)} + 1e-6, result == {V(0)})", meta={"goal": "at or before the oldest sample: the oldest value"}))
    obs.append(R.obligation(f"{tag}#after_newest", f"implies(t > {L(0)} + 1e-6 and t >= {L('n - 1')} - 1e-6, result == {V('n - 1')})", meta={"goal": "at or after the newest sample: the newest value"}))
    calls = getattr(rec, "calls", [])
    ok = len(calls) == 1
    obs.append(Result(oid=f"{tag}#uses_find_index", status="discharged" if ok else "violated", kind="contract", func=READ, backend="analysis", meta={"function": READ, "goal": "the bracket comes from one call of _history_find_index (the function under contract)"}))
    if not ok:
      continue
    # the bracket index: j = (index returned by find_index) - 1, so that L(j) < t <= L(j+1) by its contract
    R.qvars["j"] = calls[0][1] - 1
    interior = f"t > {L(0)} + 1e-6 and t < {L('n - 1')} - 1e-6"
    obs.append(R.obligation(f"{tag}#interior.bracket", f"implies({interior}, 0 <= j and j < n - 1 and {L('j')} < t and t <= {L('j + 1')})", meta={"goal": "strictly between oldest and newest: the index from find_index brackets t, L(j) < t <= L(j+1)"}))
    obs.append(R.obligation(f"{tag}#interior.exact_sample", f"implies({interior} and abs(t - {L('j + 1')}) < 1e-6, result == {V('j + 1')})", meta={"goal": "within 1e-6 of the bracket's upper sample time: that sample's value"}))
    if interp == 2:
      # cubic (Catmull-Rom with finite-difference tangents on the actual, possibly uneven, sample times): stated by
      # what characterises it rather than by its formula -- LINEAR PRECISION: if the four samples around t lie on a
      # straight line v = a*time + b, the result is a*t + b (a uniform-grid simplification of the tangents breaks this
      # as soon as the sample times are unevenly spaced)
      R.var("a", "float")
      R.var("b", "float")
      line = " and ".join(f"{V(x)} == a*{L(x)} + b" for x in ("j - 1", "j", "j + 1", "j + 2"))
      mono = f"{L('j - 1')} < {L('j')} and {L('j')} < {L('j + 1')} and {L('j + 1')} < {L('j + 2')}"
      obs.append(R.obligation(f"{tag}#interior.linear_precision", f"implies({interior} and not (abs(t - {L('j + 1')}) < 1e-6) and 1 <= j and j + 2 <= n - 1 and {mono} and {line}, result == a*t + b)", meta={"goal": "cubic interpolation reproduces straight lines exactly, for any (uneven) spacing of the four surrounding samples", "timeout_ms": 60000}))
      continue
    if interp == 0:
      want = V("j")
      what = "zero-order hold: the value of the bracket's lower sample V(j)"
    else:
      want = f"{V('j')} + (t - {L('j')}) / ({L('j + 1')} - {L('j')}) * ({V('j + 1')} - {V('j')})"
      what = "linear interpolation between the bracket's samples"
    obs.append(R.obligation(f"{tag}#interior.value", f"implies({interior} and not (abs(t - {L('j + 1')}) < 1e-6), result == {want})", meta={"goal": what, "timeout_ms": 30000}))
  return obs


def g_insert(tier):
  """(I) insert newer than the newest sample"""
  C = contracts()
  R = Run(INS, contracts={FIND: C[FIND]}, setup=_cursor_setup, pre=["n >= 1", "cursor == int(buf_out[worldid, buf_offset + 1]) and 0 <= cursor and cursor < n", "float(cursor) == buf_out[worldid, buf_offset + 1]"])
  obs = [canary(R, "_history_insert_scalar#canary")]
  obs += R.side_obligations("_history_insert_scalar#")
  L0 = lambda i: "old(" + Lb("buf_out", i) + ")"
  V0 = lambda i: "old(" + Vb("buf_out", i) + ")"
  newer = f"t > {L0('n - 1')} + 1e-6 and t > {L0(0)}"
  c1 = "((cursor + 1) % n)"
  L1 = lambda i: f"buf_out[worldid, buf_offset + 2 + ({c1} + 1 + ({i})) % n]"
  V1 = lambda i: f"buf_out[worldid, buf_offset + 2 + n + ({c1} + 1 + ({i})) % n]"
  obs.append(R.obligation("_history_insert_scalar#newer.cursor_advances", f"implies({newer}, buf_out[worldid, buf_offset + 1] == float({c1}))", meta={"goal": "the cursor advances by one modulo n"}))
  obs.append(R.obligation("_history_insert_scalar#newer.appended", f"implies({newer}, {L1('n - 1')} == t and {V1('n - 1')} == value)", meta={"goal": "(t, value) becomes the newest logical sample", "timeout_ms": 30000}))
  obs.append(R.obligation("_history_insert_scalar#newer.shifted", f"implies({newer} and 0 <= k and k < n - 1, {L1('k')} == {L0('k + 1')} and {V1('k')} == {V0('k + 1')})", meta={"goal": "every other logical sample is the old one shifted by one (the oldest is dropped)", "timeout_ms": 30000}))
  for case, hyp in (("newer", newer), ("older", f"t <= {L0(0)}")):
    obs.append(R.obligation(f"_history_insert_scalar#frame[{case}]", f"implies(({hyp}) and (x < buf_offset + 1 or x >= buf_offset + 2 + 2 * n), buf_out[worldid, x] == old(buf_out[worldid, x]))", meta={"goal": "nothing outside this buffer's cursor / times / values cells is written (out-of-order inserts, whose shifting loop is not summarised, are not covered)", "timeout_ms": 30000}))
  obs.append(Result(oid="_history_insert_scalar#uses_find_index", status="discharged" if C[FIND].uses >= 1 else "violated", kind="contract", func=INS, backend="analysis", meta={"function": INS, "goal": "the insert position comes from _history_find_index (the function under contract)"}))
  return obs


def g_kernels(tier):
  obs = []
  # read: at time - delay from the actuator's own buffer with its own interpolation
  rd = FuncContract(READ, ensures=[])
  calls = []

  class Rec(FuncContract):
    def apply(self, ex, args, kw, fr, e):
      r = super().apply(ex, args, kw, fr, e)
      calls.append((args, r, ex.guard_now(fr)))
      return r

  key = "history:_read_ctrl_delayed_kernel"
  rc = Rec(READ, ensures=[])
  R = Run(key, contracts={READ: rc})
  obs.append(canary(R, "_read_ctrl_delayed_kernel#canary"))
  ok = len(calls) == 1
  obs.append(Result(oid="_read_ctrl_delayed_kernel#one_read", status="discharged" if ok else "violated", kind="contract", func=key, backend="analysis", meta={"function": key, "goal": "one call of _history_read_scalar"}))
  if ok:
    args, res, guard = calls[0]
    names = ["buf", "worldid", "buf_offset", "n", "t", "interp"]
    a = dict(zip(names, args))
    want = {
      "worldid": R.term("tid0"),
      "buf_offset": R.term("actuator_historyadr[tid1]"),
      "n": R.term("actuator_history[tid1][0]"),
      "t": R.term("time_in[tid0] - actuator_delay[tid1]"),
      "interp": R.term("actuator_history[tid1][1]"),
    }
    for nm, w in want.items():
      obs.append(R.obligation(f"_read_ctrl_delayed_kernel#arg.{nm}", z3.Implies(guard if isinstance(guard, z3.ExprRef) else z3.BoolVal(bool(guard)), a[nm] == w), meta={"goal": f"_history_read_scalar is called with {nm} = the actuator's own {nm} (time - delay for t)"}))
    same = a["buf"] is R.params["history_in"]
    obs.append(Result(oid="_read_ctrl_delayed_kernel#arg.buf", status="discharged" if same else "violated", kind="contract", func=key, backend="analysis", meta={"function": key, "goal": "reads from the history array"}))
    obs.append(R.obligation("_read_ctrl_delayed_kernel#delayed_value_stored", z3.Implies(R.term("actuator_history[tid1][0] != 0 and actuator_delay[tid1] != 0.0"), R.term("ctrl_out[tid0, tid1]") == res), meta={"goal": "a delayed actuator gets the value read from its buffer"}))
  obs.append(R.obligation("_read_ctrl_delayed_kernel#undelayed_copy", "implies(actuator_history[tid1][0] == 0 or actuator_delay[tid1] == 0.0, ctrl_out[tid0, tid1] == ctrl_in[tid0, tid1])", meta={"goal": "no buffer or zero delay: ctrl itself"}))
  # insert: (time, ctrl) into the actuator's own buffer
  calls.clear()
  key2 = "history:_insert_ctrl_history_kernel"

  class RecI(FuncContract):
    def apply(self, ex, args, kw, fr, e):
      calls.append((args, None, ex.guard_now(fr)))
      return None

    def _ret_type(self):
      return None

  R2 = Run(key2, contracts={INS: RecI(INS, ensures=[])})
  ok = len(calls) == 1
  obs.append(Result(oid="_insert_ctrl_history_kernel#one_insert", status="discharged" if ok else "violated", kind="contract", func=key2, backend="analysis", meta={"function": key2, "goal": "one call of _history_insert_scalar"}))
  if ok:
    args, _, guard = calls[0]
    names = ["worldid", "buf_offset", "n", "t", "value", "buf_out"]
    a = dict(zip(names, args))
    want = {
      "worldid": R2.term("tid0"),
      "buf_offset": R2.term("actuator_historyadr[tid1]"),
      "n": R2.term("actuator_history[tid1][0]"),
      "t": R2.term("time_in[tid0]"),
      "value": R2.term("ctrl_in[tid0, tid1]"),
    }
    for nm, w in want.items():
      obs.append(R2.obligation(f"_insert_ctrl_history_kernel#arg.{nm}", z3.Implies(guard if isinstance(guard, z3.ExprRef) else z3.BoolVal(bool(guard)), a[nm] == w), meta={"goal": f"_history_insert_scalar is called with {nm} = the actuator's own {nm} (current time and ctrl)"}))
    g = guard if isinstance(guard, z3.ExprRef) else z3.BoolVal(bool(guard))
    obs.append(R2.obligation("_insert_ctrl_history_kernel#every_buffered_actuator", g == R2.term("actuator_history[tid1][0] != 0"), meta={"goal": "the insert happens exactly for actuators that have a buffer"}))
  # launch sites
  want_b = {
    "history:_read_ctrl_delayed_kernel": ({"time_in": "d.time", "history_in": "d.history", "ctrl_in": "d.ctrl", "actuator_delay": "m.actuator_delay", "actuator_history": "m.actuator_history", "actuator_historyadr": "m.actuator_historyadr"}, "(d.nworld,m.nu)"),
    "history:_insert_ctrl_history_kernel": ({"time_in": "d.time", "history_out": "d.history", "ctrl_in": "d.ctrl", "actuator_history": "m.actuator_history", "actuator_historyadr": "m.actuator_historyadr"}, "(d.nworld,m.nu)"),
  }
  for k, (b, dim) in want_b.items():
    ss = launchsites.sites_of_kernel(k)
    ok = bool(ss) and all(all(s.binding.get(f) == v for f, v in b.items()) and s.dim.replace(" ", "") == dim for s in ss)
    obs.append(Result(oid=f"{k.split(':')[1]}#launch", status="discharged" if ok else "violated", kind="launch-binding", func=k, backend="launch-site analysis", meta={"function": k, "goal": f"launched over all actuators of all worlds, bound as {b}", "sites": [(s.host, s.dim) for s in ss]}))
  return obs


def g_init(tier):
  """initial buffer content: make_data takes MuJoCo's (source obligation + bounded native comparison); reset_data must
  re-establish it for the worlds it resets (known finding D2: it does not write Data.history at all)"""
  import ast

  from wpv import extract

  obs = []
  md = extract.get_func("io:make_data")
  ok = False
  for n in ast.walk(md.node):
    if isinstance(n, ast.Dict):
      for k, v in zip(n.keys, n.values):
        if isinstance(k, ast.Constant) and k.value == "history":
          t = ast.unparse(v)
          ok = "mjd.history" in t and "nworld" in t
  built = any(isinstance(n, ast.Assign) and ast.unparse(n.targets[0]) == "mjd" and ast.unparse(n.value).replace(" ", "") == "mujoco.MjData(mjm)" for n in ast.walk(md.node))
  obs.append(Result(oid="make_data#history_is_mujocos_initial_buffer", status="discharged" if ok and built else "violated", kind="host", func=md.key, backend="source analysis", meta={"function": md.key, "source_hash": md.source_hash, "goal": "make_data initialises Data.history with the buffer of a fresh mujoco.MjData (cursors and sample times), replicated for every world"}))
  # reset_data: some launched kernel writes d.history
  from wpv import launchsites

  ss = [s for s in launchsites.all_sites() if s.host.startswith("io:reset_data") and not s.host.startswith("io:reset_data_keyframe")]
  writes = [s.kernel for s in ss if "d.history" in s.binding.values()]
  obs.append(Result(oid="reset_data#history_reset", status="discharged" if writes else "violated", kind="host", func="io:reset_data", backend="launch-site analysis", meta={"function": "io:reset_data", "goal": "reset_data re-initialises the history buffers of the worlds it resets", "launches_binding_d.history": writes, "launches": len(ss)}))
  # bounded native stand-in: make_data's buffer equals MuJoCo's on a model with a delayed actuator and a delayed sensor
  import os
  import subprocess

  from wpv.consts import REPO, VENV_PY

  here = os.path.dirname(os.path.dirname(os.path.abspath(__file__)))
  env = dict(os.environ, PYTHONPATH=REPO)
  r = subprocess.run([VENV_PY, os.path.join(here, "scenarios", "c30_initial_history.py")], capture_output=True, text=True, env=env, cwd="/")
  obs.append(Result(oid="make_data#history_native_audit", status="bounded", kind="bounded", func=md.key, bound="1 model (delayed motor nsample=4 + delayed jointpos sensor nsample=3), nworld=2, 5 steps", cases=1, reason=(r.stdout + r.stderr)[-300:], meta={"function": md.key, "goal": "bounded: make_data's buffer equals MjData's, and stays equal to MuJoCo's over 5 steps", "exit": r.returncode}))
  if r.returncode != 0:
    obs.append(Result(oid="make_data#history_native_audit.failed", status="violated", kind="host", func=md.key, backend="native run", meta={"function": md.key, "goal": "the native comparison of make_data's history buffer with MuJoCo's passes", "output": (r.stdout + r.stderr)[-600:]}))
  return obs


def groups(tier):
  return [("phys", g_phys), ("find", g_find), ("read", g_read), ("insert", g_insert), ("kernels", g_kernels), ("init", g_init)]
