"""shared helpers for property modules"""
from wpv.contracts import Obligation, Run
from wpv.hostexec import HostRun
from wpv.runner import Result
from wpv.sym import SOME, T_BOOL, T_INT, T_FLOAT

MODEL_SIZES = ["nq", "nv", "nu", "na", "nbody", "neq", "nmocap", "nuserdata", "nhistory", "nsensordata", "ntree", "nkey", "ngeom", "njnt"]


def bool_world_mask(name):
  """host argument factory: a bool array of shape (d.nworld,)"""

  def mk(ex):
    d = ex.root("d", "Data")
    r = ex.new_array(name, 1, T_BOOL)
    ex.assume(ex.shape_sym(r, 0) == ex.host_attr(d, "nworld"))
    return r

  return mk


def int_world_array(name):
  def mk(ex):
    d = ex.root("d", "Data")
    r = ex.new_array(name, 1, T_INT)
    ex.assume(ex.shape_sym(r, 0) == ex.host_attr(d, "nworld"))
    return r

  return mk


def canary(run, oid):
  """vacuity guard: the accumulated assumptions must be satisfiable"""
  import z3

  return run.obligation(oid, z3.BoolVal(False), expect="refutable", kind="vacuity-canary")
