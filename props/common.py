"""shared helpers for property modules"""
from wpv.contracts import Obligation, Run
from wpv.hostexec import HostRun
from wpv.runner import Result
from wpv.sym import SOME, T_BOOL, T_INT, T_FLOAT

MODEL_SIZES = ["nq", "nv", "nu", "na", "nbody", "neq", "nmocap", "nuserdata", "nhistory", "nsensordata", "ntree", "nkey", "ngeom", "njnt"]


def bool_world_mask(name):
  """host argument factory: a bool array of shape (d.nworld,)"""

  def mk(ex):
    d = ex.root("d", "Data")
    r = ex.new_array(name, 1, T_BOOL)
    ex.assume(ex.shape_sym(r, 0) == ex.host_attr(d, "nworld"))
    return r

  return mk


def int_world_array(name):
  def mk(ex):
    d = ex.root("d", "Data")
    r = ex.new_array(name, 1, T_INT)
    ex.assume(ex.shape_sym(r, 0) == ex.host_attr(d, "nworld"))
    return r

  return mk


def canary(run, oid):
  """vacuity guard: the accumulated assumptions must be satisfiable"""
  import z3

  return run.obligation(oid, z3.BoolVal(False), expect="refutable", kind="vacuity-canary")


def native_cmd(what, model, masked=True, sig=None):
  """command line of scenarios/replay_native.py for a counter-model (dict name -> value string)"""

  def num(name):
    try:
      return int(str(model.get(name)).replace("(- ", "-").replace(")", "").replace(" ", ""))
    except Exception:
      return None

  cmd = ["VENV_PYTHON", "scenarios/replay_native.py", what]
  for k in ("nq", "nv", "nu", "na", "nmocap", "nuserdata", "neq", "nhistory", "nkey", "nbody"):
    v = num("m." + k)
    if v is not None:
      cmd += ["--" + k, str(v)]
  if sig is None:
    sig = num("sig")
  if sig is not None:
    cmd += ["--sig", str(sig)]
  cmd += ["--masked", "1" if masked else "0"]
  return cmd
