"""shared helpers for property modules"""
from wpv.contracts import Obligation, Run
from wpv.hostexec import HostRun
from wpv.runner import Result
from wpv.sym import SOME, T_BOOL, T_INT, T_FLOAT

MODEL_SIZES = ["nq", "nv", "nu", "na", "nbody", "neq", "nmocap", "nuserdata", "nhistory", "nsensordata", "ntree", "nkey", "ngeom", "njnt"]


def bool_world_mask(name):
  """host argument factory: a bool array of shape (d.nworld,)"""

  def mk(ex):
    d = ex.root("d", "Data")
    r = ex.new_array(name, 1, T_BOOL)
    ex.assume(ex.shape_sym(r, 0) == ex.host_attr(d, "nworld"))
    return r

  return mk


def int_world_array(name):
  def mk(ex):
    d = ex.root("d", "Data")
    r = ex.new_array(name, 1, T_INT)
    ex.assume(ex.shape_sym(r, 0) == ex.host_attr(d, "nworld"))
    return r

  return mk


def canary(run, oid, hints=None):
  """vacuity guard: the accumulated assumptions must be satisfiable. hints: concrete inputs (contract-language
  texts) under which the solver looks for the witness when the unconstrained search is inconclusive -- a model of
  (assumptions and hint) is a model of the assumptions"""
  import z3

  ob = run.obligation(oid, z3.BoolVal(False), expect="refutable", kind="vacuity-canary")
  if hints == "auto":
    ob.meta["sat_hints"] = [auto_hint(run)]
  elif hints:
    ob.meta["sat_hints"] = [[run.term(t) for t in h] for h in hints]
  return ob


def native_cmd(what, model, masked=True, sig=None):
  """command line of scenarios/replay_native.py for a counter-model (dict name -> value string)"""

  def num(name):
    try:
      return int(str(model.get(name)).replace("(- ", "-").replace(")", "").replace(" ", ""))
    except Exception:
      return None

  cmd = ["VENV_PYTHON", "scenarios/replay_native.py", what]
  for k in ("nq", "nv", "nu", "na", "nmocap", "nuserdata", "neq", "nhistory", "nkey", "nbody"):
    v = num("m." + k)
    if v is not None:
      cmd += ["--" + k, str(v)]
  if sig is None:
    sig = num("sig")
  if sig is not None:
    cmd += ["--sig", str(sig)]
  cmd += ["--masked", "1" if masked else "0"]
  return cmd


def auto_hint(run, extra_terms=()):
  """a concrete candidate witness for a vacuity canary of a real-arithmetic kernel run: every real-valued array
  cell the assumptions mention is pinned to a simple well-formed value (4-vectors: the identity quaternion
  (1,0,0,0); 3-vectors: the unit vector e_z; 3x3 matrices: the identity; scalars: 0). A model of
  (assumptions and these equalities) is a model of the assumptions."""
  import z3

  from wpv.sym import ArrRef, TVec

  elem = {}
  for name, v in run.params.items():
    if isinstance(v, ArrRef):
      elem[name] = v.elem
  cons = []
  seen = set()
  stack = [a for a in run.ex.assumes if isinstance(a, z3.ExprRef)] + list(extra_terms)
  done = set()
  while stack:
    t = stack.pop()
    if t.get_id() in seen:
      continue
    seen.add(t.get_id())
    if z3.is_quantifier(t):
      stack.append(t.body())
      continue
    if z3.is_app(t):
      d = t.decl()
      if d.kind() == z3.Z3_OP_UNINTERPRETED and t.num_args() >= 1 and z3.is_real(t):
        stem = d.name().split("@")[0]
        et = elem.get(stem)
        args = [t.arg(i) for i in range(t.num_args())]
        if et is not None and not any(z3.is_var(a) for a in args) and t.get_id() not in done:
          done.add(t.get_id())
          if isinstance(et, TVec):
            nd = len(et.shape)
            comp = [a.as_long() if z3.is_int_value(a) else None for a in args[-nd:]]
            if None not in comp:
              if et.shape == (4,):
                val = 1 if comp[0] == 0 else 0
              elif et.shape == (3,):
                val = 1 if comp[0] == 2 else 0
              elif len(et.shape) == 2 and et.shape[0] == et.shape[1]:
                val = 1 if comp[0] == comp[1] else 0
              else:
                val = 0
              cons.append(t == val)
          else:
            cons.append(t == 0)
      stack.extend(t.children())
  return cons
