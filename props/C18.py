"""C18 Broadphase choice does not change contacts -- the sweep-and-prune core (no pair is lost).

 (B) collision_core.sap_binary_search (while loop, quantified invariant, goal-directed instantiation): on a segment
     sorted in non-decreasing order it returns the boundary r with values[lower..r) <= value < values[r..upper).
 (R) collision_core.sap_range, run against that contract: for the element at sorted position s, every later element y
     whose projected lower bound does not exceed the upper bound of s lies within the emitted range, y <= s + range[s]
     (so the sweep enumerates every pair whose projections overlap: a superset of what all-pairs would keep after the
     same filters), and the range stays inside the segment.
 (T) math.upper_tri_index is a bijection from {0 <= i < j < n} onto [0, n(n-1)/2): in range and injective -- the pair
     table of the all-pairs broadphase and the pair-id lookup of the sweep address the same entry for the same pair.
"""
import z3

from wpv.contracts import FuncContract, Run
from wpv.runner import Result
from wpv.sym import T_FLOAT, T_INT, TArr

from .common import canary

INFO = {
  "trusted": [
    "the projected lower bounds of a world are sorted in non-decreasing order when sap_range runs (wp.utils segmented / radix sort: external)",
    "a geom lies inside the bounding volumes the filters test (geom_rbound / geom_aabb from the MuJoCo compiler)",
  ],
  "undecided": [
    "the work-package decode of _sap_broadphase (cumulative sum + binary search over worlds), the bounding-volume filters themselves (_sphere_filter, _aabb_filter, _obb_filter, _plane_filter) and the margins they use (D9, explicit pair margins ignored by the filters, was repaired in /repo and is guarded by C19's filter_bypass obligation)",
    "equality of the resulting contact multisets (narrowphase is shared; not a per-function postcondition)",
  ],
}

BS = "collision_core:sap_binary_search"
V = lambda x: f"values[{x}]"
SORTED = f"forall((x, y), implies(lower <= x and x <= y and y < upper, {V('x')} <= {V('y')}))"


def bs_contract():
  c = FuncContract(
    BS,
    requires=["0 <= lower and lower <= upper and upper <= values.shape[0]", SORTED],
    ensures=[
      "lower <= result and result <= upper",
      f"forall(x, implies(lower <= x and x < result, {V('x')} <= value))",
      f"forall(x, implies(result <= x and x < upper, {V('x')} > value))",
    ],
  )
  c.param_types = {}
  return c


def g_binary_search(tier):
  inv = {
    (BS, 0): {
      "arrays": [],
      "hints": [],
      "inv": [
        "lower0 <= lower and lower <= upper and upper <= upper0",
        f"forall(x, implies(lower0 <= x and x < lower, {V('x')} <= value))",
        f"forall(x, implies(upper <= x and x < upper0, {V('x')} > value))",
      ],
    }
  }

  def setup(R):
    l0, u0 = R.var("lower0"), R.var("upper0")
    R.var("x")
    R.var("y")
    R.ex.ghosts = dict(getattr(R.ex, "ghosts", {}) or {})
    R.ex.ghosts.update({"lower0": l0, "upper0": u0})

  R = Run(
    BS,
    invariants=inv,
    setup=setup,
    arg_types={"values": TArr(1, T_FLOAT), "value": T_FLOAT},
    pre=["lower0 == lower and upper0 == upper and 0 <= lower and lower <= upper and upper <= values.shape[0]", f"forall((x, y), implies(lower0 <= x and x <= y and y < upper0, {V('x')} <= {V('y')}))"],
  )
  obs = [canary(R, "sap_binary_search#canary")]
  for o in R.side_obligations("sap_binary_search#"):
    o.meta["instantiate"] = True
    obs.append(o)
  posts = {
    "range": "lower0 <= result and result <= upper0",
    "left_not_greater": f"implies(lower0 <= x and x < result, {V('x')} <= value)",
    "right_greater": f"implies(result <= x and x < upper0, {V('x')} > value)",
  }
  for n, g in posts.items():
    obs.append(R.obligation(f"sap_binary_search#ensures.{n}", g, kind="contract", meta={"instantiate": True, "goal": g}))
  return obs


def g_sap_range(tier):
  key = "collision_core:sap_range"
  c = bs_contract()
  R = Run(key, contracts={BS: c}, setup=lambda R: (R.var("x"), R.var("y")), pre=["n >= 1 and n <= lower_in.shape[1]", "forall((x, y), implies(0 <= x and x <= y and y < n, lower_in[tid0, x] <= lower_in[tid0, y]))", "tid1 < n"])
  obs = [canary(R, "sap_range#canary")]
  for o in R.side_obligations("sap_range#"):
    o.meta["instantiate"] = True
    o.meta["goal"] = "precondition of sap_binary_search at its call site (segment bounds, sortedness)"
    obs.append(o)
  up = "upper_in[tid0, sort_index_in[tid0, tid1]]"
  obs.append(R.obligation("sap_range#no_overlapping_pair_lost", f"implies(tid1 < y and y < n and lower_in[tid0, y] <= {up}, y <= tid1 + range_out[tid0, tid1])", meta={"instantiate": True, "goal": "every later element whose projected lower bound is <= this element's upper bound lies inside the emitted range"}))
  obs.append(R.obligation("sap_range#range_within_segment", "0 <= range_out[tid0, tid1] and tid1 + range_out[tid0, tid1] <= n - 1", meta={"instantiate": True, "goal": "the range is non-negative and ends inside the segment"}))
  obs.append(Result(oid="sap_range#uses_binary_search", status="discharged" if c.uses == 1 else "violated", kind="contract", func=key, backend="analysis", meta={"function": key, "goal": "the range comes from one call of sap_binary_search (the function under contract)"}))
  return obs


def g_tri(tier):
  key = "math:upper_tri_index"
  R = Run(key, pre=["0 <= i and i < j and j < n"])
  i2, j2 = R.var("i2"), R.var("j2")
  obs = [canary(R, "upper_tri_index#canary")]
  obs.append(R.obligation("upper_tri_index#in_range", "0 <= result and 2 * result < n * (n - 1)", meta={"goal": "0 <= index < n(n-1)/2", "timeout_ms": 30000}))
  # injectivity: a second pair with the same index is the same pair
  n, i, j = R.params["n"], R.params["i"], R.params["j"]
  idx2 = (i2 * (2 * n - i2 - 3)) / 2 + j2 - 1
  same_formula = R.obligation("upper_tri_index#formula", R.result == (i * (2 * n - i - 3)) / 2 + j - 1, meta={"goal": "the function computes i*(2n-i-3)//2 + j - 1 (used to state injectivity for a second pair)"})
  obs.append(same_formula)
  obs.append(R.obligation("upper_tri_index#injective", z3.Implies(z3.And(0 <= i2, i2 < j2, j2 < n, idx2 == R.result), z3.And(i2 == i, j2 == j)), meta={"goal": "two pairs i<j with the same index are the same pair", "timeout_ms": 60000}))
  return obs


def groups(tier):
  return [("binary_search", g_binary_search), ("sap_range", g_sap_range), ("upper_tri_index", g_tri)]
