"""C18 Broadphase choice does not change contacts -- the sweep-and-prune core (no pair is lost).

 (B) collision_core.sap_binary_search (while loop, quantified invariant, goal-directed instantiation): on a segment
     sorted in non-decreasing order it returns the boundary r with values[lower..r) <= value < values[r..upper).
 (R) collision_core.sap_range, run against that contract: for the element at sorted position s, every later element y
     whose projected lower bound does not exceed the upper bound of s lies within the emitted range, y <= s + range[s]
     (so the sweep enumerates every pair whose projections overlap: a superset of what all-pairs would keep after the
     same filters), and the range stays inside the segment.
 (A) collision_driver._aabb_filter is conservative: it rejects a pair only if every point of box 1 is farther than
     margin1 + margin2 from every point of box 2 along some world axis.
 (T) math.upper_tri_index is a bijection from {0 <= i < j < n} onto [0, n(n-1)/2): in range and injective -- the pair
     table of the all-pairs broadphase and the pair-id lookup of the sweep address the same entry for the same pair.
"""
import z3

from wpv.contracts import FuncContract, Run
from wpv.runner import Result
from wpv.sym import T_FLOAT, T_INT, TArr

from .common import canary

INFO = {
  "trusted": [
    "the projected lower bounds of a world are sorted in non-decreasing order when sap_range runs (wp.utils segmented / radix sort: external)",
    "a geom lies inside the bounding volumes the filters test (geom_rbound / geom_aabb from the MuJoCo compiler)",
  ],
  "undecided": [
    "the work-package decode of _sap_broadphase (cumulative sum + binary search over worlds), the other bounding-volume filters (_sphere_filter, _obb_filter, _plane_filter) and the margins the filters use (D9, explicit pair margins ignored by the filters, was repaired in /repo and is guarded by C19's filter_bypass obligation)",
    "equality of the resulting contact multisets (narrowphase is shared; not a per-function postcondition)",
  ],
}

BS = "collision_core:sap_binary_search"
V = lambda x: f"values[{x}]"
SORTED = f"forall((x, y), implies(lower <= x and x <= y and y < upper, {V('x')} <= {V('y')}))"


def bs_contract():
  c = FuncContract(
    BS,
    requires=["0 <= lower and lower <= upper and upper <= values.shape[0]", SORTED],
    ensures=[
      "lower <= result and result <= upper",
      f"forall(x, implies(lower <= x and x < result, {V('x')} <= value))",
      f"forall(x, implies(result <= x and x < upper, {V('x')} > value))",
    ],
  )
  c.param_types = {}
  return c


def g_binary_search(tier):
  inv = {
    (BS, 0): {
      "arrays": [],
      "hints": [],
      "inv": [
        "lower0 <= lower and lower <= upper and upper <= upper0",
        f"forall(x, implies(lower0 <= x and x < lower, {V('x')} <= value))",
        f"forall(x, implies(upper <= x and x < upper0, {V('x')} > value))",
      ],
    }
  }

  def setup(R):
    l0, u0 = R.var("lower0"), R.var("upper0")
    R.var("x")
    R.var("y")
    R.ex.ghosts = dict(getattr(R.ex, "ghosts", {}) or {})
    R.ex.ghosts.update({"lower0": l0, "upper0": u0})

  R = Run(
    BS,
    invariants=inv,
    setup=setup,
    arg_types={"values": TArr(1, T_FLOAT), "value": T_FLOAT},
    pre=["lower0 == lower and upper0 == upper and 0 <= lower and lower <= upper and upper <= values.shape[0]", f"forall((x, y), implies(lower0 <= x and x <= y and y < upper0, {V('x')} <= {V('y')}))"],
  )
  obs = [canary(R, "sap_binary_search#canary")]
  for o in R.side_obligations("sap_binary_search#"):
    o.meta["instantiate"] = True
    obs.append(o)
  posts = {
    "range": "lower0 <= result and result <= upper0",
    "left_not_greater": f"implies(lower0 <= x and x < result, {V('x')} <= value)",
    "right_greater": f"implies(result <= x and x < upper0, {V('x')} > value)",
  }
  for n, g in posts.items():
    obs.append(R.obligation(f"sap_binary_search#ensures.{n}", g, kind="contract", meta={"instantiate": True, "goal": g}))
  return obs


def g_sap_range(tier):
  key = "collision_core:sap_range"
  c = bs_contract()
  R = Run(key, contracts={BS: c}, setup=lambda R: (R.var("x"), R.var("y")), pre=["n >= 1 and n <= lower_in.shape[1]", "forall((x, y), implies(0 <= x and x <= y and y < n, lower_in[tid0, x] <= lower_in[tid0, y]))", "tid1 < n"])
  obs = [canary(R, "sap_range#canary")]
  for o in R.side_obligations("sap_range#"):
    o.meta["instantiate"] = True
    o.meta["goal"] = "precondition of sap_binary_search at its call site (segment bounds, sortedness)"
    obs.append(o)
  up = "upper_in[tid0, sort_index_in[tid0, tid1]]"
  obs.append(R.obligation("sap_range#no_overlapping_pair_lost", f"implies(tid1 < y and y < n and lower_in[tid0, y] <= {up}, y <= tid1 + range_out[tid0, tid1])", meta={"instantiate": True, "goal": "every later element whose projected lower bound is <= this element's upper bound lies inside the emitted range"}))
  obs.append(R.obligation("sap_range#range_within_segment", "0 <= range_out[tid0, tid1] and tid1 + range_out[tid0, tid1] <= n - 1", meta={"instantiate": True, "goal": "the range is non-negative and ends inside the segment"}))
  obs.append(Result(oid="sap_range#uses_binary_search", status="discharged" if c.uses == 1 else "violated", kind="contract", func=key, backend="analysis", meta={"function": key, "goal": "the range comes from one call of sap_binary_search (the function under contract)"}))
  return obs


def g_tri(tier):
  key = "math:upper_tri_index"
  R = Run(key, pre=["0 <= i and i < j and j < n"])
  i2, j2 = R.var("i2"), R.var("j2")
  obs = [canary(R, "upper_tri_index#canary")]
  obs.append(R.obligation("upper_tri_index#in_range", "0 <= result and 2 * result < n * (n - 1)", meta={"goal": "0 <= index < n(n-1)/2", "timeout_ms": 30000}))
  # injectivity: a second pair with the same index is the same pair
  n, i, j = R.params["n"], R.params["i"], R.params["j"]
  idx2 = (i2 * (2 * n - i2 - 3)) / 2 + j2 - 1
  same_formula = R.obligation("upper_tri_index#formula", R.result == (i * (2 * n - i - 3)) / 2 + j - 1, meta={"goal": "the function computes i*(2n-i-3)//2 + j - 1 (used to state injectivity for a second pair)"})
  obs.append(same_formula)
  obs.append(R.obligation("upper_tri_index#injective", z3.Implies(z3.And(0 <= i2, i2 < j2, j2 < n, idx2 == R.result), z3.And(i2 == i, j2 == j)), meta={"goal": "two pairs i<j with the same index are the same pair", "timeout_ms": 60000}))
  return obs


def g_aabb(tier):
  """(A) collision_driver._aabb_filter never rejects a pair that could touch: for ANY point of box 1 (centre center1,
  half sizes size1, frame xmat1 / xpos1) and ANY point of box 2, if the filter returns False then the two world points
  differ by more than margin1 + margin2 along some world axis (so their distance exceeds the margin). No assumption on
  xmat (it need not be a rotation). Cut into steps: (1) |u| <= h -> r*u <= r*h or r*u <= -r*h, per matrix entry;
  (2) the extreme corner projections bound the projection of every box point, per box and axis; (3) the conclusion."""
  from wpv.contracts import Obligation
  from wpv.sym import tobool, zb

  key = "collision_driver:_aabb_filter"
  R = Run(key, pre=[f"size{b}[{i}] >= 0.0" for b in (1, 2) for i in range(3)])
  T = lambda text: zb(tobool(R.term(text)))
  for b in (1, 2):
    for i in range(3):
      R.var(f"u{b}_{i}", "float")
  inside = " and ".join(f"abs(u{b}_{i}) <= size{b}[{i}]" for b in (1, 2) for i in range(3))
  ax = "xyz"
  proj = lambda b, k: "(" + " + ".join(f"xmat{b}[{k}, {i}]*u{b}_{i}" for i in range(3)) + ")"
  obs = [canary(R, "_aabb_filter#canary")]
  lem = {}
  for b in (1, 2):
    for k in range(3):
      for i in range(3):
        r, u, h = f"xmat{b}[{k}, {i}]", f"u{b}_{i}", f"size{b}[{i}]"
        for sgn, nm in (("", "hi"), ("-", "lo")):
          # hi: r*u <= |r|*h ; lo: r*u >= -|r|*h, written without abs as a disjunction / conjunction over the sign of r
          text = f"implies(abs({u}) <= {h}, ({r}*{u} <= {r}*{h} or {r}*{u} <= -{r}*{h}))" if nm == "hi" else f"implies(abs({u}) <= {h}, ({r}*{u} >= {r}*{h} or {r}*{u} >= -{r}*{h}))"
          lem[(b, k, i, nm)] = T(text)
          obs.append(Obligation(f"_aabb_filter#lemma.box{b}.{ax[k]}{i}.{nm}", [], T(text), func=key, kind="lemma", meta={"function": key, "source_hash": R.info.source_hash, "goal": "|u| <= h bounds r*u by the larger of r*h and -r*h: " + text[:120], "timeout_ms": 20000}))
  from wpv.sym import Unsupported

  step = []
  aids = True
  try:
    for b in (1, 2):
      for k in range(3):
        hi = f"implies({inside}, {proj(b, k)} <= max_{ax[k]}{b})"
        lo = f"implies({inside}, {proj(b, k)} >= min_{ax[k]}{b})"
        for nm, text in (("hi", hi), ("lo", lo)):
          ob = R.obligation(f"_aabb_filter#corner_bounds.box{b}.{ax[k]}.{nm}", text, extra_assume=[lem[(b, k, i, nm)] for i in range(3)], meta={"goal": f"the {'largest' if nm == 'hi' else 'smallest'} corner projection on world axis {ax[k]} bounds the projection of every point of box {b}", "timeout_ms": 30000})
          obs.append(ob)
          step.append(T(text))
  except (Unsupported, KeyError):
    # the intermediate steps name locals of the current implementation (max_x1 ...); without them the conclusion is
    # still stated and attempted, only without these proof aids
    step, aids = [], False
  wc = lambda b, k: "(" + " + ".join(f"xmat{b}[{k}, {i}]*center{b}[{i}]" for i in range(3)) + f" + xpos{b}[{k}])"  # world centre (center1 / center2 name the parameters here)
  q = lambda b, k: f"({wc(b, k)} + {proj(b, k)})"
  sep = " or ".join(f"{q(1, k)} + margin1 + margin2 < {q(2, k)} or {q(2, k)} + margin1 + margin2 < {q(1, k)}" for k in range(3))
  concl = f"implies({inside} and not result, {sep})"
  # counter-model search (a model of query + hint is a model of the query): touching points, frames whose |matrix| is not symmetric
  eye = (1, 0, 0, 0, 1, 0, 0, 0, 1)
  frames = [(1, 1, 0, 0, 1, 0, 0, 0, 1), (1, 0, 0, 0, 1, 1, 0, 0, 1), (1, 0, 1, 0, 1, 0, 0, 0, 1), (1, 0, 0, 1, 1, 0, 0, 0, 1)]
  cases = []
  for fr in frames:
    for u in ((1, 0, 0), (0, 1, 0), (0, 0, 1)):
      w = [sum(fr[3 * k + i] * u[i] for i in range(3)) for k in range(3)]
      for one in (1, 2):
        two = 3 - one
        cases.append(({f"xmat{one}": fr, f"xmat{two}": eye, f"center{one}": (0, 0, 0), f"center{two}": w, f"size{one}": u, f"size{two}": (0, 0, 0), "xpos1": (0, 0, 0), "xpos2": (0, 0, 0), "margin1": (0.125,), "margin2": (0.125,)}, {f"u{one}_{i}": float(u[i]) for i in range(3)} | {f"u{two}_{i}": 0.0 for i in range(3)}))

  def pins(case):
    vals, us = case
    out = []
    for name, v in vals.items():
      if len(v) == 9:
        out += [T(f"{name}[{i // 3}, {i % 3}] == {float(x)}") for i, x in enumerate(v)]
      elif len(v) == 3:
        out += [T(f"{name}[{i}] == {float(x)}") for i, x in enumerate(v)]
      else:
        out.append(T(f"{name} == {float(v[0])}"))
    return out + [T(f"{k} == {x}") for k, x in us.items()]

  search = [pins(c) for c in cases]

  def native(model, ob):
    import json
    import os

    from wpv import replay as rp
    from wpv.contracts import _num
    from wpv.sym import Vec, lift

    here = os.path.dirname(os.path.dirname(os.path.abspath(__file__)))
    os.makedirs(os.path.join(here, "replay"), exist_ok=True)
    path = os.path.join("replay", "func__aabb_filter_rejects_only_separated_boxes.input.json")
    kinds = {1: "float", 3: "vec3", 9: "mat33"}
    names = [a_.arg for a_ in R.info.node.args.args]

    def run(params, extra, what):
      with open(os.path.join(here, path), "w") as f:
        json.dump({"module": "collision_driver", "func": "_aabb_filter", "params": params, "ret": ["bool"], "requires": [f"size{b}[{i}] >= 0.0" for b in (1, 2) for i in range(3)], "clause": concl, "extra": extra}, f, indent=1)
      cmd = ["VENV_PYTHON", "scenarios/replay_func.py", path]
      rc, out = rp.run_native(cmd)
      return {"native_cmd": cmd, "exit": rc, "reproduced": rc == 1, "input": what, "meaning": "exit 1: the real _aabb_filter rejects two boxes that share a point although the margins are positive; 0: it does not; 2: not executable", "output": out[-2000:]}

    res = None
    if model is not None:
      val = lambda t: _num(model, lift(t, "float"))
      params = [[n, kinds[len(R.params[n].comps) if isinstance(R.params[n], Vec) else 1], [val(c) for c in (R.params[n].comps if isinstance(R.params[n], Vec) else [R.params[n]])]] for n in names]
      res = run(params, {f"u{b}_{i}": val(R.qvars[f"u{b}_{i}"]) for b in (1, 2) for i in range(3)}, "the solver's counter-model")
      if res["reproduced"]:
        return res
    # the solver's model may sit exactly on the boundary (touching boxes, zero margin), which float comparison with a
    # tolerance does not separate: the pinned inputs of the counter-model search have a clear gap; run them natively
    for vals, us in cases[:8]:
      r2 = run([[n, kinds[len(vals[n])], [float(x) for x in vals[n]]] for n in names], us, "pinned input of the counter-model search")
      if r2["reproduced"]:
        return r2
    return res or {"reproduced": None, "note": "no model object"}

  obs.append(R.obligation("_aabb_filter#rejects_only_separated_boxes", concl, extra_assume=step, meta={"goal": "if the filter rejects the pair, any point of box 1 and any point of box 2 are farther apart than margin1 + margin2 along a world axis", "timeout_ms": 60000 if aids else 20000, "proof_aids": "corner bounds" if aids else "none (locals of the implementation not found)", "sat_hints": search, "replay": native}))
  return obs


def groups(tier):
  return [("binary_search", g_binary_search), ("sap_range", g_sap_range), ("upper_tri_index", g_tri), ("aabb_filter", g_aabb)]
