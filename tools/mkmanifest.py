#!/usr/bin/env python3
"""Regenerate MANIFEST.json from props/registry.py (single source of truth) and validate it."""
import json
import os
import sys

HERE = os.path.dirname(os.path.dirname(os.path.abspath(__file__)))
sys.path.insert(0, HERE)
from props.registry import CLAIMS, NOT_APPLICABLE  # noqa: E402

props = [json.loads(l) for l in open(os.path.join(HERE, "properties.jsonl"))]
ids = [p["id"] for p in props]
checks = []
for pid in ids:
  if pid not in CLAIMS:
    continue
  c = CLAIMS[pid]
  checks.append(
    {
      "property_id": pid,
      "quick_cmd": f"./check {pid} --tier quick",
      "thorough_cmd": f"./check {pid} --tier thorough",
      "evidence_file": f"evidence/{pid}.json",
      "replay_cmd_template": f"./check {pid} --replay {{path}}",
      "engine": "wpv",
      "level_claimed": {"category": "proof", "text": c["text"], "design_ref": c.get("design_ref", "DESIGN.md section 3")},
      "level_note": c["note"],
      "technique": c.get("technique", "contract-based deductive verification: VCs generated from the real source (python ast -> SMT), discharged by z3/cvc5"),
    }
  )
na = []
for pid in ids:
  if pid in CLAIMS:
    continue
  na.append({"property_id": pid, "reason": NOT_APPLICABLE.get(pid, "contracts not completed in the time available")})
m = {
  "version": 1,
  "setup_cmd": "./check --setup",
  "hooks": {
    "guard": "MUJOCO_WARP_VERIF",
    "enable": "no source hooks are needed: the verifier reads /repo source text; replay drives the public API",
    "baseline_off_cmd": "cd /repo && /venv/bin/python -m pytest -ra -q -p no:cacheprovider --timeout=900 --continue-on-collection-errors",
    "source_commits": [],
    "add_only": True,
  },
  "engines": [
    {
      "name": "wpv",
      "path": "wpv/",
      "serves_properties": [c["property_id"] for c in checks],
      "kind_free_text": "self-built contract verifier: python ast -> SMT verification conditions over the real Warp kernel and host source (re-extracted every run), sidecar contracts in props/, z3 5.1 / z3 4.8 / cvc5 back ends",
    }
  ],
  "checks": checks,
  "notes": "See DESIGN.md. Genuine defects found are repaired by 'fix:' commits in /repo or listed in known_findings.json.",
  "not_applicable": na,
}
with open(os.path.join(HERE, "MANIFEST.json"), "w") as f:
  json.dump(m, f, indent=1)
try:
  import jsonschema

  jsonschema.validate(m, json.load(open("/root/.vp/MANIFEST.schema.json")))
  print("MANIFEST.json valid;", len(checks), "checks,", len(na), "not applicable")
except ImportError:
  print("written (jsonschema not available for validation)")
