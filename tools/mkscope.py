#!/usr/bin/env python3
"""mkscope.py <property>: (re)generate contracts/scope_<property>.txt from the functions the
translator cannot handle on the CURRENT tree. Run by hand on the unchanged tree and commit the
result; a function that leaves the dialect later and is not listed makes the check undecided."""
import os, re, subprocess, sys
pid = sys.argv[1]
here = os.path.dirname(os.path.dirname(os.path.abspath(__file__)))
path = os.path.join(here, "contracts", f"scope_{pid}.txt")
keep = []
if os.path.exists(path):
  keep = [l.rstrip("\n") for l in open(path) if l.startswith("#!")]  # hand-written entries
  os.rename(path, path + ".bak")
out = subprocess.run([os.path.join(here, "check"), pid], capture_output=True, text=True, cwd=here).stdout
rows = {}
for l in out.splitlines():
  m = re.match(r"UNDECIDED obligation=(\S+?)(\[.*\])?#translate reason=.*?scope_\w+\.txt: (.*)", l)
  if m:
    rows.setdefault(m.group(1), m.group(3)[:110])
with open(path, "w") as f:
  f.write(f"# functions outside the verifier's dialect for {pid} (unverified surroundings): key  reason\n")
  for l in keep:
    f.write(l + "\n")
  for k in sorted(rows):
    f.write(f"{k}  # {rows[k]}\n")
os.path.exists(path + ".bak") and os.remove(path + ".bak")
print(len(rows), "functions listed in", path)
