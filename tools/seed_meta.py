#!/usr/bin/env python3
"""seed_meta.py <seed-id> <property> "<what it needs to manifest>"
Writes seeded/<id>/meta.json from (a) the confirmation run of tools/confirm_seed.sh in the scratch worktree
(demo with / without the change, repository test-suite with the change) and (b) tools/run_seeds.sh <id>
(the registered quick check on a scratch clone of /repo with the patch applied; /repo itself is not touched)."""
import json, os, subprocess, sys
sid, prop, needs = sys.argv[1:4]
here = os.path.dirname(os.path.dirname(os.path.abspath(__file__)))
conf = {}
cp = f"/tmp/scratch/confirm_{sid}/result.json"
if os.path.exists(cp):
  conf = json.load(open(cp))
r = subprocess.run([os.path.join(here, "tools", "run_seeds.sh"), sid], capture_output=True, text=True)
meta = {"seed": sid, "breaks_property": prop, "needs_to_manifest": needs, "confirmation": conf,
        "what_was_run": "tools/confirm_seed.sh in the sub-agent's scratch worktree (demo exits 1 with the change and 0 without; full pytest with the change: same failing set as the baseline); tools/run_seeds.sh (registered quick check on a scratch clone with the patch applied)",
        "detection": {"exit": r.returncode, "output": r.stdout.strip().splitlines()[-3:]}}
json.dump(meta, open(os.path.join(here, "seeded", sid, "meta.json"), "w"), indent=1)
print(json.dumps(meta["detection"], indent=1)[:800], conf.get("demo_rc_with_change"), conf.get("demo_rc_without_change"), conf.get("failed_not_in_baseline_always_fail"))
