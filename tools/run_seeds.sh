#!/bin/bash
# usage: tools/run_seeds.sh [seed-id ...]
# Self-test of the checks against the stored seeded changes (seeded/<id>/patch.diff: small edits of mujoco_warp that
# break one property while the repository's test-suite still passes).  For each seed a scratch clone of /repo is made
# outside /repo and /verif, the patch is applied there, the property's registered quick check is run on that tree
# (WPV_REPO) from a scratch copy of /verif (so /verif/evidence is not touched), and the check must exit 1 with a
# VIOLATION line.  The unchanged scratch clone must stay quiet (exit 0).  Scratch is removed afterwards.
HERE=$(cd "$(dirname "$0")/.." && pwd)
S=${WPV_SCRATCH:-/root/scratch/seedrun.$$}
mkdir -p "$S"; trap 'rm -rf "$S"' EXIT
rsync -a --exclude .git --exclude replay --exclude __pycache__ "$HERE/" "$S/verif/"
mkdir -p "$S/verif/replay"
ids=("$@"); [ ${#ids[@]} -eq 0 ] && ids=($(cd "$HERE/seeded" && ls -d */ | tr -d /))
rc=0
for id in "${ids[@]}"; do
  prop=${id%%-*}
  rm -rf "$S/repo"; git clone -q /repo "$S/repo"
  if ! git -C "$S/repo" apply "$HERE/seeded/$id/patch.diff"; then echo "$id: patch does not apply"; rc=1; continue; fi
  out=$(cd "$S/verif" && WPV_REPO="$S/repo" ./check "$prop" --tier quick 2>&1); e=$?
  n=$(grep -c '^VIOLATION property='"$prop" <<<"$out")
  if [ $e -eq 1 ] && [ "$n" -gt 0 ]; then echo "$id: detected (exit 1, $n VIOLATION lines, $(grep '^VIOLATION' <<<"$out" | grep -vc 'no-failing-input-found') replayed natively on the real code; first: $(grep -m1 -A1 '^VIOLATION' <<<"$out" | tail -1 | cut -c1-160))"
  else echo "$id: NOT detected (exit $e)"; tail -3 <<<"$out"; rc=1; fi
done
exit $rc
