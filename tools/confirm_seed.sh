#!/bin/bash
# usage: confirm_seed.sh <worktree> <seed-id> <property> [nopytest]
# Confirms a seeded change in its scratch worktree: demo fails with the change, passes without, and the
# repository's test-suite still passes with the change applied (same pass/fail set as the baseline).
WT=$1; ID=$2; PROP=$3; MODE=$4
OUT=/tmp/scratch/confirm_$ID
mkdir -p $OUT
cd $WT || exit 2
export PYTHONPATH=$WT
git diff -- mujoco_warp > $OUT/patch.diff
/venv/bin/python _seed/demo.py > $OUT/demo_with.log 2>&1; RC_WITH=$?
git apply -R $OUT/patch.diff
/venv/bin/python _seed/demo.py > $OUT/demo_without.log 2>&1; RC_WITHOUT=$?
git apply $OUT/patch.diff
if [ "$MODE" != "nopytest" ]; then
  /venv/bin/python -m pytest -q -p no:cacheprovider --timeout=900 --continue-on-collection-errors -n 6 mujoco_warp > $OUT/pytest.log 2>&1
fi
TAIL=$(tail -1 $OUT/pytest.log)
grep -E "^(FAILED|ERROR)" $OUT/pytest.log | sed 's/ - .*//; s/^FAILED //; s/^ERROR //' | sort > $OUT/failed.txt
python3 - <<PY
import json, ast
b=json.load(open('/root/.vp/BASELINE.json'))
af=b['always_fail']; af=ast.literal_eval(af) if isinstance(af,str) else af
norm=lambda t: t.replace('/','.').replace('.py::','.').replace('::','::') 
failed=[l.strip() for l in open("$OUT/failed.txt") if l.strip()]
def key(t):
    # mujoco_warp/_src/x_test.py::Cls::name -> mujoco_warp._src.x_test.Cls::name
    p,_,rest=t.partition('::'); return p[:-3].replace('/','.')+'.'+rest
new=[t for t in failed if key(t) not in set(af)]
json.dump({"seed":"$ID","property":"$PROP","demo_rc_with_change":$RC_WITH,"demo_rc_without_change":$RC_WITHOUT,"pytest_summary":"""$TAIL""","n_failed":len(failed),"failed_not_in_baseline_always_fail":new},open("$OUT/result.json","w"),indent=1)
PY
echo done > $OUT/DONE
