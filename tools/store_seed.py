#!/usr/bin/env python3
"""store_seed.py <seed-id> <property> <worktree> "<what it needs to manifest>" [patch-override]
Copies patch/demo/notes from the agent's worktree into /verif/seeded/<id>/, runs the registered check
for the property against the patch applied to /repo (then reverts /repo), and writes meta.json."""
import json, os, shutil, subprocess, sys
sid, prop, wt, needs = sys.argv[1:5]
patch = sys.argv[5] if len(sys.argv) > 5 else os.path.join(wt, "_seed", "patch.diff")
dst = f"/verif/seeded/{sid}"
os.makedirs(dst, exist_ok=True)
shutil.copy(patch, f"{dst}/patch.diff")
for f in ("demo.py", "notes.md"):
  p = os.path.join(wt, "_seed", f)
  if os.path.exists(p):
    shutil.copy(p, f"{dst}/{f}")
conf = {}
cp = f"/tmp/scratch/confirm_{sid}/result.json"
if os.path.exists(cp):
  conf = json.load(open(cp))
assert subprocess.run(["git", "-C", "/repo", "status", "--porcelain"], capture_output=True, text=True).stdout.strip() == "", "/repo not clean"
r = subprocess.run(["git", "-C", "/repo", "apply", f"{dst}/patch.diff"], capture_output=True, text=True)
det = {"applied": r.returncode == 0}
checks = [prop] + [a for a in os.environ.get("ALSO", "").split() if a]
if r.returncode == 0:
  try:
    for c in checks:
      if not os.path.exists(f"/verif/props/{c}.py"):
        det[c] = {"exit": None, "note": "no check registered yet"}
        continue
      rr = subprocess.run(["./check", c], cwd="/verif", capture_output=True, text=True)
      lines = [l for l in rr.stdout.splitlines() if l.startswith("VIOLATION") or l.startswith("  failed obligation") or l.startswith("UNDECIDED")]
      det[c] = {"exit": rr.returncode, "lines": [l[:240] for l in lines[:12]]}
  finally:
    subprocess.run(["git", "-C", "/repo", "checkout", "--", "."])
    # evidence files were rewritten by the mutated run: restore them from git
    subprocess.run(["git", "-C", "/verif", "checkout", "--", "evidence"], capture_output=True)
meta = {"seed": sid, "breaks_property": prop, "needs_to_manifest": needs, "confirmation": conf,
        "what_was_run": "tools/confirm_seed.sh (demo with/without the change, full pytest with the change) in a scratch worktree; tools/store_seed.py (registered check against /repo with the patch applied, then reverted)",
        "detection": det}
json.dump(meta, open(f"{dst}/meta.json", "w"), indent=1)
print(json.dumps(det, indent=1)[:1500])
