#!/bin/bash
# Re-run every registered quick check in /verif against /repo (exactly as MANIFEST.json registers them, evidence file
# removed first), then validate every evidence file.  Run this before committing: the committed evidence must be the
# output of the committed checks on the committed tree (a stale file from an earlier development run is not evidence).
HERE=$(cd "$(dirname "$0")/.." && pwd); cd "$HERE"
export VERIF_SEED=${VERIF_SEED:-1} VERIF_TIER=quick
./check --setup || exit 3
rc=0
for p in $(jq -r '.checks[].property_id' MANIFEST.json); do
  rm -f "evidence/$p.json"
  out=$(./check "$p" --tier quick 2>&1); e=$?
  echo "$out" | grep -E '^\[|^VIOLATION|^UNDECIDED|^CHECKER|^KNOWN' | cut -c1-220
  [ $e -ne 0 ] && { echo "$p: exit $e"; rc=1; }
done
tools/validate_evidence.py "$HERE" || rc=1
exit $rc
