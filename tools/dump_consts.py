"""Run under /venv/bin/python: dump the repo's enum values / numeric constants to JSON.

These are *values of names* the kernels mention (State.QPOS, MJ_MINVAL, ...). They come
from importing the real mujoco_warp._src.types (which takes them from the mujoco wheel),
so the verifier never hard-codes them.
"""

import enum
import json
import sys


def main(out):
  import mujoco_warp._src.types as T

  res = {"enums": {}, "consts": {}, "vectypes": {}}
  for name in dir(T):
    obj = getattr(T, name)
    if isinstance(obj, type) and issubclass(obj, enum.Enum) and obj.__module__ == T.__name__:
      members = {}
      for mn, mv in obj.__members__.items():
        members[mn] = int(mv.value)
      res["enums"][name] = {"flag": issubclass(obj, enum.IntFlag), "members": members}
    elif isinstance(obj, (int, float)) and not isinstance(obj, bool) and not name.startswith("__"):
      res["consts"][name] = obj
    elif isinstance(obj, bool):
      res["consts"][name] = obj
    elif isinstance(obj, type) and hasattr(obj, "_shape_") and hasattr(obj, "_wp_scalar_type_"):
      shape = tuple(int(x) for x in obj._shape_)
      st = obj._wp_scalar_type_
      res["vectypes"][name] = {"shape": shape, "dtype": "f" if "float" in st.__name__ else "i"}
  # vector / matrix types defined in other modules (class vec8f(wp.types.vector(length=8, ...)) in
  # collision_primitive_core, ...): shape and scalar kind only
  import importlib
  import os
  import pkgutil

  import mujoco_warp._src as S

  for mi in pkgutil.iter_modules([os.path.dirname(S.__file__)]):
    if mi.name.endswith("_test") or mi.name in ("types",) or "test" in mi.name or mi.name.startswith("render"):
      continue
    try:
      M = importlib.import_module("mujoco_warp._src." + mi.name)
    except Exception:
      continue
    for name, obj in vars(M).items():
      if isinstance(obj, type) and hasattr(obj, "_shape_") and hasattr(obj, "_wp_scalar_type_") and name not in res["vectypes"] and getattr(obj, "__module__", "").startswith("mujoco_warp"):
        shape = tuple(int(x) for x in obj._shape_)
        res["vectypes"][name] = {"shape": shape, "dtype": "f" if "float" in obj._wp_scalar_type_.__name__ else "i"}
  # runtime types of the scalar (non-array) fields of Model / Option / Statistic / Data on a few fixture models:
  # C36 needs to know which fields are plain python values (hashed by value by cache_kernel) and which are numpy
  # scalars (which have `.size` and would all be keyed as 1)
  try:
    import mujoco
    import mujoco_warp as mjw

    ft = {}
    base = os.path.join(os.path.dirname(os.path.dirname(S.__file__)), "test_data")
    xmls = [os.path.join(base, x) for x in ("pendula.xml", "constraints.xml", "collision.xml", os.path.join("humanoid", "humanoid.xml"))]
    xmls.append("<mujoco><option cone='elliptic'/><worldbody><geom type='plane' size='1 1 .1'/><body pos='0 0 .1'><freejoint/><geom size='.1' condim='6'/></body></worldbody></mujoco>")

    def walk(prefix, obj, depth=0):
      import dataclasses

      if not dataclasses.is_dataclass(obj) or depth > 2:
        return
      for f in dataclasses.fields(obj):
        try:
          v = getattr(obj, f.name)
        except Exception:
          continue
        if dataclasses.is_dataclass(v):
          walk(prefix + "." + f.name, v, depth + 1)
          continue
        tn = type(v).__name__
        if isinstance(v, enum.Enum):
          tn = "enum"
        if hasattr(v, "shape") and getattr(v, "ndim", 0) > 0 or tn in ("array", "tuple", "list", "dict", "NoneType"):
          continue
        ft.setdefault(prefix + "." + f.name, set()).add(tn)

    for x in xmls:
      try:
        mjm = mujoco.MjModel.from_xml_path(x) if os.path.exists(x) else mujoco.MjModel.from_xml_string(x)
        m = mjw.put_model(mjm)
        d = mjw.make_data(mjm)
        walk("m", m)
        walk("d", d)
      except Exception:
        continue
    res["field_types"] = {k: sorted(v) for k, v in ft.items()}
  except Exception as e:
    res["field_types_error"] = str(e)[:300]
  # BlockDim defaults (dataclass of ints) are launch parameters, not semantics: skipped.
  import mujoco

  res["mujoco_version"] = mujoco.__version__
  res["mujoco_consts"] = {
    n: getattr(mujoco, n) for n in dir(mujoco) if n.startswith("mj") and isinstance(getattr(mujoco, n), (int, float)) and not isinstance(getattr(mujoco, n), bool)
  }
  import warp

  res["warp_version"] = warp.__version__
  with open(out, "w") as f:
    json.dump(res, f, indent=1, sort_keys=True)


if __name__ == "__main__":
  main(sys.argv[1])
