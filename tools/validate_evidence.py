#!/opt/veriftools/pyvenv/bin/python
"""Validate evidence/<id>.json files: JSON schema (/root/.vp/EVIDENCE.schema.json when present, else the
structural subset below) plus the proof-level rule discharged == obligations >= 1, and agreement with MANIFEST.json
(level, evidence path).  usage: tools/validate_evidence.py [dir]   exit 0 all valid | 1 otherwise"""
import json
import os
import sys

HERE = os.path.dirname(os.path.dirname(os.path.abspath(__file__)))


def problems(ev, check=None):
  out = []
  for k in ("property_id", "tier", "seed", "level", "coverage", "wall_s"):
    if k not in ev:
      out.append(f"missing key {k}")
  cov = ev.get("coverage", {})
  if ev.get("level") == "proof":
    for k in ("obligations", "discharged", "checker_cmd", "trusted_base"):
      if k not in cov:
        out.append(f"coverage.{k} missing")
    if cov.get("obligations", 0) < 1:
      out.append("no obligations")
    if cov.get("discharged") != cov.get("obligations"):
      out.append(f"coverage.discharged ({cov.get('discharged')}) != obligations ({cov.get('obligations')})")
  if not isinstance(cov.get("samples"), list) or not cov.get("samples"):
    out.append("coverage.samples empty")
  if check is not None:
    if ev.get("property_id") != check["property_id"]:
      out.append("property_id differs from MANIFEST")
    if ev.get("level") != check["level_claimed"]["category"]:
      out.append("level differs from MANIFEST level_claimed.category")
  sp = "/root/.vp/EVIDENCE.schema.json"
  if os.path.exists(sp):
    try:
      import jsonschema

      for e in jsonschema.Draft202012Validator(json.load(open(sp))).iter_errors(ev):
        out.append("schema: " + e.message[:200])
    except ImportError:
      pass
  return out


def main():
  d = sys.argv[1] if len(sys.argv) > 1 else HERE
  man = json.load(open(os.path.join(d, "MANIFEST.json")))
  bad = 0
  for c in man["checks"]:
    p = os.path.join(d, c["evidence_file"])
    if not os.path.exists(p):
      print(c["property_id"], "MISSING", p)
      bad += 1
      continue
    pr = problems(json.load(open(p)), c)
    print(c["property_id"], "ok" if not pr else "INVALID: " + "; ".join(pr))
    bad += bool(pr)
  extra = sorted(set(os.listdir(os.path.join(d, "evidence"))) - {os.path.basename(c["evidence_file"]) for c in man["checks"]})
  for e in extra:
    print("unregistered evidence file:", e)
    bad += 1
  return 1 if bad else 0


if __name__ == "__main__":
  sys.exit(main())
